#!/bin/bash
# tools/seeded_try.sh <patch.diff> <CHECK_ID> [extra check args]
# Runs a check against a scratch copy of /repo with the patch applied (never touches /repo, never overwrites evidence).
# exit code = the check's exit code (1 = the seeded change was caught).
set -u
patch=$(readlink -f "$1"); shift
id=$1; shift
tmp=$(mktemp -d /tmp/seedtry.XXXXXX)
trap 'rm -rf "$tmp"' EXIT
mkdir -p "$tmp/repo" "$tmp/out"
( cd /repo && git archive HEAD ) | tar -x -C "$tmp/repo"
( cd "$tmp/repo" && git init -q . && git apply "$patch" ) || { echo "PATCH DOES NOT APPLY"; exit 3; }
cd /verif && DSIM_LUNA_REPO="$tmp/repo" DSIM_OUT_DIR="$tmp/out" ./check "$id" "$@"
rc=$?
echo "seeded_try: check $id exit code $rc"
exit $rc
