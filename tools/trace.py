#!/venv/bin/python
""" tools/trace.py <CHECK> <replay-or-scenario.json> [t0] [t1] : re-executes a scenario and prints, per cycle in [t0, t1], the
driven pins, the observed outputs and the FSM states (changes only).  Debugging aid; not used by any check. """
import sys, json, os
sys.dont_write_bytecode = True
ROOT = os.path.dirname(os.path.dirname(os.path.abspath(__file__)))
sys.path[:0] = [ROOT, os.environ.get("DSIM_LUNA_REPO", "/repo")]
from dsim import kernel, runner

prop, path = sys.argv[1].upper(), sys.argv[2]
t0 = int(sys.argv[3]) if len(sys.argv) > 3 else 0
t1 = int(sys.argv[4]) if len(sys.argv) > 4 else 10**9
WATCH = [w for w in os.environ.get("TRACE_WATCH", "").split(",") if w]      # internal register names to print as well
doc = json.load(open(path))
scn = doc.get("scenario", doc)
orig_run = kernel.Bench.run


def run(self, actors, max_cycles, *, init=None):
    bench = self
    last = {}

    watched = []
    if WATCH:
        seen = set()
        for frag in kernel._walk_fragments(bench.sim._design.fragment):
            stmts = frag.statements
            for group in (stmts.values() if isinstance(stmts, dict) else [stmts]):
                for stmt in group:
                    try:
                        lhs = stmt._lhs_signals()
                    except Exception:
                        continue
                    for sig in lhs:
                        if id(sig) not in seen and sig.name in WATCH:
                            seen.add(id(sig))
                            watched.append(sig)
        st_ = bench.sim._engine._state
        wslots = [(s_.name, st_.slots[st_.get_signal(s_)]) for s_ in watched]
    else:
        wslots = []

    class Tracer:
        def drive(self, t):
            return None

        def observe(self, t, sample):
            if t0 <= t <= t1:
                st = {}
                for s, sl in zip(bench.fsm_sigs, bench._fsm_slots):
                    dec = getattr(s, "decoder", None)
                    v = sl.curr
                    try:
                        st[s.name] = dec(v) if dec else v
                    except Exception:
                        st[s.name] = v
                ins = {n: sl.curr for n, sl in zip(bench.in_names, bench._in_slots)}
                cur = {"in": ins, "out": dict(sample), "fsm": st, "reg": {n: sl.curr for n, sl in wslots}}
                parts = []
                for grp in ("in", "out", "fsm", "reg"):
                    ch = {k: v for k, v in cur[grp].items() if last.get(grp, {}).get(k) != v}
                    if ch:
                        parts.append(grp + ":" + " ".join(f"{k}={v:#x}" if isinstance(v, int) and v > 9 else f"{k}={v}" for k, v in ch.items()))
                    last[grp] = cur[grp]
                if parts:
                    print(f"t={t:6d} " + " | ".join(parts))
            return False
    return orig_run(self, list(actors) + [Tracer()], max_cycles, init=init)


kernel.Bench.run = run
mod = runner.load_check(prop)
r = runner.execute(mod, scn)
print("RESULT first:", r.get("first"), "error:", r.get("error"))
