#!/bin/bash
# tools/seeded_confirm.sh <src dir with patch.diff demo.py notes.txt> <seeded id, e.g. C06-m1> <property id>
# Confirms independently: demo passes on the clean tree, fails with the patch, the pinned suite still passes with the patch.
# On success stores /verif/seeded/<id>/{patch.diff,demo.py,notes.txt,meta.json}.
set -u
src=$(readlink -f "$1"); sid=$2; prop=$3
tmp=$(mktemp -d /tmp/seedconf.XXXXXX)
trap 'rm -rf "$tmp"' EXIT
mkdir -p "$tmp/repo"
( cd /repo && git archive HEAD ) | tar -x -C "$tmp/repo"
cd "$tmp/repo" && git init -q . >/dev/null 2>&1
cp "$src/demo.py" "$tmp/repo/_seeded_demo.py"
PYTHONPATH="$tmp/repo" timeout 900 /venv/bin/python -B _seeded_demo.py >"$tmp/clean.log" 2>&1; rc_clean=$?
git apply "$src/patch.diff" || { echo "CONFIRM $sid: patch does not apply"; exit 3; }
PYTHONPATH="$tmp/repo" timeout 900 /venv/bin/python -B _seeded_demo.py >"$tmp/patched.log" 2>&1; rc_patched=$?
PYTHONPATH="$tmp/repo" timeout 1800 /venv/bin/python -m pytest -q -p no:cacheprovider --timeout=900 tests >"$tmp/suite.log" 2>&1
suite=$(tail -1 "$tmp/suite.log")
echo "CONFIRM $sid: demo clean rc=$rc_clean, demo patched rc=$rc_patched, suite: $suite"
if [ $rc_clean -eq 0 ] && [ $rc_patched -ne 0 ] && echo "$suite" | grep -q "93 passed" && ! echo "$suite" | grep -q failed; then
  d=/verif/seeded/$sid; mkdir -p "$d"
  cp "$src/patch.diff" "$src/demo.py" "$d/"; [ -f "$src/notes.txt" ] && cp "$src/notes.txt" "$d/"
  /venv/bin/python - "$d" "$sid" "$prop" "$rc_clean" "$rc_patched" "$suite" <<'PY' 2>/dev/null
import json,sys,os,subprocess
d,sid,prop,rc_clean,rc_patched,suite=sys.argv[1:7]
notes=open(os.path.join(d,'notes.txt')).read() if os.path.exists(os.path.join(d,'notes.txt')) else ''
head=subprocess.run(['git','-C','/repo','rev-parse','--short','HEAD'],capture_output=True,text=True).stdout.strip()
meta={"id":sid,"breaks_property":prop,"written_by":"independent sub-agent given only the property text and a scratch worktree",
 "needs_to_manifest":notes.strip(),"base_commit":head,
 "confirmed":{"demo_on_clean_tree_rc":int(rc_clean),"demo_on_patched_tree_rc":int(rc_patched),"pinned_suite_with_patch":suite,
   "how":"tools/seeded_confirm.sh: git archive HEAD of /repo into a scratch dir; python demo.py (expect 0); git apply patch.diff; python demo.py (expect !=0); pytest tests (expect 93 passed)"},
 "caught_by":[]}
json.dump(meta,open(os.path.join(d,'meta.json'),'w'),indent=1)
PY
  echo "CONFIRM $sid: stored in $d"
else
  echo "CONFIRM $sid: REJECTED"; tail -5 "$tmp/clean.log" "$tmp/patched.log" | grep -v -i conda | tail -12
  exit 1
fi
