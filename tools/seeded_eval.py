#!/venv/bin/python
""" tools/seeded_eval.py <seeded-id> [CHECK ...] [--jobs N]
Runs the given checks (default: the property the seeded change breaks) against a scratch copy of /repo with the
seeded patch applied, and records in /verif/seeded/<id>/meta.json which checks caught it (exit 1 + VIOLATION line). """
import sys, os, json, subprocess, re
args = [a for a in sys.argv[1:] if not a.startswith("--")]
jobs = "8"
for a in sys.argv[1:]:
    if a.startswith("--jobs="):
        jobs = a.split("=")[1]
sid = args[0]
d = f"/verif/seeded/{sid}"
meta = json.load(open(f"{d}/meta.json"))
checks = args[1:] or [meta["breaks_property"]]
for c in checks:
    p = subprocess.run(["/verif/tools/seeded_try.sh", f"{d}/patch.diff", c, "--jobs", jobs], capture_output=True, text=True)
    out = p.stdout
    rules = sorted(set(re.findall(r"rule=(\S+)", out)))
    m = re.search(r"seeded_try: check \S+ exit code (\d+)", out)
    rc = int(m.group(1)) if m else -1
    caught = rc == 1 and "VIOLATION property=" in out
    entry = {"check": c, "tier": "quick", "exit_code": rc, "caught": caught, "rules_fired": rules,
             "cmd": f"tools/seeded_try.sh seeded/{sid}/patch.diff {c}"}
    meta["caught_by"] = [e for e in meta.get("caught_by", []) if e.get("check") != c] + [entry]
    print(f"{sid}: check {c} -> exit {rc} caught={caught} rules={rules}")
    if rc not in (0, 1):
        print(out[-1500:])
json.dump(meta, open(f"{d}/meta.json", "w"), indent=1)
