#!/bin/bash
# tools/seeded_check_apply.sh [--rebase] : verify every seeded/<id>/patch.diff applies to /repo HEAD with `git apply`;
# with --rebase, patches that no longer apply are re-created with `patch -F3` (same change, new context) and must then be
# re-confirmed (tools/seeded_confirm.sh) and re-evaluated (tools/seeded_eval.py) by hand.
tmp=$(mktemp -d /tmp/seedapply.XXXXXX); trap 'rm -rf "$tmp"' EXIT
mkdir -p "$tmp/repo"; ( cd /repo && git archive HEAD ) | tar -x -C "$tmp/repo"
cd "$tmp/repo" && git init -q . >/dev/null 2>&1 && git add -A >/dev/null 2>&1 && git -c user.email=x -c user.name=x commit -qm base >/dev/null 2>&1
for d in /verif/seeded/*/; do
  id=$(basename "$d")
  if git apply --check "$d/patch.diff" 2>/dev/null; then continue; fi
  echo "$id: patch does not apply to HEAD"
  if [ "$1" = "--rebase" ]; then
    if patch -p1 -F3 --no-backup-if-mismatch < "$d/patch.diff" >/dev/null 2>&1; then
      git diff > "$tmp/new.diff"; git checkout -q -- . ; find . -name '*.orig' -o -name '*.rej' | xargs -r rm -f
      cp "$tmp/new.diff" "$d/patch.diff"; echo "$id: rebased"
    else
      git checkout -q -- . ; find . -name '*.orig' -o -name '*.rej' | xargs -r rm -f; echo "$id: REBASE FAILED"
    fi
  fi
done
echo "seeded_check_apply: done"
