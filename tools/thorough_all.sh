#!/bin/bash
# tools/thorough_all.sh [wall-seconds-per-check] [ID ...] : thorough tier of the given (default: every claimed) checks,
# one after another (background use, e.g. `vp run -- tools/thorough_all.sh 300 C19 C20`)
wall=${1:-240}; shift
ids="$*"
[ -n "$ids" ] || ids=$(/venv/bin/python -c "import json; print(' '.join(c['property_id'] for c in json.load(open('MANIFEST.json'))['checks']))" 2>/dev/null)
for id in $ids; do
  start=$(date +%s)
  out=$(./check $id --tier thorough --wall $wall 2>&1); rc=$?
  end=$(date +%s)
  echo "$id rc=$rc wall=$((end-start))s $(echo "$out" | grep -o 'runs=[0-9]*/[0-9]*' | head -1) known=$(echo "$out" | grep -c '^KNOWN-FINDING') violations=$(echo "$out" | grep -c '^VIOLATION')"
  if [ $rc -ne 0 ]; then echo "$out" | grep -v -i conda | grep "rule=\|VIOLATION\|HARNESS" | head -8 | cut -c1-400; mkdir -p /tmp/thorough-replays; cp replays/$id-* /tmp/thorough-replays/ 2>/dev/null; fi
done
