#!/bin/bash
# tools/run_all.sh [tier]  -- runs every claimed check once, prints a one-line summary per check
cd /verif
tier=${1:-quick}
for id in $(/venv/bin/python -c "import json; print(' '.join(c['property_id'] for c in json.load(open('MANIFEST.json'))['checks']))" 2>/dev/null); do
  start=$(date +%s)
  out=$(./check $id --tier $tier 2>&1); rc=$?
  end=$(date +%s)
  kf=$(echo "$out" | grep -c "^KNOWN-FINDING")
  vi=$(echo "$out" | grep -c "^VIOLATION")
  runs=$(echo "$out" | grep -o "runs=[0-9]*/[0-9]*" | head -1)
  echo "$id rc=$rc wall=$((end-start))s $runs known=$kf violations=$vi"
  if [ $rc -ne 0 ]; then echo "$out" | grep -v -i conda | tail -5; fi
done
