#!/bin/bash
# tools/seeded_batch.sh C02 C03 ...  : confirm + evaluate /tmp/seed/out-<P>/m1,m2 ; then remove the worktree
cd /verif
for p in "$@"; do
  for k in ${SEED_KS:-m1 m2}; do
    [ -f /tmp/seed/out-$p/$k/patch.diff ] || { echo "$p-$k: no patch delivered"; continue; }
    tools/seeded_confirm.sh /tmp/seed/out-$p/$k $p-$k $p 2>&1 | grep "CONFIRM" | head -2
    [ -d seeded/$p-$k ] && tools/seeded_eval.py $p-$k --jobs=14 2>&1 | grep -v -i conda | tail -1
  done
  git -C /repo worktree remove --force /tmp/seed/wt-$p 2>/dev/null
done
