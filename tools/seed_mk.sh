#!/bin/bash
# /tmp/seed/mk.sh Cxx : create worktree + prompt file for a seeding sub-agent
p=$1
wt=/tmp/seed/wt-$p; out=/tmp/seed/out-$p
[ -d $wt ] || git -C /repo worktree add -q --detach $wt HEAD
mkdir -p $out/m1 $out/m2
/venv/bin/python - "$p" > /tmp/seed/prompt-$p.txt <<'PY'
import json,sys
pid=sys.argv[1]
for l in open('/verif/properties.jsonl'):
    p=json.loads(l)
    if p['id']==pid: break
anch=p['anchors']
print(f"""You are helping to evaluate a verification effort for the open-source project greatscottgadgets/luna (an Amaranth HDL
library in Python that generates FPGA gateware for USB devices). Your job is to write two *independent, realistic,
subtle* source changes ("mutants") to the library that each BREAK the semantic property given below, while the code still
imports/elaborates and the project's existing test suite still passes.

Your private scratch git worktree of the repository is: /tmp/seed/wt-{pid}
Work ONLY inside that directory and your output directory /tmp/seed/out-{pid}. Do NOT read, list or touch /verif, /repo,
other /tmp/seed/* directories, or /root/.claude; everything you need is in your worktree. Python with all dependencies
is /venv/bin/python (run things with PYTHONPATH=/tmp/seed/wt-{pid} so that *your* copy of `luna` is imported, e.g.
`cd /tmp/seed/wt-{pid} && PYTHONPATH=/tmp/seed/wt-{pid} /venv/bin/python -B demo.py`). There is no network.

THE PROPERTY ({pid}): {p['title']}
Statement: {p['statement']}
Quantified over: {p['quantifier']['text']}
Code it is anchored in: {', '.join(anch['files'])}
Mechanisms: {'; '.join(m['name']+' ('+m['where']+')' for m in anch['mechanism'])}
Observable at: {', '.join(anch['observe_at'])}

WHAT TO PRODUCE: two different mutants, m1 and m2 (different sites or different failure mechanisms). For each mutant k in (m1, m2)
write into /tmp/seed/out-{pid}/<k>/ :
  patch.diff  - `git diff` of your change against the worktree's HEAD (must apply with `git apply` from the repo root;
                only files under luna/ ; do not edit tests).
  demo.py     - a small self-contained program (Amaranth simulation of the real gateware, using `amaranth.sim.Simulator`
                or the repo's own test utilities) that exits 0 on the UNCHANGED tree and exits non-zero (assertion failure)
                with your patch applied, demonstrating that the property statement is broken. It is run from the repo root as
                `PYTHONPATH=<repo> /venv/bin/python -B _seeded_demo.py`. Keep its run time under ~60 s.
  notes.txt   - 5-12 lines: what was changed, why it breaks the property, and exactly what is needed for it to manifest.

REQUIREMENTS FOR EACH MUTANT
 * It must look like a plausible maintenance change (refactor, tidy-up, off-by-one, dropped qualifier, swapped signal,
   hoisted statement, width change, changed priority of two conditions ...), small (1-15 changed lines).
 * It must NOT be exposed by ordinary use: it needs something specific to manifest -- a particular interleaving or timing
   coincidence, a fault/back-pressure/stall at a particular point, a multi-step sequence of operations, an unusual but
   legal input, or two cooperating sites that each look fine alone. The fault-free, always-ready, single-operation path must keep working.
 * The existing suite must still pass with the mutant: `cd /tmp/seed/wt-{pid} && /venv/bin/python -m pytest -q -p no:cacheprovider --timeout=900 tests`
   must report `93 passed` (same as on the unchanged tree).
 * The demo must pass on the unchanged tree (check with `git stash` / `git checkout -- luna`) and fail with the patch.
 * It must genuinely violate the property *as stated* (not merely change timing the statement leaves open, and not only in
   situations outside the stated quantifier / environment assumptions).
 * Leave the worktree clean at the end (`git checkout -- .`, remove stray files); only the out directory holds results.

Work through: read the anchored code, understand how the property is achieved, design the two mutants, write demos,
verify all four conditions (demo ok on clean; demo fails on patched; suite 93 passed on patched; patch applies cleanly to a clean
worktree), then finish with a 10-line summary of the two mutants.""")
PY
echo /tmp/seed/prompt-$p.txt
