#!/bin/bash
# /tmp/seed/mk.sh Cxx : create worktree + prompt file for a seeding sub-agent
p=$1; round=${2:-A}
if [ "$round" = "B" ]; then k1=m3; k2=m4; elif [ "$round" = "C" ]; then k1=m5; k2=m6; else k1=m1; k2=m2; fi
export SEED_K1=$k1 SEED_K2=$k2 SEED_ROUND=$round
mkdir -p /tmp/seed
wt=/tmp/seed/wt-$p; out=/tmp/seed/out-$p
[ -d $wt ] || git -C /repo worktree add -q --detach $wt HEAD
mkdir -p $out/$k1 $out/$k2
/venv/bin/python - "$p" > /tmp/seed/prompt-$p.txt <<'PY'
import json,sys,os
pid=sys.argv[1]
K1,K2,ROUND=os.environ["SEED_K1"],os.environ["SEED_K2"],os.environ["SEED_ROUND"]
EXTRA_C = """
SPECIAL CONSTRAINT FOR THIS ROUND: both mutants MUST be located in the ENCLOSING / GLUE module(s) among the files listed below
(the `layer.py` / `device.py` style file that instantiates the leaf block and wires it to its neighbours), NOT in the leaf block
that implements the mechanism. Typical sites: how a sub-block's ports are connected, qualified (&, |, ~), registered or muxed; which
signal of several similar ones is wired where; enable/hold/reset wiring; arbitration order; constants passed to a constructor.
The demo must therefore simulate the enclosing module (or enough of it) -- a demo on the leaf block alone cannot fail.
"""
EXTRA = EXTRA_C if ROUND == "C" else "" if ROUND != "B" else """
SPECIAL EMPHASIS FOR THIS ROUND: earlier mutants for this property already attacked the most obvious line of its main mechanism.
Aim elsewhere this time -- second-order sites such as: glue/wiring of the anchored block inside its enclosing module (e.g. how a
sub-block's ports are connected, qualified or registered), reset/initial values and what is (not) cleared on a restart/abort/reset path,
parameter-dependent widths/ranges and rarely used constructor options or configurations, priority between two simultaneously
true conditions, off-by-one in a limit that only matters at a boundary size, state carried over from a PREVIOUS operation into the next
one, or an interaction between two of the listed files. The two mutants must differ from each other in mechanism.
"""
for l in open('/verif/properties.jsonl'):
    p=json.loads(l)
    if p['id']==pid: break
anch=p['anchors']
print(f"""You are helping to evaluate a verification effort for the open-source project greatscottgadgets/luna (an Amaranth HDL
library in Python that generates FPGA gateware for USB devices). Your job is to write two *independent, realistic,
subtle* source changes ("mutants") to the library that each BREAK the semantic property given below, while the code still
imports/elaborates and the project's existing test suite still passes.

Your private scratch git worktree of the repository is: /tmp/seed/wt-{pid}
Work ONLY inside that directory and your output directory /tmp/seed/out-{pid}. Do NOT read, list or touch /verif, /repo,
other /tmp/seed/* directories, or /root/.claude; everything you need is in your worktree. Python with all dependencies
is /venv/bin/python (run things with PYTHONPATH=/tmp/seed/wt-{pid} so that *your* copy of `luna` is imported, e.g.
`cd /tmp/seed/wt-{pid} && PYTHONPATH=/tmp/seed/wt-{pid} /venv/bin/python -B demo.py`). There is no network.

THE PROPERTY ({pid}): {p['title']}
Statement: {p['statement']}
Quantified over: {p['quantifier']['text']}
Code it is anchored in: {', '.join(anch['files'])}
Mechanisms: {'; '.join(m['name']+' ('+m['where']+')' for m in anch['mechanism'])}
Observable at: {', '.join(anch['observe_at'])}

{EXTRA}
WHAT TO PRODUCE: two different mutants, {K1} and {K2} (different sites or different failure mechanisms). For each mutant k in ({K1}, {K2})
write into /tmp/seed/out-{pid}/<k>/ :
  patch.diff  - `git diff` of your change against the worktree's HEAD (must apply with `git apply` from the repo root;
                only files under luna/ ; do not edit tests).
  demo.py     - a small self-contained program (Amaranth simulation of the real gateware, using `amaranth.sim.Simulator`
                or the repo's own test utilities) that exits 0 on the UNCHANGED tree and exits non-zero (assertion failure)
                with your patch applied, demonstrating that the property statement is broken. It is run from the repo root as
                `PYTHONPATH=<repo> /venv/bin/python -B _seeded_demo.py`. Keep its run time under ~60 s.
  notes.txt   - 5-12 lines: what was changed, why it breaks the property, and exactly what is needed for it to manifest.

REQUIREMENTS FOR EACH MUTANT
 * It must look like a plausible maintenance change (refactor, tidy-up, off-by-one, dropped qualifier, swapped signal,
   hoisted statement, width change, changed priority of two conditions ...), small (1-15 changed lines).
 * It must NOT be exposed by ordinary use: it needs something specific to manifest -- a particular interleaving or timing
   coincidence, a fault/back-pressure/stall at a particular point, a multi-step sequence of operations, an unusual but
   legal input, or two cooperating sites that each look fine alone. The fault-free, always-ready, single-operation path must keep working.
 * The existing suite must still pass with the mutant: `cd /tmp/seed/wt-{pid} && /venv/bin/python -m pytest -q -p no:cacheprovider --timeout=900 tests`
   must report `93 passed` (same as on the unchanged tree).
 * The demo must pass on the unchanged tree (check with `git stash` / `git checkout -- luna`) and fail with the patch.
 * It must genuinely violate the property *as stated* (not merely change timing the statement leaves open, and not only in
   situations outside the stated quantifier / environment assumptions).
 * Leave the worktree clean at the end (`git checkout -- .`, remove stray files); only the out directory holds results.

Work through: read the anchored code, understand how the property is achieved, design the two mutants, write demos,
verify all four conditions (demo ok on clean; demo fails on patched; suite 93 passed on patched; patch applies cleanly to a clean
worktree), then finish with a 10-line summary of the two mutants.""")
PY
echo /tmp/seed/prompt-$p.txt
