#!/venv/bin/python
""" Regenerates /verif/MANIFEST.json from the check modules that exist (run after adding a check). """
import os, sys, json, importlib, glob
sys.dont_write_bytecode = True
ROOT = os.path.dirname(os.path.dirname(os.path.abspath(__file__)))
sys.path[:0] = [ROOT, "/repo"]

props = [json.loads(l) for l in open(os.path.join(ROOT, "properties.jsonl"))]
NA = {
    "C30": "Pure algebraic identity over (register state, input word) of combinational XOR networks: no schedule, "
           "clock, fault, peer or interleaving enters the statement, so it is not a simulation target (equivalence "
           "checking / SMT decides it; outside this technique family). Its behavioural consequences are sampled by "
           "the packet-level checks, which use independent bit-serial CRC references.",
}
READY = set(open(os.path.join(ROOT, 'tools', 'ready.txt')).read().split())
checks, na, engines = [], [], {}
for p in props:
    pid = p["id"]
    path = os.path.join(ROOT, "checks", pid.lower() + ".py")
    if pid in NA:
        na.append({"property_id": pid, "reason": NA[pid]})
        continue
    if not os.path.exists(path) or pid not in READY:
        na.append({"property_id": pid, "reason": "not claimed yet: its simulation check (DESIGN.md section 5) is not "
                   "implemented in this tree; the property itself is a simulation target"})
        continue
    mod = importlib.import_module("checks." + pid.lower())
    meta = getattr(mod, "META", {})
    engines.setdefault(mod.ENGINE, []).append(pid)
    checks.append({
        "property_id": pid,
        "quick_cmd": f"./check {pid} --tier quick",
        "thorough_cmd": f"./check {pid} --tier thorough",
        "evidence_file": f"/verif/evidence/{pid}.json",
        "replay_cmd_template": f"./check {pid} --replay {{path}}",
        "engine": mod.ENGINE,
        "technique": "deterministic simulation with fault injection: seeded search over scenarios (schedules, "
                     "histories, fault sequences) executed cycle by cycle in Amaranth pysim under one scheduler; "
                     "reference-model and invariant oracles; ddmin-minimised replay files",
        "level_claimed": {
            "category": "exploration",
            "text": getattr(mod, "LEVEL_TEXT", None) or (
                f"Seeded exploration: {mod.TIERS['quick']['runs']} (quick) / {mod.TIERS['thorough']['runs']} (thorough) "
                f"generated scenarios per run, each a full history of operations, schedules and injected faults, "
                f"executed on the real gateware and judged by independent oracles ({', '.join(sorted(mod.RULES))}). "
                f"Sampling, not proof: a clean batch is evidence that the property holds on the explored histories."),
            "design_ref": f"DESIGN.md section 5, {pid}",
        },
        "level_note": getattr(mod, "LEVEL_NOTE", None) or (
            "Trusted: Amaranth pysim semantics, the actor models in /verif/models and the reference model in the "
            "check; assumptions: " + "; ".join(meta.get("assumptions", [])) + ". Real: " +
            ", ".join(meta.get("components_real", [])) + ". Stubbed: " + ", ".join(meta.get("components_stubbed", []))),
    })

manifest = {
    "version": 1,
    "setup_cmd": "/venv/bin/python -B -c \"import amaranth, usb_protocol, luna; print('ok')\"",
    "hooks": {
        "guard": "LUNA_VERIF",
        "enable": "none needed: Amaranth's Simulator is the seam (clocks and every input pin are owned by the "
                  "scheduler); /repo contains no hook code and never reads LUNA_VERIF",
        "baseline_off_cmd": "cd /repo && /venv/bin/python -m pytest -ra -q -p no:cacheprovider --timeout=900 "
                            "--continue-on-collection-errors",
        "source_commits": [],
        "add_only": True,
    },
    "engines": [{"name": k, "path": "/verif/checks + /verif/models + /verif/dsim", "serves_properties": v,
                 "kind_free_text": "deterministic cycle-level simulation harness (real gateware in pysim, stub peers)"}
                for k, v in sorted(engines.items())],
    "checks": checks,
    "not_applicable": na,
    "notes": "Exit codes: 0 held / 1 VIOLATION (unlisted) / 2 HARNESS-ERROR. VERIF_SEED selects the base seed. "
             "known_findings.json lists recorded findings and fixed defects (fix: commits in /repo).",
}
with open(os.path.join(ROOT, "MANIFEST.json"), "w") as f:
    json.dump(manifest, f, indent=1)
print(f"claimed {len(checks)}  not_applicable {len(na)}")
