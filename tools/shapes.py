#!/venv/bin/python
""" tools/shapes.py CNN [runs] -- tabulates all (rule, shape) classes of first violations (development aid). """
import sys, json, collections, random
sys.path[:0] = ["/verif", "/repo"]
sys.dont_write_bytecode = True
from dsim import runner
prop = sys.argv[1].upper(); n = int(sys.argv[2]) if len(sys.argv) > 2 else 400
from concurrent.futures import ProcessPoolExecutor
import multiprocessing
def work(chunk):
    mod = runner.load_check(prop); out = []
    for i in chunk:
        scn = runner.regenerate(mod, prop, "quick", 0, i)
        r = runner.execute(mod, scn)
        if "error" in r: out.append(("ERROR", r["error"][-200:]))
        elif r["first"]: out.append((r["first"]["rule"], json.dumps(r["first"]["shape"], sort_keys=True)))
    return out
if __name__ == "__main__":
    chunks = [list(range(i, min(n, i + 25))) for i in range(0, n, 25)]
    c = collections.Counter()
    with ProcessPoolExecutor(12, mp_context=multiprocessing.get_context("fork")) as ex:
        for res in ex.map(work, chunks):
            c.update(res)
    for k, v in sorted(c.items(), key=lambda kv: -kv[1]):
        print(v, k[0], k[1])
