"""
models.usb3_proto -- LUNA-independent reference code for the USB3 protocol-level / link-training checks
(C41, C43, C44, C45, C46, C47, C48).

Everything here is written from the USB 3.2 specification (header packet layouts, sec. 8.3-8.5; training
ordered sets, sec. 6.4.1; setup data, sec. 9.3); nothing is imported from LUNA or usb_protocol.
"""

# --------------------------------------------------------------------------------------------------
# header packets (DW0..DW2 as 32-bit little-endian words; bit 0 = LSB of DW)
# --------------------------------------------------------------------------------------------------
HP_TYPE_LINK_MANAGEMENT = 0b00000
HP_TYPE_TRANSACTION = 0b00100
HP_TYPE_DATA = 0b01000
HP_TYPE_ITP = 0b01100

TP_ACK, TP_NRDY, TP_ERDY, TP_STATUS, TP_STALL = 1, 2, 3, 4, 5
TP_NAMES = {TP_ACK: "ACK", TP_NRDY: "NRDY", TP_ERDY: "ERDY", TP_STATUS: "STATUS", TP_STALL: "STALL"}


def bits(word, lo, width):
    return (word >> lo) & ((1 << width) - 1)


def parse_transaction_header(dw0, dw1, dw2):
    """ Fields of a transaction packet as laid out in USB 3.2 sec. 8.5 (tables 8-12 .. 8-17). """
    return {
        "type": bits(dw0, 0, 5),
        "route_string": bits(dw0, 5, 20),
        "device_address": bits(dw0, 25, 7),
        "subtype": bits(dw1, 0, 4),
        "retry": bits(dw1, 6, 1),            # ACK TP only (rty)
        "direction": bits(dw1, 7, 1),
        "endpoint_number": bits(dw1, 8, 4),
        "host_error": bits(dw1, 15, 1),      # ACK TP only
        "number_of_packets": bits(dw1, 16, 5),   # ACK / ERDY TP
        "data_sequence": bits(dw1, 21, 5),   # ACK TP only
        "packets_pending": bits(dw2, 27, 1),
    }


def itp_dw0(bus_interval_counter, delta):
    """ DW0 of an isochronous timestamp packet: type | 14-bit counter | 13-bit delta (sec. 8.7). """
    return HP_TYPE_ITP | ((bus_interval_counter & 0x3FFF) << 5) | ((delta & 0x1FFF) << 19)


# --------------------------------------------------------------------------------------------------
# training ordered sets (32-bit words, first-transmitted symbol in the least significant byte)
# --------------------------------------------------------------------------------------------------
def D(x, y):
    return (y << 5) | x


K28_5 = D(28, 5)          # COM


def _words(symbols):
    assert len(symbols) % 4 == 0
    return [symbols[i] | (symbols[i + 1] << 8) | (symbols[i + 2] << 16) | (symbols[i + 3] << 24)
            for i in range(0, len(symbols), 4)]


# TSEQ: table 6-3 of the specification
TSEQ_SYMBOLS = [K28_5, D(31, 7), D(23, 0), D(0, 6), D(20, 0), D(18, 5), D(7, 7), D(2, 0), D(2, 4), D(18, 3), D(14, 3),
                D(8, 1), D(6, 5), D(30, 5), D(13, 3), D(31, 5)] + [D(10, 2)] * 16
# TS1 / TS2: tables 6-4 / 6-5; symbol 4 reserved (D0.0), symbol 5 = link functionality
TS1_SYMBOLS = [K28_5] * 4 + [D(0, 0), 0] + [D(10, 2)] * 10
TS2_SYMBOLS = [K28_5] * 4 + [D(0, 0), 0] + [D(5, 2)] * 10
# a TS1 received over a swapped differential pair: every data symbol bit-inverted (D10.2 -> D21.5); K28.5 is
# its own complement as far as the decoder is concerned; the reserved / link-functionality symbols are zero in
# what the detector is configured with
INVERTED_TS1_SYMBOLS = [K28_5] * 4 + [D(0, 0), 0] + [D(21, 5)] * 10

TS_SETS = {
    "TSEQ": {"words": _words(TSEQ_SYMBOLS), "first_ctrl": 0b0001},
    "TS1": {"words": _words(TS1_SYMBOLS), "first_ctrl": 0b1111},
    "TS2": {"words": _words(TS2_SYMBOLS), "first_ctrl": 0b1111},
    "ITS1": {"words": _words(INVERTED_TS1_SYMBOLS), "first_ctrl": 0b1111},
}

# link functionality (symbol 5) bits
LF_HOT_RESET = 0x01
LF_LOOPBACK = 0x04
LF_NO_SCRAMBLING = 0x08


def ts_word(kind, index, link_functionality=0):
    """ (data, ctrl) of word `index` of the ordered set `kind`; symbol 5 carries the link functionality. """
    s = TS_SETS[kind]
    w = s["words"][index]
    if index == 1 and kind in ("TS1", "TS2", "ITS1"):
        w = (w & 0xFFFF00FF) | ((link_functionality & 0xFF) << 8)
    return w, (s["first_ctrl"] if index == 0 else 0)


# --------------------------------------------------------------------------------------------------
# setup data (sec. 9.3) and descriptor slicing
# --------------------------------------------------------------------------------------------------
def parse_setup(b):
    assert len(b) == 8
    return {
        "recipient": b[0] & 0x1F,
        "type": (b[0] >> 5) & 3,
        "is_in_request": b[0] >> 7,
        "request": b[1],
        "value": b[2] | (b[3] << 8),
        "index": b[4] | (b[5] << 8),
        "length": b[6] | (b[7] << 8),
    }


def words_of(data):
    """ little-endian 32-bit words of a byte string, with the byte-valid mask of each word """
    out = []
    for i in range(0, len(data), 4):
        chunk = data[i:i + 4]
        out.append((int.from_bytes(chunk, "little"), (1 << len(chunk)) - 1))
    return out


def bytes_of_word(word, valid_mask):
    """ the bytes a (word, byte-valid mask) pair carries, in transmission order; None if the mask is not a
    contiguous run starting at byte 0 """
    n = {0: 0, 0b0001: 1, 0b0011: 2, 0b0111: 3, 0b1111: 4}.get(valid_mask)
    if n is None:
        return None
    return bytes((word >> (8 * i)) & 0xFF for i in range(n))


# --------------------------------------------------------------------------------------------------
# reference detector for bursts of training ordered sets (C43)
# --------------------------------------------------------------------------------------------------
def ts_word_matches(kind, index, data, ctrl, config_free):
    """ is (data, ctrl) word `index` of an ordered set of `kind`?  With config_free the reserved symbol 4 and the
    link-functionality symbol 5 (low 16 bits of word 1) are not compared. """
    want, want_ctrl = ts_word(kind, index, 0)
    if ctrl != want_ctrl:
        return False
    if index == 1 and config_free:
        return (data & 0xFFFF0000) == (want & 0xFFFF0000)
    return data == want


def parse_ts_stream(rows, kind, config_free):
    """
    rows: per cycle (valid, data, ctrl).  Returns per-cycle events: None, ("garbage", info) for a valid word that is
    not part of a complete well-formed set, or ("set", link_functionality, first_word_cycle) in the cycle of the last
    word of a complete well-formed set.  Words without valid carry nothing and may sit anywhere (idle gaps).
    A set is recognised greedily from the left; ordered sets are self-delimiting (only word 0 starts with COM).
    """
    nwords = len(TS_SETS[kind]["words"])
    valid_words = [(t, r[1], r[2]) for t, r in enumerate(rows) if r[0]]
    events = [None] * len(rows)
    i = 0
    while i < len(valid_words):
        ok = i + nwords <= len(valid_words) and all(
            ts_word_matches(kind, k, valid_words[i + k][1], valid_words[i + k][2], config_free) for k in range(nwords))
        if ok:
            lf = (valid_words[i + 1][1] >> 8) & 0xFF
            events[valid_words[i + nwords - 1][0]] = ("set", lf, valid_words[i][0])
            i += nwords
        else:
            # how much of a set does this word continue?  (for diagnostics only)
            prefix = 0
            while (prefix < nwords and i + prefix < len(valid_words) and
                   ts_word_matches(kind, prefix, valid_words[i + prefix][1], valid_words[i + prefix][2], config_free)):
                prefix += 1
            if i + nwords > len(valid_words) and prefix == len(valid_words) - i:
                break                      # an incomplete set at the very end of the stream: nothing to say yet
            events[valid_words[i][0]] = ("garbage", prefix)
            i += 1
    return events


class TSDetectorModel:
    """
    Nondeterministic reference for "one report per n consecutive well-formed sets (idle gaps allowed), never on other
    data".  Where the statement is silent -- whether a *valid* stray word between sets (one that does not even begin a set)
    breaks "consecutive" -- both readings are kept as candidates (set of possible counts); a report is demanded only if every
    candidate demands it, and tolerated if at least one candidate allows it.  A set that is begun and not completed always
    ends the run.
    """

    def __init__(self, n):
        self.n = n
        self.counts = {0}
        self.sets_since_report = 0
        self.last_lfs = []

    def step(self, event, reported):
        """ event: the parse event of one cycle; reported: did the DUT report for this cycle?
        returns None or (rule_suffix, message) """
        n = self.n
        if event is None:
            if reported:
                return ("no_false", "report without a completed ordered set")
            return None
        if event[0] == "garbage":
            if event[1] >= 1:
                # this word begins an ordered set that is then not completed (truncated / corrupted set): a malformed set
                # between two sets certainly ends a run of "consecutive, well-formed" sets
                self.counts = {0}
            else:
                self.counts = self.counts | {0}
            if reported:
                return ("no_false", "report on a word that is not part of a well-formed ordered set")
            return None
        # a complete set
        self.sets_since_report += 1
        self.last_lfs.append(event[1])
        nxt = {c + 1 for c in self.counts}
        hit = {c for c in nxt if c >= n}
        if reported:
            if not hit:
                return ("no_false", f"report after only {max(nxt)} consecutive well-formed set(s) "
                                    f"({self.sets_since_report} complete set(s) since the last report); {n} required")
            self.counts = {0}
            self.sets_since_report = 0
            return None
        if hit == nxt:
            return ("detect", f"no report although {n} consecutive well-formed sets were received "
                              f"(candidates {sorted(nxt)})")
        self.counts = nxt - hit
        return None
