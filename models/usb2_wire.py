"""
models.usb2_wire -- literal per-cycle waveforms for the standalone USB2 packet-level blocks (engine "usb2_wire").

Nothing here imports LUNA.  A scenario's op list is rendered into one pin dictionary per cycle *before* the simulation
starts (a pure function of the scenario), played by `WaveActor`, and every cycle's output sample is recorded for a
history oracle.  Packet ops carry all their timing literally:

    {"op": "pkt", "bytes": hex, "pre": >=1, "post": >=0, "period": >=1, "gaps": [extra idle cycles after byte i, cyclic]|None,
     "abort_at": k|None (rx_active drops after k bytes), "idle": >=1 (cycles of rx_active low after the packet), ...free keys}
    {"op": "idle", "n": cycles}
    {"op": "set", "pins": {name: value}}        side pins (e.g. the device address); takes no time, effective from the next cycle

UTMI legality is kept by construction: rx_valid only while rx_active, rx_active rises `pre` >= 1 cycles before the first
byte and is low for `idle` >= 1 cycles between packets.
"""


def gen_idle_data(rng):
    """ literal description of what rx_data shows while rx_valid is low (UTMI leaves it undefined there; a ULPI PHY shows
        RxCmd bytes on the same lines): None = the last byte is held (the kindest PHY) """
    k = rng.random()
    if k < 0.35:
        return None
    if k < 0.5:
        return ["const", rng.choice([0x00, 0xFF, rng.getrandbits(8)])]
    if k < 0.7:
        return ["xor", rng.choice([0xFF, 0x0F, 0xF0, 0x07, 1 << rng.randrange(8), rng.getrandbits(8) | 1])]
    return ["list", [rng.getrandbits(8) for _ in range(rng.choice([3, 5, 7, 11]))]]


def render_rx(ops, side=None, lead=2, tail=12, names=("rx_active", "rx_valid", "rx_data"), idle_data=None):
    """ -> (wave, packets).  wave[t] = pin dict of cycle t.  packets[i] = dict(op=index into ops, t_start=first cycle with
        rx_active, t_end=first cycle with rx_active low again, sent=bytes really presented, byte_cycles=[cycle of each byte],
        side=side pins in effect in cycle t_end).
        idle_data: None | ["const", v] | ["xor", m] | ["list", [b, ...]] -- value of rx_data in every cycle with rx_valid low
        (None: the last byte is held). """
    n_act, n_val, n_dat = names
    side = dict(side or {})
    wave = []
    packets = []

    def emit(active, valid, data):
        d = dict(side)
        d[n_act] = active
        d[n_val] = valid
        if not valid and idle_data is not None:
            kind, arg = idle_data
            if kind == "const":
                data = arg & 0xFF
            elif kind == "xor":
                data = (data ^ arg) & 0xFF
            elif kind == "list":
                data = arg[len(wave) % len(arg)] & 0xFF
            else:
                raise ValueError(idle_data)
        d[n_dat] = data
        wave.append(d)

    for _ in range(lead):
        emit(0, 0, 0)
    for k, op in enumerate(ops):
        kind = op["op"]
        if kind == "idle":
            for _ in range(op["n"]):
                emit(0, 0, 0)
        elif kind == "set":
            side.update(op["pins"])
        elif kind == "pkt":
            data = bytes.fromhex(op["bytes"])
            abort_at = op.get("abort_at")
            n = len(data) if abort_at is None else min(abort_at, len(data))
            period = max(1, op.get("period", 1))
            gaps = op.get("gaps") or None
            t_start = len(wave)
            last = 0
            for _ in range(max(1, op.get("pre", 1))):
                emit(1, 0, last)
            cycles = []
            for i in range(n):
                cycles.append(len(wave))
                emit(1, 1, data[i])
                last = data[i]
                extra = (period - 1) + (gaps[i % len(gaps)] if gaps else 0)
                if i != n - 1:
                    for _ in range(extra):
                        emit(1, 0, last)
            for _ in range(op.get("post", 0)):
                emit(1, 0, last)
            t_end = len(wave)
            for _ in range(max(1, op.get("idle", 1))):
                emit(0, 0, last)
            packets.append({"op": k, "t_start": t_start, "t_end": t_end, "sent": bytes(data[:n]), "byte_cycles": cycles,
                            "side": dict(wave[t_end])})
        else:
            raise ValueError(kind)
    for _ in range(tail):
        emit(0, 0, 0)
    return wave, packets


class WaveActor:
    """ Plays a pre-rendered list of pin dictionaries and records every cycle's sample. """

    def __init__(self, wave, extra_cycles=0):
        self.wave = wave
        self.samples = []
        self.end = len(wave) + extra_cycles - 1
        self.hold = dict(wave[-1]) if wave else {}

    def drive(self, t):
        return self.wave[t] if t < len(self.wave) else self.hold

    def observe(self, t, o):
        self.samples.append(o)
        return t >= self.end


def rand_timing(rng, slow=False):
    """ literal timing fields of one packet op (drawn in gen(), never in run()) """
    t = {"pre": rng.choice([1, 1, 1, 2, 3, 5]), "post": rng.choice([0, 0, 0, 1, 2, 4]),
         "period": rng.choice([1, 1, 1, 2, 3, 5, 6] if not slow else [1, 2, 5, 8, 40])}
    if rng.random() < 0.35:
        t["gaps"] = [rng.choice([0, 0, 0, 1, 2, 5]) for _ in range(rng.randint(1, 5))]
    return t
