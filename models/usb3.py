"""
models.usb3 -- USB 3 physical-layer reference code shared by the usb3_phys checks (C31..C34, C42).

Independent of LUNA: symbol values are taken from the USB 3.2 specification (table 6-1 / 8b10b K-codes),
the scrambler is a bit-serial Galois LFSR for x^16 + x^5 + x^4 + x^3 + 1 (spec. appendix B), seed 0xFFFF.
Nothing here imports luna.

Conventions
-----------
A *symbol* is a pair (byte, k) with k = 1 for control (K) symbols.  A 32-bit *word* carries four symbols,
symbol 0 in bits 7:0 (little endian, symbol 0 is the first on the wire), with a 4-bit ctrl mask (bit i for
symbol i).  Words are represented as (data, ctrl) integer pairs.
"""


def K(x, y):
    return (y << 5) | x


# K-symbols (USB 3.2 table 6-1)
SKP = K(28, 1)   # 0x3C
SDP = K(28, 2)   # 0x5C
EDB = K(28, 3)   # 0x7C
SUB = K(28, 4)   # 0x9C
COM = K(28, 5)   # 0xBC
RSD = K(28, 6)   # 0xDC
SHP = K(27, 7)   # 0xFB
END = K(29, 7)   # 0xFD
SLC = K(30, 7)   # 0xFE
EPF = K(23, 7)   # 0xF7
K_SYMBOLS = [SKP, SDP, EDB, SUB, COM, RSD, SHP, END, SLC, EPF]
K_SYMBOLS_NO_SKP_COM = [SDP, EDB, SUB, RSD, SHP, END, SLC, EPF]

SKP_SYM = (SKP, 1)
COM_SYM = (COM, 1)
SKP_WORD = (SKP * 0x01010101, 0xF)
COM_WORD = (COM * 0x01010101, 0xF)

SKP_SYMBOL_INTERVAL = 354        # one SKP ordered set (2 symbols) per 354 symbols [USB 3.2: 6.4.3]


# ------------------------------------------------------------------------------------------------
# word packing
# ------------------------------------------------------------------------------------------------
def pack_word(symbols):
    """ [(byte, k)] * 4  ->  (data, ctrl) """
    data = ctrl = 0
    for i, (b, k) in enumerate(symbols):
        data |= (b & 0xFF) << (8 * i)
        ctrl |= (k & 1) << i
    return data, ctrl


def unpack_word(data, ctrl, n=4):
    """ (data, ctrl) -> [(byte, k)] * n, symbol 0 first """
    return [((data >> (8 * i)) & 0xFF, (ctrl >> i) & 1) for i in range(n)]


def pack_stream(symbols, pad=(0, 0)):
    """ flat symbol list -> list of words (the tail is padded with `pad`) """
    syms = list(symbols)
    while len(syms) % 4:
        syms.append(pad)
    return [pack_word(syms[i:i + 4]) for i in range(0, len(syms), 4)]


def unpack_stream(words):
    out = []
    for d, c in words:
        out.extend(unpack_word(d, c))
    return out


# ------------------------------------------------------------------------------------------------
# scrambler reference: bit-serial Galois LFSR, x^16 + x^5 + x^4 + x^3 + 1
# ------------------------------------------------------------------------------------------------
LFSR_SEED = 0xFFFF
LFSR_TAPS = 0x0039           # x^5 + x^4 + x^3 + 1


def lfsr_step_byte(state):
    """ advances the LFSR by 8 serial clocks; returns (new_state, keystream_byte) -- LSB is produced first """
    key = 0
    for i in range(8):
        out = (state >> 15) & 1
        key |= out << i
        state = (state << 1) & 0xFFFF
        if out:
            state ^= LFSR_TAPS
    return state, key


class ScramblerRef:
    """ keystream generator: one byte per symbol """

    def __init__(self, state=LFSR_SEED):
        self.state = state

    def reset(self):
        self.state = LFSR_SEED

    def next_byte(self):
        self.state, k = lfsr_step_byte(self.state)
        return k

    def next_word_key(self):
        """ keystream for the four symbols of one word, symbol 0 first, as a 32-bit little-endian integer """
        v = 0
        for i in range(4):
            v |= self.next_byte() << (8 * i)
        return v

    def copy(self):
        return ScramblerRef(self.state)


def scramble_word(ref, data, ctrl):
    """ scrambles/descrambles one word with the next four keystream bytes: data symbols XOR key, K symbols unchanged.
        (the LFSR advances over every symbol position of a transferred word, K symbols included) """
    key = ref.next_word_key()
    mask = 0
    for i in range(4):
        if not (ctrl >> i) & 1:
            mask |= 0xFF << (8 * i)
    return data ^ (key & mask)


# first 16 keystream bytes from the seed, USB 3.2 appendix B.1 -- self-check at import time
_ref = ScramblerRef()
assert [_ref.next_byte() for _ in range(16)] == [0xFF, 0x17, 0xC0, 0x14, 0xB2, 0xE7, 0x02, 0x82, 0x72, 0x6E, 0x28, 0xA6,
                                                  0xBE, 0x6D, 0xBF, 0x8D]
del _ref
