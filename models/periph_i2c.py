"""
models.periph_i2c -- open-drain I2C bus, scripted I2C target and operation driver for C52.  Independent of LUNA.

One actor (`I2CEnv`) contains the three external parties of an I2CInitiator, stepped in a fixed order every cycle:

* the *bus*: wired-AND of the initiator's and the target's pull-downs.  The wire has one cycle of propagation delay
  for the initiator's drivers (bus[t] is resolved from the initiator's output enables of cycle t-1 and the target's
  pulls decided for cycle t);
* the *target*: reacts to SCL falling edges of the operation in progress.  For a write operation it releases SDA for
  eight bits and drives the literal ACK/NAK in the ninth; for a read operation it presents the literal data byte MSB
  first and releases SDA in the ninth clock.  After any SCL falling edge it may hold SCL low for a literal number of
  cycles (clock stretching).  It changes SDA only while SCL is low.
* the *driver*: issues the operations of the scenario (start / stop / write / read strobes with data_i / ack_i), each
  a literal number of cycles after it has seen `busy` low; optionally extra strobes at literal offsets while busy.

Everything is recorded per cycle for the oracle.
"""


class I2CEnv:
    def __init__(self, ops, *, scl_open_drain=True, limit_fn=None):
        """
        ops: list of dicts
          {"op": "start"|"stop"|"write"|"read", "delay": n, "data": byte (write: data_i, read: byte the target returns),
           "ack": 0/1 (write: target acks; read: ack_i), "stretch": {falling_edge_number(1-based): cycles},
           "sda_delay": 0/1, "spurious": [[offset, kind], ...]}
        limit_fn(op) -> max cycles the operation may take (liveness bound)
        """
        self.ops = ops
        self.scl_od = scl_open_drain
        self.limit_fn = limit_fn or (lambda op: 100000)
        # per-cycle records
        self.scl_oe, self.sda_oe, self.busy = [], [], []
        self.bus_scl, self.bus_sda, self.tgt_scl, self.tgt_sda = [], [], [], []
        self.ack_o, self.data_o = [], []
        # state
        self.k = -1                  # index of the operation in progress / last issued
        self.issue_at = None         # cycle at which the next op will be strobed
        self.windows = []            # per issued op: [strobe cycle, done cycle or None]
        self.t_scl_pull = 0          # target pulls for the coming cycle
        self.t_sda_pull = 0
        self.stretch_left = 0
        self.pending_sda = None      # (cycle, pull) scheduled SDA change of the target
        self.n_fall = 0              # SCL falling edges seen in the current op
        self.prev_bus_scl = 1
        self.last_scl_oe = 0
        self.last_sda_oe = 0
        self.cur_bus = (1, 1)
        self.stuck = None
        self.finished_at = None
        self.spurious_fired = 0
        self.params_changed = 0
        self.late_data_used = 0
        self.seen_busy_low = False
        self.wait = ops[0].get("delay", 0) if ops else 0

    # ------------------------------------------------------------------------------------------
    def drive(self, t):
        # target's scheduled SDA change
        if self.pending_sda is not None and self.pending_sda[0] <= t:
            self.t_sda_pull = self.pending_sda[1]
            self.pending_sda = None
        if self.stretch_left > 0:
            self.t_scl_pull = 1
            self.stretch_left -= 1
        else:
            self.t_scl_pull = 0
        scl = 0 if (self.last_scl_oe or self.t_scl_pull) else 1
        # ---- target: react to SCL falling edges (sda_delay 0: in the same cycle as the edge on the bus)
        if self.prev_bus_scl == 1 and scl == 0:
            op = self.ops[self.k] if 0 <= self.k < len(self.ops) and self.windows[self.k][1] is None else None
            self.n_fall += 1
            n = self.n_fall
            pull = 0
            delay = 0
            if op is not None:
                if op["op"] == "write":
                    pull = 1 if (n == 9 and op["ack"]) else 0
                elif op["op"] == "read":
                    pull = 1 if (n <= 8 and not (op["data"] >> (8 - n)) & 1) else 0
                st = (op.get("stretch") or {}).get(str(n), 0)
                if st and self.scl_od:
                    self.stretch_left = st
                delay = op.get("sda_delay", 0)
                if st and self.scl_od and st >= 2 and op.get("late_data") and op["op"] in ("write", "read"):
                    # a target that stretches because it is not ready: wrong level first, the real bit one cycle before
                    # it lets go of SCL (SDA may change freely while SCL is low)
                    self.t_sda_pull = 1 - pull
                    self.pending_sda = (t + st - 1, pull)
                    self.late_data_used += 1
                    delay = -1
            if delay < 0:
                pass
            elif delay:
                self.pending_sda = (t + delay, pull)
            else:
                self.t_sda_pull = pull
                self.pending_sda = None
        self.prev_bus_scl = scl
        sda = 0 if (self.last_sda_oe or self.t_sda_pull) else 1
        self.cur_bus = (scl, sda)
        pins = {"sda_i": sda, "start": 0, "stop": 0, "write": 0, "read": 0}
        if self.scl_od:
            pins["scl_i"] = scl
        if self.issue_at is not None and t == self.issue_at:
            self.k += 1
            op = self.ops[self.k]
            pins[op["op"]] = 1
            if op["op"] == "write":
                pins["data_i"] = op["data"]
            elif op["op"] == "read":
                pins["ack_i"] = op["ack"]
            self.windows.append([t, None])
            self.issue_at = None
            self.n_fall = 0
        elif self.k >= 0 and self.windows[self.k][1] is None:
            # extra strobes while the operation is in progress
            op = self.ops[self.k]
            if op.get("params_after") == "invert" and t == self.windows[self.k][0] + 1:
                # data_i / ack_i are only valid in the strobe cycle: the requester moves on to other values right after it
                if op["op"] == "write":
                    pins["data_i"] = op["data"] ^ 0xFF
                    self.params_changed += 1
                elif op["op"] == "read":
                    pins["ack_i"] = 1 - op["ack"]
                    self.params_changed += 1
            for off, kind in op.get("spurious", ()):
                if t == self.windows[self.k][0] + off:
                    pins[kind] = 1
                    if kind == "write":
                        pins["data_i"] = 0xA5
                    self.spurious_fired += 1
        return pins

    def observe(self, t, s):
        scl, sda = self.cur_bus
        scl_oe = s["scl_oe"] if self.scl_od else (0 if s["scl_o"] else 1)
        self.scl_oe.append(scl_oe)
        self.sda_oe.append(s["sda_oe"])
        self.busy.append(s["busy"])
        self.ack_o.append(s["ack_o"])
        self.data_o.append(s["data_o"])
        self.bus_scl.append(scl)
        self.bus_sda.append(sda)
        self.tgt_scl.append(self.t_scl_pull)
        self.tgt_sda.append(self.t_sda_pull)
        self.last_scl_oe, self.last_sda_oe = scl_oe, s["sda_oe"]

        # ---- driver
        busy = s["busy"]
        if self.k >= 0 and self.windows[self.k][1] is None:
            w = self.windows[self.k]
            if not busy and t > w[0]:
                # busy low again: either the op is over, or it was never started (busy never rose)
                w[1] = t
            elif t - w[0] > self.limit_fn(self.ops[self.k]):
                self.stuck = t
                return True
        if self.issue_at is None and (self.k < 0 or self.windows[self.k][1] is not None):
            if self.k + 1 < len(self.ops):
                if not busy:
                    if self.wait <= 0:
                        self.issue_at = t + 1
                        nxt = self.k + 2
                        self.wait = self.ops[nxt].get("delay", 0) if nxt < len(self.ops) else 0
                    else:
                        self.wait -= 1
                elif self.k < 0 and t > 50:
                    self.stuck = t
                    return True
            else:
                if self.finished_at is None:
                    self.finished_at = t
                return t >= self.finished_at + 12
        return False
