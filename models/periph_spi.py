"""
models.periph_spi -- SPI controller actor for C50/C51.  Independent of LUNA.

An SPI controller is open loop (it never waits for the device), so the complete pin waveform of a scenario is
computed up front from the literal numbers in the scenario (half-periods in system cycles, CS setup/hold/gap
cycles, bit values), together with an annotation of what happened when (sample edges, word boundaries, CS edges).
`SPIController` then plays the waveform and records the device's outputs every cycle.

Conventions: a pin change written for cycle t is visible to the device in cycle t (and sampled by the clock edge that
ends cycle t).  "edge cycle" = the first cycle in which SCK shows its new level.
"""


class SPIWaveform:
    def __init__(self, *, cpol=0, cpha=0, cs_active=1, extra_init=None):
        self.cpol, self.cpha, self.cs_active = cpol, cpha, cs_active
        self.state = {"sck": cpol, "cs": 1 - cs_active, "sdi": 0}
        if extra_init:
            self.state.update(extra_init)
        self.pins = []              # one dict per cycle (full pin state)
        self.sample_edges = []      # (cycle, txn, bit_index, sdi_bit)
        self.output_edges = []      # (cycle, txn, bit_index)
        self.txns = []              # per transaction: dict(start=cs assert cycle, end=cs deassert cycle, samples=[cycles], bits=[...])
        self.scheduled = []         # (cycle, {pin: value}) extra pin changes (word_out, SFR inputs, ...)

    # -- primitives ---------------------------------------------------------------------------
    @property
    def now(self):
        return len(self.pins)

    def emit(self, n=1):
        for _ in range(n):
            c = len(self.pins)
            while self.scheduled and self.scheduled[0][0] <= c:
                self.state.update(self.scheduled.pop(0)[1])
            self.pins.append(dict(self.state))

    def set(self, **kw):
        self.state.update(kw)

    def at(self, cycle, **kw):
        """ schedule extra pin changes for an absolute cycle >= now """
        self.scheduled.append((max(cycle, self.now), kw))
        self.scheduled.sort(key=lambda x: x[0])

    # -- transactions --------------------------------------------------------------------------
    def begin(self, gap, setup, first_bit=0):
        """ CS inactive for `gap` cycles (SCK returns to idle after the first of them if it was left active), then CS active. """
        self.set(cs=1 - self.cs_active)
        if self.state["sck"] != self.cpol:
            self.emit(1)
            gap -= 1
            self.set(sck=self.cpol)
        self.emit(max(1, gap))
        txn = {"index": len(self.txns), "start": self.now, "end": None, "samples": [], "bits": [], "outputs": []}
        self.txns.append(txn)
        self.set(cs=self.cs_active)
        if self.cpha == 0:
            self.set(sdi=first_bit)
        self.emit(max(1, setup))
        return txn

    def bit(self, bit, h1, h2, next_bit=0):
        """ one full SCK period: leading edge, h1 cycles, trailing edge, h2 cycles """
        txn = self.txns[-1]
        i = len(txn["samples"])
        active = 1 - self.cpol
        if self.cpha == 1:
            self.set(sck=active, sdi=bit)
            txn["outputs"].append(self.now)
            self.emit(h1)
            self.set(sck=self.cpol)
            txn["samples"].append(self.now)
            txn["bits"].append(bit)
            self.emit(h2)
        else:
            self.set(sck=active)
            txn["samples"].append(self.now)
            txn["bits"].append(bit)
            self.emit(h1)
            self.set(sck=self.cpol, sdi=next_bit)
            txn["outputs"].append(self.now)
            self.emit(h2)
        return i

    def half_bit(self, bit, h1):
        """ leading edge only (used for an abort in the middle of a clock period); SCK is left active """
        txn = self.txns[-1]
        active = 1 - self.cpol
        if self.cpha == 1:
            self.set(sck=active, sdi=bit)
            txn["outputs"].append(self.now)
        else:
            self.set(sck=active)
            txn["samples"].append(self.now)
            txn["bits"].append(bit)
        self.emit(h1)

    def end(self, hold):
        if hold > 0:
            self.emit(hold)
        self.set(cs=1 - self.cs_active)
        self.txns[-1]["end"] = self.now

    def finish(self, tail):
        self.set(cs=1 - self.cs_active)
        if self.state["sck"] != self.cpol:
            self.emit(1)
            self.set(sck=self.cpol)
        self.emit(tail)


class SPIController:
    """ plays an SPIWaveform; records every output of every cycle """

    def __init__(self, wave, pin_map=None):
        self.wave = wave
        self.map = pin_map          # waveform pin name -> bench pin name (None: identical)
        self.rec = []

    def drive(self, t):
        pins = self.wave.pins
        p = pins[t] if t < len(pins) else pins[-1]
        if self.map:
            return {self.map.get(k, k): v for k, v in p.items()}
        return p

    def observe(self, t, s):
        self.rec.append(s)
        return t >= len(self.wave.pins) - 1


def word_from_bits(bits, msb_first=True):
    v = 0
    if msb_first:
        for b in bits:
            v = (v << 1) | b
    else:
        for i, b in enumerate(bits):
            v |= b << i
    return v


def bits_from_word(value, n, msb_first=True):
    out = [(value >> i) & 1 for i in range(n)]
    return out[::-1] if msb_first else out
