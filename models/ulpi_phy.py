"""
models.ulpi_phy -- a ULPI 1.1 PHY as seen from the link's pins (DIR, NXT, DATA in; DATA out, OE, STP).

Independent of LUNA: written from the ULPI 1.1 specification (sections 3.8.1 RxCmd encoding, 3.8.2 transmit /
receive, 3.8.3 register access).  The model contains no randomness: every delay, throttle bit and bus byte
is a literal of the scenario.

Cycle semantics (one call of drive/observe per 60 MHz cycle t, as in dsim.kernel):
  * the PHY's outputs for cycle t (DIR, NXT, DATA) were decided from what it saw in cycles < t (a synchronous
    PHY has registered outputs);
  * a byte on the bus is *accepted* by the PHY in a cycle where DIR is low and NXT is high;
  * a byte on the bus is *presented* as USB receive data in a cycle where DIR is high (not the turnaround
    cycle) and NXT is high; with DIR high and NXT low the bus carries an RxCmd (or register read data).

Link -> PHY:
  idle bus (00h) | TXCMD 01xxxxxx (transmit; low nibble = PID, 0 = NOPID) | 10aaaaaa RegWrite | 11aaaaaa RegRead.
  The command is accepted with NXT after a scenario-given delay; transmit data bytes are accepted following a
  literal NXT throttle pattern; STP ends a transmission / commits a register write.
PHY -> link (PHY-initiated operations, queued by the scenario director and optionally *triggered* by the
  phase of a link command so that DIR take-overs land inside register writes / before a TXCMD is accepted):
  "rx" operations: DIR up (with NXT = receive start, or without), turnaround, RxCmds (none at all is allowed after a
  DIR+NXT start: data may follow the turnaround cycle directly), data bytes throttled by
  RxCmds, end by RxCmd(RxActive=0) and/or DIR down; `keep_dir` chains the next operation without DIR falling.
"""

from collections import deque

FUNC_CTRL = 0x04
OTG_CTRL = 0x0A

DEFAULT_REGS = {0x00: 0x24, 0x01: 0x04, 0x02: 0x07, 0x03: 0x00, 0x04: 0x41, 0x07: 0x00, 0x0A: 0x06,
                0x0D: 0x1F, 0x10: 0x1F, 0x16: 0x00}


def rxcmd(line_state=0, vbus=0, event=0, id_digital=0, alt_int=0):
    """ ULPI 1.1 table 7: [1:0] LineState, [3:2] VBUS state, [5:4] RxEvent, [6] ID, [7] alt_int. """
    return (line_state & 3) | ((vbus & 3) << 2) | ((event & 3) << 4) | ((id_digital & 1) << 6) | ((alt_int & 1) << 7)


def decode_rxcmd(b):
    ev = (b >> 4) & 3
    vb = (b >> 2) & 3
    return {
        "line_state": b & 3,
        "vbus_valid": int(vb == 3),
        "session_end": int(vb == 0),
        "rx_active": int(ev in (1, 3)),
        "rx_error": int(ev == 3),
        "host_disconnect": int(ev == 2),
        "id_digital": (b >> 6) & 1,
    }


def func_ctrl_value(c):
    """ Function Control (04h): [1:0] XcvrSelect, [2] TermSelect, [4:3] OpMode, [5] Reset, [6] SuspendM. """
    return ((c["xcvr_select"] & 3) | ((c["term_select"] & 1) << 2) | ((c["op_mode"] & 3) << 3)
            | ((0 if c["suspend"] else 1) << 6))


def otg_ctrl_value(c):
    """ OTG Control (0Ah): [0] IdPullup, [1] DpPulldown, [2] DmPulldown, [3] DischrgVbus, [4] ChrgVbus,
        [5] DrvVbus, [6] DrvVbusExternal, [7] UseExternalVbusIndicator. """
    return ((c["id_pullup"] & 1) | ((c["dp_pulldown"] & 1) << 1) | ((c["dm_pulldown"] & 1) << 2)
            | ((c["dischrg_vbus"] & 1) << 3) | ((c["chrg_vbus"] & 1) << 4)
            | ((c["use_external_vbus_indicator"] & 1) << 7))


def compile_rx(op, cont=False):
    """ rx operation -> list of frames (dir, nxt, data, tag).  tags: ta, rxcmd, data, ta_out.
        op: {"start": "nxt"|"rxcmd"|"none", "ta": byte, "status": byte (RxEvent bits ignored), "pre": [bytes],
             "start_cmds": n>=1 (n>=0 for a DIR+NXT start: 0 = the first data byte follows the turnaround cycle
                           directly, ULPI 1.1 3.8.2.4 -- DIR rising with NXT already tells the link a receive started),
             "data": hex, "gaps": [n per byte], "mid": [bytes], "error_at": i|None,
             "end": "dir"|"rxcmd", "post": [bytes], "keep_dir": bool} """
    frames = []
    start = op.get("start", "none")
    if cont and start == "nxt":
        start = "rxcmd"
    status = op.get("status", 0) & 0xCF
    active = status | 0x10
    if not cont:
        frames.append((1, 1 if start == "nxt" else 0, op.get("ta", 0) & 0xFF, "ta"))
    pre = [b & 0xCF | (b & 0x20) for b in op.get("pre", [])]          # RxActive clear; HostDisconnect (10) allowed
    if start == "nxt":
        for _ in range(max(0, op.get("start_cmds", 1))):
            frames.append((1, 0, active, "rxcmd"))
    elif start == "rxcmd":
        for b in pre:
            frames.append((1, 0, b, "rxcmd"))
        for _ in range(max(1, op.get("start_cmds", 1))):
            frames.append((1, 0, active, "rxcmd"))
    else:
        if not pre:
            pre = [status]
        for b in pre:
            frames.append((1, 0, b, "rxcmd"))
    if start != "none":
        data = bytes.fromhex(op.get("data", ""))
        gaps = op.get("gaps") or [0]
        mid = op.get("mid") or [status]
        err = op.get("error_at")
        k = 0
        for i, byte in enumerate(data):
            for _ in range(gaps[i % len(gaps)]):
                m = (mid[k % len(mid)] & 0xCF) | 0x10
                k += 1
                frames.append((1, 0, m, "rxcmd"))
            if err is not None and i == err:
                frames.append((1, 0, active | 0x20, "rxcmd"))      # RxError (RxEvent = 11)
            frames.append((1, 1, byte, "data"))
        if op.get("end", "dir") == "rxcmd":
            post = [b & 0xCF for b in (op.get("post") or [status])]
            for b in post:
                frames.append((1, 0, b, "rxcmd"))
    if not op.get("keep_dir"):
        frames.append((0, 0, 0, "ta_out"))
    return frames


class ULPIPhy:
    """
    cfg: {"nxt_delays": [ints >= 0] (cyclic; delay before a command / register data byte is accepted),
          "tx_throttle": [bits] (cyclic NXT pattern while accepting transmit data; must contain a 1),
          "nxt_in_stp": 0|1 (NXT level in the cycle after register-write data was accepted),
          "stp_dir_commits": bool (a register write whose STP cycle coincides with DIR rising is performed or not;
                                   ULPI leaves the link to retry, both behaviours are legal),
          "patience": cycles after which a triggered operation fires anyway}
    Pins: drives dir, nxt, data_i; observes data_o, data_oe, stp.
    """

    INTERRUPTIBLE = ("IDLE", "CMD_WAIT", "REGW_DATA", "REGW_STP")

    def __init__(self, cfg):
        self.cfg = cfg
        self.regs = dict(DEFAULT_REGS)
        self.nxt_delays = list(cfg.get("nxt_delays") or [0])
        self.tx_throttle = list(cfg.get("tx_throttle") or [1])
        if not any(self.tx_throttle):
            self.tx_throttle = [1]
        self.nxt_in_stp = int(cfg.get("nxt_in_stp", 0))
        self.stp_dir_commits = bool(cfg.get("stp_dir_commits", False))
        self.patience = int(cfg.get("patience", 120))
        self._di = 0
        self._ti = 0
        self.queue = deque()                 # [op, t_issued]
        self.state = "IDLE"
        self.plan = (0, 0, 0, "idle")
        self.cur = (0, 0, 0, "idle")
        self.phase = ("idle", 0)
        self.count = 0
        self.frames = None
        self.fi = 0
        self.hold_cmd = 0
        self.hold_left = 0
        self.tx = None
        self.rw = None
        self._stp_commit = None
        self.cmd_first = 0
        # logs (all black-box facts about the bus)
        self.frames_log = []        # (t, dir, nxt, data, tag) for every cycle the PHY owned or turned the bus
        self.tx_packets = []        # dicts: cmd, t_first, t_acc, bytes [(t, b)], t_stp, stp_data
        self.reg_writes = []        # dicts: addr, data, t_first, t_cmd, t_data, t_stp
        self.accepts = []           # (t, kind, byte)  kind: txcmd | txdata | regcmd | regdata | readcmd | other
        self.anomalies = []         # (t, what, byte)
        self.aborts = []            # (t, state) link command aborted by DIR
        self.ops_started = []       # (t_dir_rise, op)
        self.fired = {}             # fault kind -> count

    # ---------------------------------------------------------------------------------------------
    def idle(self):
        return self.state == "IDLE" and not self.queue

    def push(self, op, t):
        self.queue.append([op, t])

    def _fire(self, kind):
        self.fired[kind] = self.fired.get(kind, 0) + 1

    def _next_delay(self):
        d = self.nxt_delays[self._di % len(self.nxt_delays)]
        self._di += 1
        return d

    def _next_throttle(self):
        b = self.tx_throttle[self._ti % len(self.tx_throttle)]
        self._ti += 1
        return b

    def _due(self, t):
        if not self.queue:
            return False
        op, t0 = self.queue[0]
        trig = op.get("trigger")
        if not trig:
            return True
        if t - t0 > self.patience:
            return self.state == "IDLE"
        return self.phase[0] == trig[0] and t >= self.phase[1] + trig[1]

    def drive(self, t):
        self.cur = self.plan
        d, n, x, _ = self.cur
        return {"dir": d, "nxt": n, "data_i": x}

    # ---------------------------------------------------------------------------------------------
    def observe(self, t, s):
        d, nxt, dat, tag = self.cur
        bus = s["data_o"] if s["data_oe"] else None
        stp = s["stp"]
        st = self.state
        plan = (0, 0, 0, "idle")

        if self._stp_commit is not None:
            # DIR rose in the STP cycle of a register write; the configured (legal) PHY variant performs it
            rw, self._stp_commit = self._stp_commit, None
            if stp:
                self._commit(rw, t, with_dir=True)

        if st == "PLAY":
            self.frames_log.append((t, d, nxt, dat, tag))
            if tag == "rxcmd":
                self.hold_cmd = dat
            self.fi += 1
            if self.fi < len(self.frames):
                plan = self.frames[self.fi]
            elif tag in ("ta_out",):
                self.state = "IDLE"
                self.phase = ("idle", t)
            else:
                self.state = "HOLD"
                self.hold_left = 40
                plan = (1, 0, self.hold_cmd, "rxcmd")
            if self.state == "IDLE" and self._due(t):
                plan = self._start_op(t, cont=False)
            elif self.state == "HOLD" and self._due(t):
                plan = self._start_op(t, cont=True)
            self.plan = plan
            return False

        if st == "HOLD":
            self.frames_log.append((t, d, nxt, dat, tag))
            self.hold_left -= 1
            if self._due(t):
                plan = self._start_op(t, cont=True)
            elif self.hold_left <= 0:
                self.frames = [(0, 0, 0, "ta_out")]
                self.fi = 0
                self.state = "PLAY"
                plan = self.frames[0]
            else:
                plan = (1, 0, self.hold_cmd, "rxcmd")
            self.plan = plan
            return False

        if st == "TX":
            if stp:
                self.tx["t_stp"] = t
                self.tx["stp_data"] = bus
                self.tx["nxt_in_stp"] = nxt
                self.tx_packets.append(self.tx)
                self.tx = None
                self.state = "IDLE"
                self.phase = ("idle", t)
            else:
                if nxt:
                    self.tx["bytes"].append((t, bus))
                    self.accepts.append((t, "txdata", bus))
                    if len(self.tx["bytes"]) > 4096:
                        self.anomalies.append((t, "tx_runaway", bus))
                else:
                    self._fire("nxt_throttle")
                plan = (0, self._next_throttle(), 0, "tx")
            self.plan = plan
            return False

        # ---- interruptible states ------------------------------------------------------------------
        if st == "IDLE":
            if bus is not None and bus != 0:
                kind = bus >> 6
                self.state = "CMD_WAIT"
                self.cmd_first = t
                self.phase = ({1: "txcmd", 2: "regcmd", 3: "readcmd"}.get(kind, "othercmd"), t)
                self.count = self._next_delay()
                plan = (0, 1 if self.count == 0 else 0, 0, "cmd")
        elif st == "CMD_WAIT":
            if nxt:
                kind = (bus >> 6) if bus is not None else -1
                if kind == 1:
                    self.tx = {"cmd": bus, "t_first": self.cmd_first, "t_acc": t, "bytes": []}
                    self.accepts.append((t, "txcmd", bus))
                    self.state = "TX"
                    self.phase = ("tx", t)
                    self.plan = (0, self._next_throttle(), 0, "tx")
                    return False
                elif kind == 2:
                    self.rw = {"addr": bus & 0x3F, "t_first": self.cmd_first, "t_cmd": t}
                    self.accepts.append((t, "regcmd", bus))
                    self.state = "REGW_DATA"
                    self.phase = ("regdata", t)
                    self.count = self._next_delay()
                    plan = (0, 1 if self.count == 0 else 0, 0, "regw")
                elif kind == 3:
                    self.accepts.append((t, "readcmd", bus))
                    self.frames = [(1, 0, 0, "ta"), (1, 0, self.regs.get(bus & 0x3F, 0), "regread"), (0, 0, 0, "ta_out")]
                    self.fi = 0
                    self.state = "PLAY"
                    self.plan = self.frames[0]
                    return False
                else:
                    self.anomalies.append((t, "bad_cmd_accepted", bus))
                    self.accepts.append((t, "other", bus))
                    self.state = "IDLE"
                    self.phase = ("idle", t)
            else:
                if bus is None or bus == 0:
                    self.anomalies.append((t, "cmd_withdrawn", bus))
                    self.state = "IDLE"
                    self.phase = ("idle", t)
                else:
                    self.count -= 1
                    plan = (0, 1 if self.count <= 0 else 0, 0, "cmd")
        elif st == "REGW_DATA":
            if stp:
                self.anomalies.append((t, "stp_before_data", bus))
                self.state = "IDLE"
                self.phase = ("idle", t)
            elif nxt:
                self.rw["data"] = bus
                self.rw["t_data"] = t
                self.accepts.append((t, "regdata", bus))
                self.state = "REGW_STP"
                self.phase = ("regstp", t)
                plan = (0, self.nxt_in_stp, 0, "regw")
            else:
                self.count -= 1
                plan = (0, 1 if self.count <= 0 else 0, 0, "regw")
        elif st == "REGW_STP":
            if stp:
                self._commit(self.rw, t, with_dir=False)
            else:
                self.anomalies.append((t, "stp_missing", bus))
            self.rw = None
            self.state = "IDLE"
            self.phase = ("regdone", t)

        if self.state in self.INTERRUPTIBLE and self._due(t):
            if self.state != "IDLE":
                self.aborts.append((t + 1, self.state))
                self._fire("dir_interrupt_" + {"CMD_WAIT": "cmd", "REGW_DATA": "regdata", "REGW_STP": "regstp"}[self.state])
                if self.state == "REGW_STP" and self.stp_dir_commits:
                    self._stp_commit = self.rw
                self.rw = None
            plan = self._start_op(t, cont=False)
        self.plan = plan
        return False

    # ---------------------------------------------------------------------------------------------
    def _commit(self, rw, t, with_dir):
        addr, data = rw["addr"], rw["data"] if rw["data"] is not None else 0
        rw = dict(rw)
        rw["t_stp"] = t
        rw["with_dir"] = with_dir
        self.reg_writes.append(rw)
        if addr in (0x05, 0x08, 0x0B, 0x0E, 0x11):
            self.regs[addr - 1] = self.regs.get(addr - 1, 0) | data
        elif addr in (0x06, 0x09, 0x0C, 0x0F, 0x12):
            self.regs[addr - 2] = self.regs.get(addr - 2, 0) & ~data & 0xFF
        else:
            self.regs[addr] = data

    def _start_op(self, t, cont):
        op, _ = self.queue.popleft()
        self.frames = compile_rx(op, cont=cont)
        self.fi = 0
        self.state = "PLAY"
        self.ops_started.append((t + 1, op))
        return self.frames[0]
