"""
models.usb2 -- independent USB 2.0 reference code and the UTMI-level host / PHY actors.

Nothing here imports LUNA.  CRCs are bit-serial implementations written from the USB 2.0 specification
(section 8.3.5), PIDs from table 8-1.
"""

# ------------------------------------------------------------------------------------------------
# PIDs
# ------------------------------------------------------------------------------------------------
PID = {
    "OUT": 0x1, "IN": 0x9, "SOF": 0x5, "SETUP": 0xD,
    "DATA0": 0x3, "DATA1": 0xB, "DATA2": 0x7, "MDATA": 0xF,
    "ACK": 0x2, "NAK": 0xA, "STALL": 0xE, "NYET": 0x6,
    "PRE": 0xC, "ERR": 0xC, "SPLIT": 0x8, "PING": 0x4,
}
PID_NAME = {v: k for k, v in PID.items() if k != "ERR"}
TOKEN_PIDS = ("OUT", "IN", "SETUP", "PING")
DATA_PIDS = ("DATA0", "DATA1", "DATA2", "MDATA")
HANDSHAKE_PIDS = ("ACK", "NAK", "STALL", "NYET")


def pid_byte(name_or_nibble):
    n = PID[name_or_nibble] if isinstance(name_or_nibble, str) else name_or_nibble
    return (n & 0xF) | ((~n & 0xF) << 4)


def pid_valid(byte):
    return (byte & 0xF) == ((~byte >> 4) & 0xF)


def pid_name(byte):
    """ Name of a *valid* PID byte, else None. """
    if not pid_valid(byte):
        return None
    return PID_NAME.get(byte & 0xF)


# ------------------------------------------------------------------------------------------------
# CRCs (bit serial, LSB first on the wire)
# ------------------------------------------------------------------------------------------------
def crc5(value, nbits=11):
    """ USB CRC5 over `nbits` bits of `value`, LSB first; returns the 5-bit field as transmitted
        (bit 0 of the result is sent first, i.e. it is what lands in byte2[3] of a token). """
    reg = 0x1F
    for i in range(nbits):
        bit = (value >> i) & 1
        top = (reg >> 4) & 1
        reg = (reg << 1) & 0x1F
        if bit ^ top:
            reg ^= 0x05
    reg ^= 0x1F
    # the register's MSB is transmitted first
    out = 0
    for i in range(5):
        out |= ((reg >> (4 - i)) & 1) << i
    return out


def crc16(data):
    """ USB CRC16 of a byte string; returns (low_byte, high_byte) as sent on the wire. """
    reg = 0xFFFF
    for byte in data:
        for i in range(8):
            bit = (byte >> i) & 1
            top = (reg >> 15) & 1
            reg = (reg << 1) & 0xFFFF
            if bit ^ top:
                reg ^= 0x8005
    reg ^= 0xFFFF
    out = 0
    for i in range(16):
        out |= ((reg >> (15 - i)) & 1) << i
    return out & 0xFF, out >> 8


def token_packet(pid, addr, ep):
    v = (addr & 0x7F) | ((ep & 0xF) << 7)
    c = crc5(v, 11)
    return bytes([pid_byte(pid), v & 0xFF, ((v >> 8) & 0x7) | (c << 3)])


def sof_packet(frame):
    v = frame & 0x7FF
    c = crc5(v, 11)
    return bytes([pid_byte("SOF"), v & 0xFF, ((v >> 8) & 0x7) | (c << 3)])


def data_packet(pid, payload):
    payload = bytes(payload)
    lo, hi = crc16(payload)
    return bytes([pid_byte(pid)]) + payload + bytes([lo, hi])


def handshake_packet(pid):
    return bytes([pid_byte(pid)])


def parse_token(pkt):
    """ Returns (pid_name, addr, ep) or ('SOF', frame, None) for a well-formed 3-byte token, else None. """
    if len(pkt) != 3 or not pid_valid(pkt[0]):
        return None
    name = PID_NAME.get(pkt[0] & 0xF)
    if name not in TOKEN_PIDS and name != "SOF":
        return None
    v = pkt[1] | ((pkt[2] & 0x7) << 8)
    if crc5(v, 11) != (pkt[2] >> 3):
        return None
    if name == "SOF":
        return ("SOF", v, None)
    return (name, v & 0x7F, v >> 7)


def parse_data(pkt):
    """ Returns (pid_name, payload) for a well-formed data packet (valid PID, >=2 CRC bytes, CRC ok). """
    if len(pkt) < 3 or not pid_valid(pkt[0]):
        return None
    name = PID_NAME.get(pkt[0] & 0xF)
    if name not in DATA_PIDS:
        return None
    payload = bytes(pkt[1:-2])
    if crc16(payload) != (pkt[-2], pkt[-1]):
        return None
    return (name, payload)


def classify_tx(pkt):
    """ What a device transmission is: ('ACK'|'NAK'|'STALL'|'NYET', None), ('DATAx', payload) or ('BAD', why). """
    if len(pkt) == 0:
        return ("BAD", "empty")
    name = pid_name(pkt[0])
    if name is None:
        return ("BAD", f"invalid PID byte {pkt[0]:#04x}")
    if name in HANDSHAKE_PIDS:
        if len(pkt) != 1:
            return ("BAD", f"handshake {name} with {len(pkt)} bytes")
        return (name, None)
    if name in DATA_PIDS:
        d = parse_data(pkt)
        if d is None:
            return ("BAD", f"{name} packet with bad CRC16/length: {bytes(pkt).hex()}")
        return d
    return ("BAD", f"device sent PID {name}")


def apply_fault(pkt, fault):
    """ Pure function: packet bytes + fault literal -> bytes actually put on the wire.
        fault kinds: corrupt_bit {bits:[i,...]}, truncate {to:n}, extend {extra:hex}, bad_pid_nibble {bit:i} """
    if not fault:
        return bytes(pkt)
    pkt = bytearray(pkt)
    kind = fault["kind"]
    if kind == "corrupt_bit":
        for b in fault["bits"]:
            if len(pkt):
                b %= len(pkt) * 8
                pkt[b // 8] ^= 1 << (b % 8)
    elif kind == "truncate":
        pkt = pkt[:max(1, fault["to"])]
    elif kind == "extend":
        pkt += bytes.fromhex(fault["extra"])
    elif kind == "bad_pid_nibble":
        pkt[0] ^= 1 << (fault["bit"] % 8)
    else:
        raise ValueError(kind)
    return bytes(pkt)


# ------------------------------------------------------------------------------------------------
# UTMI host + PHY-TX actor
# ------------------------------------------------------------------------------------------------
class UTMIHost:
    """
    The host and the PHY seen from the device's UTMI port.

    Drives:   rx_active, rx_valid, rx_data, tx_ready, line_state, (optional extra pins via `extra`)
    Observes: tx_valid, tx_data  (names configurable through `pins`)

    Behaviour is given by a *script*: a generator function taking the host and using the primitives
    `send`, `idle`, `recv`, `wait_until` with `yield from`.  All numeric choices (byte period, gaps,
    stall pattern) are literals taken from the scenario -- the actor itself draws nothing.
    """

    def __init__(self, script, *, byte_period=1, pre=1, post=0, txready="always", gap_pattern=None,
                 line_idle=0b01, stop_when_done=True, tail=20, idle_data=None):
        # idle_data: what rx_data shows while rx_valid is low (UTMI leaves it undefined there): None = the last byte is held,
        # ["const", v] | ["xor", m] (held byte ^ m) | ["list", [b, ...]] (b[t mod len]); a literal from the scenario
        self.idle_data = idle_data
        self.idle_data_cycles = 0
        self.byte_period = byte_period          # cycles per received byte (1 = a byte every cycle)
        self.pre = pre                          # cycles of rx_active before the first rx_valid
        self.post = post                        # cycles of rx_active after the last rx_valid
        self.gap_pattern = gap_pattern          # optional list of extra idle cycles after byte i (cyclic)
        self.txready = txready                  # "always" | ("every", n) | ("list", [bits...])
        self.line_idle = line_idle
        self.stop_when_done = stop_when_done
        self.tail = tail

        self.t = -1
        self.events = []                        # ("rx"|"tx", t_start, t_end, bytes, info)
        self.tx_packets = []
        self._tx_cur = None
        self._tx_started = None
        self.tx_during_rx = []                  # cycles where tx_valid & rx_active
        self.rx_active_now = 0
        self.sample = None
        self._pins = {"rx_active": 0, "rx_valid": 0, "rx_data": 0, "line_state": line_idle}
        self._gen = script(self)
        self._pending = None
        self._done = False
        self._tail_left = tail
        self.tx_gap_violations = []             # cycles where tx_valid dropped mid-packet... (computed by users)
        self._ready_idx = 0
        try:
            next(self._gen)                      # run to the first yield (which is the cycle-0 wait)
        except StopIteration:
            self._done = True

    # ---- actor interface -------------------------------------------------------------------------
    def _ready_bit(self, t):
        tr = self.txready
        if tr == "always":
            return 1
        if tr[0] == "every":
            return 1 if (t % tr[1]) == 0 else 0
        if tr[0] == "list":
            lst = tr[1]
            return lst[t % len(lst)]
        raise ValueError(tr)

    def drive(self, t):
        self.t = t
        d = dict(self._pins)
        d["tx_ready"] = self._ready_bit(t)
        self._ready_now = d["tx_ready"]
        idd = self.idle_data
        if idd is not None and not d["rx_valid"]:
            held = d["rx_data"]
            if idd[0] == "const":
                v = idd[1] & 0xFF
            elif idd[0] == "xor":
                v = (held ^ idd[1]) & 0xFF
            elif idd[0] == "list":
                v = idd[1][t % len(idd[1])] & 0xFF
            else:
                raise ValueError(idd)
            if v != held:
                self.idle_data_cycles += 1
            d["rx_data"] = v
        return d

    def observe(self, t, o):
        self.sample = o
        # ---- capture what the device transmits (a byte is taken when tx_valid & tx_ready) ----
        if o["tx_valid"]:
            if self._tx_cur is None:
                self._tx_cur = []
                self._tx_started = t
                self._tx_stalls = 0
            if self._ready_now:
                self._tx_cur.append(o["tx_data"])
            else:
                self._tx_stalls += 1
            if self._pins["rx_active"]:
                self.tx_during_rx.append(t)
        elif self._tx_cur is not None:
            pkt = {"start": self._tx_started, "end": t, "data": bytes(self._tx_cur), "stalls": self._tx_stalls}
            self.tx_packets.append(pkt)
            self.events.append(("tx", pkt["start"], pkt["end"], pkt["data"], None))
            self._tx_cur = None
        # ---- resume the script ----
        if self._done:
            self._tail_left -= 1
            return self.stop_when_done and self._tail_left <= 0
        try:
            self._gen.send(o)
        except StopIteration:
            self._done = True
        return False

    # ---- primitives (generators; each `yield` = one cycle) -----------------------------------------
    def idle(self, n):
        for _ in range(n):
            yield

    def set_pins(self, **kw):
        self._pins.update(kw)

    def send(self, data, *, info=None, period=None, abort_at=None, gaps=None):
        """ Presents one packet on the UTMI receive interface.
            abort_at=k : rx_active drops after k bytes (aborted reception).
            Returns (t_start, t_end) where t_end is the first cycle with rx_active low. """
        data = bytes(data)
        period = period or self.byte_period
        gaps = gaps if gaps is not None else self.gap_pattern
        p = self._pins
        t_start = self.t + 1
        p["rx_active"] = 1
        p["rx_valid"] = 0
        for _ in range(self.pre):
            yield
        n = len(data) if abort_at is None else min(abort_at, len(data))
        for i in range(n):
            p["rx_valid"] = 1
            p["rx_data"] = data[i]
            yield
            extra = (period - 1) + (gaps[i % len(gaps)] if gaps else 0)
            if extra and i != n - 1:
                p["rx_valid"] = 0
                for _ in range(extra):
                    yield
        p["rx_valid"] = 0
        for _ in range(self.post):
            yield
        p["rx_active"] = 0
        yield
        t_end = self.t
        self.events.append(("rx", t_start, t_end, data[:n], info))
        return (t_start, t_end)

    def recv(self, timeout):
        """ Waits for the next complete device transmission that *starts* after now.
            Returns the packet dict, or None if tx_valid stayed low for `timeout` cycles. """
        n0 = len(self.tx_packets)
        waited = 0
        while True:
            if len(self.tx_packets) > n0:
                return self.tx_packets[n0]
            if self._tx_cur is None:
                waited += 1
                if waited > timeout:
                    return None
            yield

    def drain(self, quiet=8, limit=4000):
        """ Waits until the device has been silent for `quiet` cycles. """
        q = 0
        n = 0
        while q < quiet and n < limit:
            q = q + 1 if self._tx_cur is None else 0
            n += 1
            yield


def hexs(b):
    return bytes(b).hex()
