"""
models.usb3_ref_endpoint -- a deliberately simple, *correct* SuperSpeed bulk-IN stream endpoint written for /verif.

It is NOT part of LUNA and not a DUT: checks/c46.py can be pointed at it (DSIM_C46_REFERENCE=1) to show that the C46
oracle accepts an implementation for which the property statement holds (oracle-soundness self-test).  It offers the same
ports as luna...SuperSpeedStreamInEndpoint (`stream`, `interface`) but is single-buffered and unoptimised:

* fills one packet buffer (max_packet_size bytes, or up to a `last` word);
* IN request (ACK TP, NumP != 0, our endpoint):  buffered packet -> data packet;  owed ZLP -> tx_zlp;  otherwise NRDY
  (and later ERDY, requested only while the transaction-packet generator is ready, completed by its `done`);
* ACK with the next sequence number retires the packet and advances the sequence number (a transfer that ended on a full
  packet owes a ZLP next); Rty=1 or a repeated sequence number re-sends the same packet / ZLP;
* sequence number, length and endpoint number are driven continuously.
"""

from amaranth import Module, Signal, Elaboratable, Array, Mux, Cat, Const


class ReferenceStreamInEndpoint(Elaboratable):
    def __init__(self, *, endpoint_number, max_packet_size=1024):
        from luna.gateware.usb.stream import SuperSpeedStreamInterface
        from luna.gateware.usb.usb3.protocol.endpoint import SuperSpeedEndpointInterface
        self._ep = endpoint_number
        self._mps = max_packet_size
        self.stream = SuperSpeedStreamInterface()
        self.interface = SuperSpeedEndpointInterface()

    def elaborate(self, platform):
        m = Module()
        mps, nwords = self._mps, self._mps // 4
        s, i = self.stream, self.interface
        hi, ho, tx = i.handshakes_in, i.handshakes_out, i.tx

        buf = Array(Signal(32, name=f"buf{k}") for k in range(nwords))
        fill = Signal(range(mps + 5))           # bytes in the buffer
        ended = Signal()                        # the buffered packet ends a transfer
        packet_ready = Signal()                 # buffer holds a complete packet
        zlp_owed = Signal()                     # a ZLP must follow (transfer ended on a full packet)
        seq = Signal(5)
        flow_ctrl = Signal()                    # we sent NRDY; the host waits for ERDY
        pending_in = Signal()                   # an IN request is owed an answer
        pos = Signal(range(nwords + 1))
        sent_zlp = Signal()                     # the packet awaiting its ACK is a ZLP

        ours = hi.ack_received & (hi.endpoint_number == self._ep)
        in_token = ours & (hi.number_of_packets != 0)

        # ---- always-valid transmit parameters -----------------------------------------------------------
        m.d.comb += [
            i.tx_sequence_number.eq(seq),
            i.tx_endpoint_number.eq(self._ep),
            i.tx_length.eq(Mux(sent_zlp | ~packet_ready, 0, fill)),
            i.tx_direction.eq(1),
        ]

        # ---- filling --------------------------------------------------------------------------------------
        filling = ~packet_ready
        m.d.comb += s.ready.eq(filling)
        with m.If(s.valid.any() & s.ready):
            m.d.ss += buf[fill >> 2].eq(s.payload)
            nbytes = Signal(3)
            with m.Switch(s.valid):
                with m.Case(0b0001):
                    m.d.comb += nbytes.eq(1)
                with m.Case(0b0011):
                    m.d.comb += nbytes.eq(2)
                with m.Case(0b0111):
                    m.d.comb += nbytes.eq(3)
                with m.Default():
                    m.d.comb += nbytes.eq(4)
            m.d.ss += fill.eq(fill + nbytes)
            with m.If(s.last | (fill + nbytes >= mps)):
                m.d.ss += [packet_ready.eq(1), ended.eq(s.last)]

        have_something = packet_ready | zlp_owed

        with m.FSM(domain="ss"):
            with m.State("IDLE"):
                with m.If(in_token | pending_in):
                    m.d.ss += pending_in.eq(0)
                    with m.If(zlp_owed):
                        m.d.ss += sent_zlp.eq(1)
                        m.next = "ZLP"
                    with m.Elif(packet_ready):
                        m.d.ss += [pos.eq(0), sent_zlp.eq(0)]
                        m.next = "SEND"
                    with m.Else():
                        m.next = "NRDY"
                with m.Elif(flow_ctrl & have_something):
                    m.next = "ERDY"

            with m.State("NRDY"):
                m.d.comb += ho.send_nrdy.eq(ho.ready)
                with m.If(ho.ready):
                    m.d.ss += flow_ctrl.eq(1)
                    m.next = "NRDY_WAIT"

            with m.State("NRDY_WAIT"):
                with m.If(ho.done):
                    m.next = "IDLE"

            with m.State("ERDY"):
                m.d.comb += ho.send_erdy.eq(ho.ready)
                with m.If(ho.ready):
                    m.next = "ERDY_WAIT"

            with m.State("ERDY_WAIT"):
                with m.If(ho.done):
                    m.d.ss += flow_ctrl.eq(0)
                    m.next = "IDLE"

            with m.State("ZLP"):
                m.d.comb += i.tx_zlp.eq(1)
                m.next = "WAIT_ACK"

            with m.State("SEND"):
                last_word = ((pos + 1) << 2) >= fill
                m.d.comb += [
                    tx.payload.eq(buf[pos]),
                    tx.first.eq(pos == 0),
                    tx.last.eq(last_word),
                ]
                with m.If(last_word):
                    with m.Switch(fill[0:2]):
                        with m.Case(1):
                            m.d.comb += tx.valid.eq(0b0001)
                        with m.Case(2):
                            m.d.comb += tx.valid.eq(0b0011)
                        with m.Case(3):
                            m.d.comb += tx.valid.eq(0b0111)
                        with m.Default():
                            m.d.comb += tx.valid.eq(0b1111)
                with m.Else():
                    m.d.comb += tx.valid.eq(0b1111)
                with m.If(tx.ready):
                    m.d.ss += pos.eq(pos + 1)
                    with m.If(last_word):
                        m.next = "WAIT_ACK"

            with m.State("WAIT_ACK"):
                with m.If(ours):
                    advancing = hi.next_sequence == (seq + 1)[0:5]
                    with m.If(hi.retry_required | ~advancing):
                        # the host did not get it: send the same thing again
                        with m.If(sent_zlp):
                            m.next = "ZLP"
                        with m.Else():
                            m.d.ss += pos.eq(0)
                            m.next = "SEND"
                    with m.Else():
                        m.d.ss += seq.eq(seq + 1)
                        with m.If(sent_zlp):
                            m.d.ss += [zlp_owed.eq(0), sent_zlp.eq(0)]
                        with m.Else():
                            m.d.ss += [
                                zlp_owed.eq(ended & (fill == mps)),
                                packet_ready.eq(0), fill.eq(0), ended.eq(0),
                            ]
                        m.d.ss += pending_in.eq(hi.number_of_packets != 0)
                        m.next = "IDLE"

        return m
