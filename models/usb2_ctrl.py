"""
models.usb2_ctrl -- control-transfer level helpers on top of models.usb2.UTMIHost (used by C07..C10).

Nothing here imports LUNA.  Everything is a deterministic function of its arguments; all numeric choices
(gaps, turnaround) are literals handed in by the check (which takes them from the scenario).

    t = Txn(host, variant, tok_gap=2, turn=3, rest=6)
    r = yield from t.setup(addr, ep, data8)            # SETUP token + DATA0 -> classified response
    r = yield from t.in_(addr, ep)                     # IN token -> classified response
    r = yield from t.out(addr, ep, "DATA1", payload)   # OUT token + data -> classified response
    yield from t.handshake("ACK")                      # host handshake after the turnaround delay

A classified response is a dict {"kind": "ACK"|"NAK"|"STALL"|"NYET"|"DATA0"|"DATA1"|...|"BAD"|"NONE",
"payload": bytes|None, "start": cycle, "end": cycle, "raw": bytes}.
"""

from models.usb2 import token_packet, data_packet, handshake_packet, classify_tx

# cycles per full-speed bit time in the two timing variants of engines.usb2_device
BIT_CYCLES = {"V1": 1, "V2": 5}


def response_timeout(variant):
    """ Host-side bus timeout in cycles: 18 full-speed bit times plus margin (as in C06). """
    return 18 * BIT_CYCLES[variant] + 4


def setup_bytes(bm_request_type, b_request, w_value, w_index, w_length):
    return bytes([bm_request_type & 0xFF, b_request & 0xFF, w_value & 0xFF, (w_value >> 8) & 0xFF,
                  w_index & 0xFF, (w_index >> 8) & 0xFF, w_length & 0xFF, (w_length >> 8) & 0xFF])


def decode_setup(b):
    return {"recipient": b[0] & 0x1F, "type": (b[0] >> 5) & 3, "is_in": b[0] >> 7, "request": b[1],
            "value": b[2] | (b[3] << 8), "index": b[4] | (b[5] << 8), "length": b[6] | (b[7] << 8)}


def classify(pkt):
    if pkt is None:
        return {"kind": "NONE", "payload": None, "start": None, "end": None, "raw": b""}
    kind, payload = classify_tx(pkt["data"])
    return {"kind": kind, "payload": payload if kind.startswith("DATA") or kind == "MDATA" else None,
            "why": payload if kind == "BAD" else None,
            "start": pkt["start"], "end": pkt["end"], "raw": bytes(pkt["data"])}


def is_data(r):
    return r["kind"] in ("DATA0", "DATA1", "DATA2", "MDATA")


class Txn:
    """ Transaction primitives for a UTMIHost script (generators; use with `yield from`). """

    def __init__(self, host, variant, *, tok_gap=2, turn=3, rest=6):
        self.h = host
        self.variant = variant
        self.timeout = response_timeout(variant)
        self.tok_gap = tok_gap        # idle cycles between a token and the host's data packet
        self.turn = turn              # idle cycles between the end of a device packet and the host's handshake
        self.rest = rest              # idle cycles after each transaction
        self.log = []                 # (kind, addr, ep, response-kind) history, for debugging / messages

    def _recv(self):
        r = yield from self.h.recv(self.timeout)
        return classify(r)

    def setup(self, addr, ep, data8, pid="DATA0"):
        yield from self.h.send(token_packet("SETUP", addr, ep), info="setup_token")
        yield from self.h.idle(self.tok_gap)
        yield from self.h.send(data_packet(pid, data8), info="setup_data")
        r = yield from self._recv()
        self.log.append(("SETUP", addr, ep, r["kind"]))
        yield from self.h.idle(self.rest)
        return r

    def in_(self, addr, ep, rest=True):
        _, t_end = yield from self.h.send(token_packet("IN", addr, ep), info="in_token")
        r = yield from self._recv()
        r["token_end"] = t_end
        self.log.append(("IN", addr, ep, r["kind"]))
        if rest and not is_data(r):
            yield from self.h.idle(self.rest)
        return r

    def out(self, addr, ep, pid, payload):
        yield from self.h.send(token_packet("OUT", addr, ep), info="out_token")
        yield from self.h.idle(self.tok_gap)
        _, t_end = yield from self.h.send(data_packet(pid, payload), info="out_data")
        r = yield from self._recv()
        r["data_end"] = t_end
        self.log.append(("OUT", addr, ep, r["kind"]))
        yield from self.h.idle(self.rest)
        return r

    def ping(self, addr, ep):
        yield from self.h.send(token_packet("PING", addr, ep), info="ping_token")
        r = yield from self._recv()
        self.log.append(("PING", addr, ep, r["kind"]))
        yield from self.h.idle(self.rest)
        return r

    def handshake(self, name="ACK", rest=True):
        """ Host handshake (after the turnaround delay).  Returns (t_start, t_end) of the packet. """
        yield from self.h.idle(self.turn)
        se = yield from self.h.send(handshake_packet(name), info="host_" + name.lower())
        if rest:
            yield from self.h.idle(self.rest)
        return se

    def bus_reset(self, cycles, kind="se0"):
        """ SE0 on line_state (or session_end high) for `cycles` cycles, then back to idle. """
        if kind == "se0":
            self.h.set_pins(line_state=0)
        else:
            self.h.set_pins(session_end=1)
        yield from self.h.idle(cycles)
        if kind == "se0":
            self.h.set_pins(line_state=self.h.line_idle)
        else:
            self.h.set_pins(session_end=0)
        yield from self.h.idle(4)


class StreamFeeder:
    """ Keeps a LUNA stream-IN endpoint supplied with bytes (valid held, payload held until accepted). """

    def __init__(self, prefix, seed=0, last_every=0):
        self.p = prefix
        self.n = seed & 0xFF
        self.count = 0
        self.last_every = last_every

    def drive(self, t):
        p = self.p
        last = 1 if (self.last_every and (self.count + 1) % self.last_every == 0) else 0
        return {p + "valid": 1, p + "payload": self.n, p + "first": 0, p + "last": last}

    def observe(self, t, o):
        if o[self.p + "ready"]:
            self.n = (self.n * 5 + 17) & 0xFF
            self.count += 1
        return False


class StreamSink:
    """ Always-ready consumer for a LUNA stream-OUT endpoint. """

    def __init__(self, prefix):
        self.p = prefix
        self.bytes = []

    def drive(self, t):
        return {self.p + "ready": 1}

    def observe(self, t, o):
        if o[self.p + "valid"]:
            self.bytes.append(o[self.p + "payload"])
        return False


def hs_handshake(h, *, chirp_pairs=4, pair_cycles=170):
    """ Host side of a bus reset with high-speed detection, for a V2 (60 MHz) device that is not speed-restricted:
        SE0 until the device has finished its chirp K (2 ms = 120 000 cycles), then `chirp_pairs` host K-J pairs, then the
        high-speed idle state (SE0).  Returns when the device shows high-speed operation (speed HIGH, normal operating mode,
        high-speed termination).  The device's chirp is removed from the host's record of device transmissions.
        Needs the bench outputs speed / op_mode / term_select (engines.usb2_device provides them). """
    h.set_pins(line_state=0)
    seen_chirp = False
    for _ in range(135000):
        yield
        if h.sample["tx_valid"]:
            seen_chirp = True
        elif seen_chirp:
            break
    else:
        raise RuntimeError("hs_handshake: the device never finished a chirp after the bus reset")
    yield from h.idle(30)
    for _ in range(chirp_pairs):
        h.set_pins(line_state=0b10)          # K
        yield from h.idle(pair_cycles)
        h.set_pins(line_state=0b01)          # J
        yield from h.idle(pair_cycles)
    h.set_pins(line_state=0)
    h.line_idle = 0
    for _ in range(3000):
        yield
        o = h.sample
        if o["speed"] == 0 and o["op_mode"] == 0 and o["term_select"] == 0:
            break
    else:
        raise RuntimeError("hs_handshake: the device did not enter high-speed operation after a complete chirp handshake")
    yield from h.idle(150)
    del h.tx_packets[:]
    h.events[:] = [e for e in h.events if e[0] != "tx"]


HS_HANDSHAKE_CYCLES = 140000
