"""
UTMI host whose rx_data is *undefined* while rx_valid is low.

UTMI (and LUNA's UTMIInterface) defines rx_data only in cycles where rx_valid is high.  `models.usb2.UTMIHost` keeps the
last byte on rx_data between bytes, after the last byte and between packets -- which is one legal PHY, but the kindest
one.  This subclass replaces rx_data in every cycle in which rx_valid is low (before the first byte, in rx_valid gaps
inside a packet, in the `post` cycles, in the cycle rx_active falls and between packets) by a value chosen literally by
the scenario.  Nothing else changes: events, timing and the transmit side are those of UTMIHost.

`idle_data` (JSON-serialisable, from the scenario):
    None / "hold"      -- legacy behaviour (rx_data keeps the last byte)
    ["const", v]       -- rx_data = v whenever rx_valid is low   (e.g. 0x00 / 0xFF: bus parked)
    ["xor", m]         -- rx_data = last byte ^ m               (the adversarial neighbour of the held value)
    ["list", [b, ...]] -- rx_data = b[t mod len]                (arbitrary junk, changes every cycle; looks like RxCmds)
The actor draws nothing itself.
"""

from models.usb2 import UTMIHost


def check_idle_data(idle_data):
    if idle_data in (None, "hold"):
        return None
    kind, arg = idle_data
    if kind in ("const", "xor"):
        return (kind, int(arg) & 0xFF)
    if kind == "list":
        lst = [int(b) & 0xFF for b in arg]
        if not lst:
            raise ValueError("empty idle_data list")
        return (kind, lst)
    raise ValueError(idle_data)


class UTMIHostIdleData(UTMIHost):
    def __init__(self, script, *, idle_data=None, **kw):
        self._idd = check_idle_data(idle_data)       # (kept apart from the base class's own idle_data, which stays None)
        self.idle_data_cycles = 0              # cycles in which rx_data differed from the held byte while rx_valid was low
        self.idle_data_in_packet = 0           # ... of which rx_active was high (gaps inside / after the bytes of a packet)
        self.idle_data_at_end = 0              # ... of which were the cycle rx_active fell
        self._was_active = 0
        super().__init__(script, **kw)          # (the base class's own idle_data stays None: this subclass does the replacement)

    def drive(self, t):
        d = super().drive(t)
        idd = self._idd
        if idd is not None and not d["rx_valid"]:
            held = d["rx_data"]
            if idd[0] == "const":
                v = idd[1]
            elif idd[0] == "xor":
                v = held ^ idd[1]
            else:
                v = idd[1][t % len(idd[1])]
            if v != held:
                self.idle_data_cycles += 1
                if d["rx_active"]:
                    self.idle_data_in_packet += 1
                elif self._was_active:
                    self.idle_data_at_end += 1
            d["rx_data"] = v
        self._was_active = d["rx_active"]
        return d
