"""
models.periph_hyperram -- HyperRAM chip (seen through the 2:1 HyperBusPHY record: one HyperBus clock = two bytes per
system cycle) and the user-side driver for C53.  Independent of LUNA.

HyperBus facts the chip model encodes (HyperBus specification; HyperRAM with fixed 2x latency, latency count 7):
* CS# low frames a transaction; the first three clocks carry the 48-bit command/address word, most significant 16 bits
  first: CA[47]=R/W# (1 read), CA[46]=address space (1 register), CA[45]=burst type (1 linear, 0 wrapped),
  CA[44:16]=word address bits 31..3, CA[15:3] reserved (0), CA[2:0]=word address bits 2..0.
* the memory drives RWDS high during CA (2x latency).  Register writes have zero latency: the data word is clock 4.
  All other transactions: the latency count (2 x 7 clocks) starts with the third CA clock, so the first data word is
  clock 3 + 14 = 17.
* memory writes: the host drives DQ and RWDS (byte mask, 0 = write) during the data clocks; the memory drives RWDS only
  during CA.  Reads: the memory drives RWDS for the whole transaction and DQ from the first data clock to CS# high.
* read data reaches the controller through the PHY's input pipeline (`phy_delay` cycles later), either aligned to the
  system cycle (RWDS halves = 1,0) or shifted by half a clock; the memory may delay the first word and pause between
  words with RWDS low.

`HyperRAMEnv` is one actor: chip + user driver + per-cycle recorder.  All analysis is done afterwards on `rec`.
"""

LATENCY_COUNT = 7
FIRST_DATA_CLOCK = 3 + 2 * LATENCY_COUNT        # = 17
REG_WRITE_DATA_CLOCK = 4

USER_PINS = ("start_transfer", "final_word", "write_data", "address", "register_space", "perform_write", "single_page")


def command_word(*, read, register, linear, address):
    return ((1 if read else 0) << 47) | ((1 if register else 0) << 46) | ((1 if linear else 0) << 45) \
        | (((address >> 3) & ((1 << 29) - 1)) << 16) | (address & 7)


class HyperRAMEnv:
    def __init__(self, reqs, *, idle_limit=400):
        """
        reqs: list of dicts
          {"write": 0/1, "register": 0/1, "single_page": 0/1, "address": int, "strobe": 1..8, "gap": cycles after idle,
           "words": [..] (write data, or the data the chip returns), "n": number of words to transfer,
           "phy_delay": 0..3, "misaligned": 0/1, "first_delay": extra clocks before the first read word,
           "pauses": {"word_index": clocks}, "rwds_valid_delay": 0..2, "scramble_controls": 0/1}
        """
        self.reqs = reqs
        self.idle_limit = idle_limit
        # ---- user
        self.k = -1
        self.state = "WAIT_IDLE"
        self.wait = reqs[0].get("gap", 0) if reqs else 0
        self.strobe_left = 0
        self.user = {p: 0 for p in USER_PINS}
        self.widx = 0
        self.first_busy = False
        self.req_start, self.req_done, self.strobe_end = [], [], []
        self.read_log, self.write_accepts = [], []
        self.last_idle = 0
        self.stuck = None
        self.finished_at = None
        self.comb_starts = 0
        # ---- chip
        self.in_txn = False
        self.txn_start = 0
        self.txn_req = None
        self.nclk = 0
        self.ca_words = []
        self.is_read = None
        self.chip_word = 0
        self.pause_left = 0
        self.first_delay_left = 0
        self.level = 0                    # RWDS level (both halves) the chip shows when no data is queued
        self.pipe = []                    # future pin values: [rwds_hi, rwds_lo, dq_hi, dq_lo] (None = idle level / 0)
        self.sent = []                    # (pin cycle, word, request index)
        # ---- recorder
        self.rec = []                     # DUT outputs per cycle
        self.pins = []                    # pins driven per cycle
        self.chip_rwds = []               # 1 if the chip drives RWDS in that cycle (bus level)
        self.chip_dq = []                 # 1 if the chip drives DQ
        self.req_of_cycle = []            # request index in progress (user view)

    # ------------------------------------------------------------------------------------------
    def drive(self, t):
        pins = dict(self.user)
        e = self.pipe.pop(0) if self.pipe else [None, None, None, None]
        lv = self.level
        r_hi = e[0] if e[0] is not None else (lv >> 1) & 1
        r_lo = e[1] if e[1] is not None else lv & 1
        pins["rwds_i"] = (r_hi << 1) | r_lo
        pins["dq_i"] = ((e[2] or 0) << 8) | (e[3] or 0)
        self.pins.append(pins)
        return pins

    def _slot(self, idx):
        while len(self.pipe) <= idx:
            self.pipe.append([None, None, None, None])
        return self.pipe[idx]

    # ------------------------------------------------------------------------------------------
    def observe(self, t, s):
        self.rec.append(s)
        self.req_of_cycle.append(self.k)
        self._chip(t, s)
        return self._user(t, s)

    # ------------------------------------------------------------------------------------------
    def _chip(self, t, s):
        cs = s["cs"]
        if cs and not self.in_txn:
            self.in_txn = True
            self.txn_start = t
            self.txn_req = self.k if self.k >= 0 else None
            self.nclk = 0
            self.ca_words = []
            self.is_read = None
            self.chip_word = 0
            self.pause_left = 0
            rq = self.reqs[self.txn_req] if self.txn_req is not None else {}
            self.first_delay_left = rq.get("first_delay", 0)
        elif not cs and self.in_txn:
            self.in_txn = False
            self.pipe = []
            self.level = 0
        drv_rwds = drv_dq = 0
        if self.in_txn:
            rq = self.reqs[self.txn_req] if self.txn_req is not None else {}
            valid = t - self.txn_start >= rq.get("rwds_valid_delay", 0)
            if s["clk_en"]:
                self.nclk += 1
                if self.nclk <= 3:
                    self.ca_words.append(s["dq_o"])
                    if self.nclk == 3:
                        self.is_read = bool((self.ca_words[0] >> 15) & 1)
                elif self.is_read and self.nclk >= FIRST_DATA_CLOCK:
                    self._read_clock(t, rq)
            in_ca = self.nclk < 3 or (self.nclk == 3 and s["clk_en"])
            if in_ca:
                drv_rwds = 1 if valid else 0
                self.level = 0b11 if valid else 0
            else:
                self.level = 0
                if self.is_read:
                    drv_rwds = 1
                    if self.nclk >= FIRST_DATA_CLOCK:
                        drv_dq = 1
        self.chip_rwds.append(drv_rwds)
        self.chip_dq.append(drv_dq)

    def _read_clock(self, t, rq):
        """ one clock of the read data phase: the chip may emit one word (two bytes) """
        if self.first_delay_left > 0:
            self.first_delay_left -= 1
            return
        if self.pause_left > 0:
            self.pause_left -= 1
            return
        words = rq.get("words") or [0]
        w = words[self.chip_word % len(words)]
        idx = rq.get("phy_delay", 0)               # index 0 = pins of cycle t+1
        if not rq.get("misaligned"):
            e = self._slot(idx)
            e[0], e[1], e[2], e[3] = 1, 0, (w >> 8) & 0xFF, w & 0xFF
            self.sent.append((t + 1 + idx, w, self.txn_req))
        else:
            e = self._slot(idx)
            e[1], e[3] = 1, (w >> 8) & 0xFF            # first byte in the second half of this cycle
            if e[0] is None:
                e[0] = 0
            e2 = self._slot(idx + 1)
            e2[0], e2[2] = 0, w & 0xFF                 # second byte in the first half of the next cycle
            if e2[1] is None:
                e2[1] = 0
            self.sent.append((t + 2 + idx, w, self.txn_req))
        self.chip_word += 1
        p = (rq.get("pauses") or {}).get(str(self.chip_word))
        if p:
            self.pause_left = p

    # ------------------------------------------------------------------------------------------
    def _start(self, first_cycle):
        """ issue the next request; `first_cycle` = the cycle in which the DUT first sees the strobe """
        u = self.user
        self.k += 1
        rq = self.reqs[self.k]
        self.read_log.append([])
        self.write_accepts.append([])
        u.update(start_transfer=1, address=rq["address"], register_space=rq["register"],
                 perform_write=rq["write"], single_page=rq["single_page"],
                 write_data=(rq["words"][0] if rq["write"] else 0),
                 final_word=1 if rq["n"] == 1 else 0)
        self.widx = 0
        self.strobe_left = rq["strobe"] - 1
        self.req_start.append(first_cycle)
        self.state = "BUSY"
        self.first_busy = True

    def _finish(self, t):
        self.state = "WAIT_IDLE"
        self.req_done.append(t)
        self.last_idle = t
        self.user["final_word"] = 0
        nxt = self.k + 1
        self.wait = self.reqs[nxt].get("gap", 0) if nxt < len(self.reqs) else 0

    def react(self, t, s):
        """ combinational user logic (start_transfer = request_pending & idle): a request marked "start_at": "comb" is
            strobed in the very first cycle the interface shows idle """
        nxt = self.k + 1
        if nxt >= len(self.reqs) or self.reqs[nxt].get("start_at") != "comb" or not s["idle"]:
            return None
        if len(self.pins) >= 2 and self.pins[-2]["start_transfer"]:
            return None         # the previous strobe was still high in the previous cycle: no separate strobe possible yet
        if self.state == "BUSY":
            if self.first_busy or self.user["start_transfer"]:
                return None
            self._finish(t)
        elif self.wait > 0:
            return None
        self._start(t)
        self.comb_starts += 1
        pins = dict(self.user)
        if self.pins:
            self.pins[-1].update(pins)
        return pins

    def _user(self, t, s):
        idle = s["idle"]
        u = self.user
        if self.k >= 0:
            if s["read_ready"]:
                self.read_log[self.k].append((t, s["read_data"]))
            if s["write_ready"]:
                self.write_accepts[self.k].append(t)
        if self.state == "WAIT_IDLE":
            if idle:
                self.last_idle = t
                if self.k + 1 >= len(self.reqs):
                    if self.finished_at is None:
                        self.finished_at = t
                    return t >= self.finished_at + 10
                if self.wait > 0:
                    self.wait -= 1
                else:
                    self._start(t + 1)
            elif t - self.last_idle > self.idle_limit:
                self.stuck = t
                return True
            return False
        # ---- BUSY
        rq = self.reqs[self.k]
        if u["start_transfer"]:
            if self.strobe_left > 0:
                self.strobe_left -= 1
            else:
                u["start_transfer"] = 0
                self.strobe_end.append(t)
                if rq.get("scramble_controls"):
                    u.update(address=rq["address"] ^ 0x2AAAAAAA, register_space=1 - rq["register"],
                             perform_write=1 - rq["write"], single_page=1 - rq["single_page"])
        if not self.first_busy:
            if rq["write"] and s["write_ready"]:
                self.widx += 1
                if self.widx < rq["n"]:
                    u["write_data"] = rq["words"][self.widx % len(rq["words"])]
                    u["final_word"] = 1 if self.widx == rq["n"] - 1 else 0
                else:
                    u["final_word"] = 0
            elif not rq["write"] and s["read_ready"]:
                self.widx += 1
                u["final_word"] = 1 if self.widx == rq["n"] - 1 else 0
            if idle and not u["start_transfer"]:
                self._finish(t)
                nxt = self.k + 1
                if nxt < len(self.reqs) and self.reqs[nxt].get("start_at") == "next" and not self.pins[-1]["start_transfer"]:
                    # (only if the previous strobe is already low in this cycle: two strobes are separated by a low cycle)
                    # registered user logic that has its next request ready: strobe in the cycle after the first idle cycle
                    self._start(t + 1)
                return False
        if t - self.req_start[self.k] > self.idle_limit:
            self.stuck = t
            return True
        self.first_busy = False
        return False
