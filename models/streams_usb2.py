"""
models.streams_usb2 -- actors, host transactions and reference oracles for the USB 2.0 stream endpoints
(USBStreamInEndpoint / USBMultibyteStreamInEndpoint / USBStreamOutEndpoint / USBSignalInEndpoint inside a full USBDevice).

Nothing here imports LUNA.  Used by checks C11, C13, C14, C12 and C29.

  StreamProducer / StreamConsumer   valid/ready parties with literal gap / back-pressure schedules (stream contract obeyed)
  HostCtx + txn_*                   transaction-level host on top of models.usb2.UTMIHost: IN (good / missing / garbled ACK),
                                    OUT (data toggles, retries after NAK / timeout / lost device ACK), PING, SETUP, status stage,
                                    SOF, traffic for another device address
  check_in_stream / check_out_stream / check_toggles    history oracles (decided from the bytes on the wire only)

All oracles judge the *wire*: what the host put on the bus (after fault injection) and what the device answered.
"""

from models import usb2
from models.usb2 import (token_packet, data_packet, handshake_packet, sof_packet, apply_fault, parse_data, parse_token,
                         classify_tx, pid_byte)

DATA01 = ("DATA0", "DATA1")


# ------------------------------------------------------------------------------------------------------------------
# stream actors
# ------------------------------------------------------------------------------------------------------------------
class StreamProducer:
    """
    Feeds a LUNA StreamInterface sink: pins <p>valid, <p>payload, <p>first, <p>last (and optionally <p>flush);
    observes <p>ready.  A beat, once presented, is held unchanged until it is accepted (valid & ready in one cycle).

    beats: list of dicts {"v": payload int, "f": 0/1, "l": 0/1, "g": idle cycles before presenting,
                          "wait": event name (optional), "off": cycles after the event (optional)}
    flush: list of [start_cycle, length] pulses; final_flush: hold flush high once every beat has been accepted.
    events: shared dict name -> cycle of the latest occurrence (posted by the host script); a beat with "wait" is presented
            at cycle events[name] + 1 + off for the first occurrence after it became the current beat, or after
            "patience" cycles without one.
    """

    def __init__(self, prefix, beats, *, flush=(), final_flush=False, has_flush=True, events=None, start=0):
        self.p = prefix
        self.beats = beats
        self.idx = 0
        self.gap_left = beats[0].get("g", 0) + start if beats else 0
        self.presenting = False
        self.accepted = []            # (cycle, payload, first, last)
        self.flush = sorted([list(x) for x in flush])
        self.final_flush = final_flush
        self.has_flush = has_flush
        self.events = events if events is not None else {}
        self.flush_cycles = 0
        self.done_at = None
        self._flush_now = 0
        self.cur_since = None
        self.synced = []              # (event name, cycle at which the waiting beat was presented)

    @property
    def done(self):
        return self.idx >= len(self.beats)

    def drive(self, t):
        p = self.p
        d = {}
        if self.idx < len(self.beats):
            b = self.beats[self.idx]
            if not self.presenting:
                w = b.get("wait")
                if w is not None:
                    # wait for an occurrence of the event that is not older than the moment this beat became current
                    if self.cur_since is None:
                        self.cur_since = t
                    ev = self.events.get(w)
                    if ev is not None and ev + 1 >= self.cur_since and t >= ev + 1 + b.get("off", 0):
                        self.presenting = True
                        self.synced.append((w, t))
                    elif t >= self.cur_since + b.get("patience", 1 << 60):
                        self.presenting = True          # the event did not happen in time: carry on
                elif self.gap_left <= 0:
                    self.presenting = True
                else:
                    self.gap_left -= 1
            if self.presenting:
                d = {p + "valid": 1, p + "payload": b["v"], p + "first": b.get("f", 0), p + "last": b.get("l", 0)}
            else:
                d = {p + "valid": 0}
        else:
            d = {p + "valid": 0, p + "last": 0, p + "first": 0}
        if self.has_flush:
            fl = 0
            for s, n in self.flush:
                if s <= t < s + n:
                    fl = 1
                    break
            if self.final_flush and self.done:
                fl = 1
            self._flush_now = fl
            self.flush_cycles += fl
            d[p + "flush"] = fl
        return d

    def observe(self, t, o):
        if self.presenting and o[self.p + "ready"]:
            b = self.beats[self.idx]
            self.accepted.append((t, b["v"], b.get("f", 0), b.get("l", 0)))
            self.idx += 1
            self.presenting = False
            self.cur_since = None
            if self.idx < len(self.beats):
                self.gap_left = self.beats[self.idx].get("g", 0)
            else:
                self.done_at = t
        return False


class StreamConsumer:
    """
    Drains a LUNA StreamInterface source: drives <p>ready, observes <p>valid/payload/first/last.
    phases: list of [n_cycles, mode]; mode 0 = not ready, 1 = ready, k >= 2 = ready every k-th cycle.  After the last
    phase (or from `release_at` on, whichever comes first... release is set by the run when the host is done) ready = 1.
    `hold` (set / cleared by a host script between transactions) overrides everything: while it is set ready = 0.
    """

    def __init__(self, prefix, phases):
        self.p = prefix
        self.phases = [list(x) for x in phases]
        self.taken = []               # (cycle, payload, first, last)
        self.release = False
        self.hold = False
        self._ready = 0
        self._bounds = []
        acc = 0
        for n, mode in self.phases:
            acc += n
            self._bounds.append((acc, mode))
        self._pi = 0
        self.stall_cycles = 0

    def drive(self, t):
        r = 1
        if not self.release:
            while self._pi < len(self._bounds) and t >= self._bounds[self._pi][0]:
                self._pi += 1
            if self._pi < len(self._bounds):
                mode = self._bounds[self._pi][1]
                r = 0 if mode == 0 else (1 if mode == 1 else int(t % mode == 0))
        if self.hold:
            r = 0
        self._ready = r
        self.stall_cycles += 1 - r
        return {self.p + "ready": r}

    def observe(self, t, o):
        if self._ready and o[self.p + "valid"]:
            self.taken.append((t, o[self.p + "payload"], o[self.p + "first"], o[self.p + "last"]))
        return False

    def count_at(self, t):
        """ number of bytes taken in cycles <= t """
        lo, hi = 0, len(self.taken)
        while lo < hi:
            mid = (lo + hi) // 2
            if self.taken[mid][0] <= t:
                lo = mid + 1
            else:
                hi = mid
        return lo


# ------------------------------------------------------------------------------------------------------------------
# host transactions (generator functions used inside a UTMIHost script)
# ------------------------------------------------------------------------------------------------------------------
class HostCtx:
    def __init__(self, variant, *, turn=None, tok_gap=None, addr=0):
        self.variant = variant
        self.bit = 5 if variant == "V2" else 1                 # clock cycles per full-speed bit time
        self.timeout = 18 * self.bit + 4                       # host gives up waiting for a response
        self.turn = turn if turn is not None else 2 * self.bit  # host turn-around / inter-packet delay (>= 2 bit times)
        self.tok_gap = tok_gap if tok_gap is not None else 2 * self.bit
        self.addr = addr
        self.txns = []                # ordered records (dicts)
        self.faults = {}
        self.out_queue = {}           # ep -> list of payloads (bytes) the host wants to send, in order
        self.out_head = {}            # ep -> index of the next packet to send
        self.out_toggle = {}          # ep -> host's data toggle for the next OUT packet
        self.in_toggle = {}           # ep -> host's expected toggle for the next IN packet
        self.in_accepted = {}         # ep -> bytearray the host has accepted
        self.events = {}              # name -> cycle (for producers that synchronise on host activity)
        self.pending_setup = None
        self.n_recv = 0               # device transmissions consumed by a transaction

    def fault(self, kind):
        self.faults[kind] = self.faults.get(kind, 0) + 1


def _recv(h, c):
    r = yield from h.recv(c.timeout)
    if r is not None:
        c.n_recv += 1
    return r


def txn_in(h, c, ep, ack="good", ack_bit=4, kind="in", event=None):
    """ IN transaction.  ack: "good" (host received the data and ACKs), "none" (host did not receive it: no ACK, nothing
        accepted), "corrupt" (host received and accepted it, but its ACK is garbled on the way to the device). """
    rec = {"kind": kind, "ep": ep, "ack": ack, "acked": False, "host_got": False}
    t0, t_end = yield from h.send(token_packet("IN", c.addr, ep))
    rec["t_tok_start"], rec["t_tok"] = t0, t_end
    r = yield from _recv(h, c)
    if r is None:
        rec["resp"] = "none"
    else:
        k, payload = classify_tx(r["data"])
        rec.update(resp=k, payload=payload, raw=bytes(r["data"]), t_resp=r["start"], t_resp_end=r["end"])
        if k in DATA01:
            yield from h.idle(c.turn)
            if ack == "good":
                yield from h.send(handshake_packet("ACK"))
                rec["acked"] = True
                rec["host_got"] = True
                if event is not None:
                    c.events[event] = h.t          # first cycle after the ACK: producers may synchronise on it
            elif ack == "corrupt":
                c.fault("lost_handshake")
                yield from h.send(bytes([pid_byte("ACK") ^ (1 << (ack_bit % 8))]))
                rec["host_got"] = True
            else:
                c.fault("lost_handshake")
            rec["t_ack_end"] = h.t
            if rec["host_got"]:
                tog = c.in_toggle.get(ep, 0)
                if (k == "DATA1") == bool(tog):
                    c.in_accepted.setdefault(ep, bytearray()).extend(payload)
                    c.in_toggle[ep] = tog ^ 1
                    rec["host_accepted"] = True
                else:
                    rec["host_accepted"] = False
    rec["t_done"] = h.t
    c.txns.append(rec)
    yield from h.idle(c.turn)
    return rec


def txn_out(h, c, ep, fault=None, token_fault=None):
    """ One attempt to send the packet at the head of the host's OUT queue for `ep`.
        fault: None | {"kind":"corrupt_bit","bits":[..]} | {"kind":"truncate","to":n} | {"kind":"lost_ack"} |
               {"kind":"wrong_toggle"} (send with the other toggle: looks like a retransmission to the device) """
    q = c.out_queue.get(ep, [])
    head = c.out_head.get(ep, 0)
    if head >= len(q):
        return None
    payload = q[head]
    tog = c.out_toggle.get(ep, 0)
    fk = fault["kind"] if fault else None
    if fk == "wrong_toggle":
        tog ^= 1
    pid = "DATA1" if tog else "DATA0"
    pkt = data_packet(pid, payload)
    wire = apply_fault(pkt, fault) if fk in ("corrupt_bit", "truncate", "extend") else pkt
    if fk:
        c.fault({"lost_ack": "lost_handshake"}.get(fk, fk))
    rec = {"kind": "out", "ep": ep, "head": head, "pid": pid, "payload": bytes(payload), "wire": bytes(wire), "fault": fk}
    tok = token_packet("OUT", c.addr, ep)
    wire_tok = apply_fault(tok, token_fault) if token_fault else tok
    pt = parse_token(wire_tok)
    rec["token_ok"] = pt is not None and pt == ("OUT", c.addr, ep)
    rec["wire_token"] = bytes(wire_tok)
    if token_fault:
        c.fault("token_" + token_fault["kind"])
    t0, t_tok = yield from h.send(wire_tok)
    rec["t_tok_start"], rec["t_tok"] = t0, t_tok
    yield from h.idle(c.tok_gap)
    t1, t_end = yield from h.send(wire)
    rec["t_data_start"], rec["t_data_end"] = t1, t_end
    r = yield from _recv(h, c)
    if r is None:
        rec["resp"] = "none"
    else:
        rec["resp"] = classify_tx(r["data"])[0]
        rec["raw"] = bytes(r["data"])
        rec["t_resp"] = r["start"]
        rec["t_resp_end"] = r["end"]
    if rec["resp"] == "ACK" and fk not in ("lost_ack", "wrong_toggle"):
        # (after wrong_toggle the host still owns the packet: the device must have treated it as a repeat)
        c.out_head[ep] = head + 1
        c.out_toggle[ep] = c.out_toggle.get(ep, 0) ^ 1
    rec["t_done"] = h.t
    c.txns.append(rec)
    yield from h.idle(c.turn)
    return rec


def txn_ping(h, c, ep):
    rec = {"kind": "ping", "ep": ep}
    t0, t_end = yield from h.send(token_packet("PING", c.addr, ep))
    rec["t_tok_start"], rec["t_tok"] = t0, t_end
    r = yield from _recv(h, c)
    if r is None:
        rec["resp"] = "none"
    else:
        rec["resp"] = classify_tx(r["data"])[0]
        rec["raw"] = bytes(r["data"])
        rec["t_resp"] = r["start"]
    rec["t_done"] = h.t
    c.txns.append(rec)
    yield from h.idle(c.turn)
    return rec


def txn_sof(h, c, frame):
    t0, t_end = yield from h.send(sof_packet(frame))
    c.txns.append({"kind": "sof", "ep": None, "t_tok_start": t0, "t_tok": t_end, "t_done": t_end})
    yield from h.idle(c.turn)


def txn_foreign_in(h, c, addr, ep, ack=True):
    """ The host polls ANOTHER device (address != ours): IN token, the other device's data is not visible on our
        receive side (upstream traffic), then the host's ACK, which every device on the bus sees. """
    c.fault("foreign_address")
    t0, t_end = yield from h.send(token_packet("IN", addr, ep))
    rec = {"kind": "foreign_in", "ep": None, "t_tok_start": t0, "t_tok": t_end, "acked": bool(ack)}
    r = yield from h.recv(c.timeout)            # our device must stay silent
    if r is not None:
        c.n_recv += 1
        rec["resp"] = classify_tx(r["data"])[0]
        rec["t_resp"] = r["start"]
    else:
        rec["resp"] = "none"
    if ack:
        yield from h.idle(c.turn)
        yield from h.send(handshake_packet("ACK"))
    rec["t_done"] = h.t
    c.txns.append(rec)
    yield from h.idle(c.turn)
    return rec


def txn_foreign_out(h, c, addr, ep, payload, pid="DATA0"):
    c.fault("foreign_address")
    t0, t_end = yield from h.send(token_packet("OUT", addr, ep))
    yield from h.idle(c.tok_gap)
    yield from h.send(data_packet(pid, payload))
    rec = {"kind": "foreign_out", "ep": None, "t_tok_start": t0, "t_tok": t_end}
    r = yield from h.recv(c.timeout)
    if r is not None:
        c.n_recv += 1
        rec["resp"] = classify_tx(r["data"])[0]
        rec["t_resp"] = r["start"]
    else:
        rec["resp"] = "none"
    rec["t_done"] = h.t
    c.txns.append(rec)
    yield from h.idle(c.turn)
    return rec


def txn_setup(h, c, setup8):
    """ SETUP stage of a control transfer on endpoint 0. """
    rec = {"kind": "setup", "ep": 0, "bytes": bytes(setup8)}
    t0, t_tok = yield from h.send(token_packet("SETUP", c.addr, 0))
    rec["t_tok_start"], rec["t_tok"] = t0, t_tok
    yield from h.idle(c.tok_gap)
    _, t_end = yield from h.send(data_packet("DATA0", setup8))
    rec["t_data_end"] = t_end
    r = yield from _recv(h, c)
    rec["resp"] = "none" if r is None else classify_tx(r["data"])[0]
    rec["t_done"] = h.t
    c.txns.append(rec)
    c.pending_setup = rec if rec["resp"] == "ACK" else None
    yield from h.idle(c.turn)
    return rec


def txn_status_in(h, c, ack="good", event=None):
    """ IN status stage on endpoint 0 (for a request without data stage).  The request completes iff the device
        answers with a zero-length DATA1 and the host's ACK reaches the device. """
    if event is None and c.pending_setup is not None and _is_clear_halt(c.pending_setup["bytes"]):
        s = c.pending_setup["bytes"]
        event = f"cf_{'in' if s[4] & 0x80 else 'out'}{s[4] & 0xF}"
    rec = yield from txn_in(h, c, 0, ack=ack, kind="status_in", event=event)
    rec["setup"] = c.pending_setup["bytes"] if c.pending_setup else None
    rec["completed"] = bool(c.pending_setup and rec.get("resp") == "DATA1" and rec.get("payload") == b"" and rec["acked"])
    if rec["completed"]:
        c.pending_setup = None
        # a completed CLEAR_FEATURE(ENDPOINT_HALT) resets the host's toggle for the named endpoint as well
        s = rec["setup"]
        if _is_clear_halt(s):
            num, is_in = s[4] & 0xF, bool(s[4] & 0x80)
            if is_in:
                c.in_toggle[num] = 0
            else:
                c.out_toggle[num] = 0
    return rec


def _is_clear_halt(s):
    """ standard, recipient endpoint, CLEAR_FEATURE, feature selector ENDPOINT_HALT (0), no data stage """
    return (s is not None and s[0] == 0x02 and s[1] == 0x01 and s[2] == 0 and s[3] == 0 and s[6] == 0 and s[7] == 0)


def clear_halt_setup(ep, is_in):
    return bytes([0x02, 0x01, 0x00, 0x00, (0x80 if is_in else 0) | (ep & 0xF), 0x00, 0x00, 0x00])


# ------------------------------------------------------------------------------------------------------------------
# oracles
# ------------------------------------------------------------------------------------------------------------------
def check_in_stream(viol, R, txns, accepted, mps, *, flush_used, complete_expected, base=None, label=""):
    """
    Oracle for one bulk/interrupt IN endpoint (C11; C29 on the serialised bytes; C12 per endpoint).

    txns:      this endpoint's IN transaction records, in order (txn_in)
    accepted:  producer log [(cycle, byte, first, last)] -- what the endpoint accepted from its input stream
    R:         rule-id map: conservation, max_packet, transfer_end, retry_identical, nak_when_empty, progress
    flush_used: list of (start, end|None) cycle intervals during which flush was high (a short packet that does not end a
               transfer is legitimate only if flush was high between the acceptance of its first byte and its transmission)
    complete_expected: the run ended with a fault-free drain, so everything accepted must have reached the host
    Returns a summary dict (for probes / signatures).
    """
    base = dict(base or {})
    data = bytes(b for _, b, _, _ in accepted)
    acc_t = [t for t, _, _, _ in accepted]
    last_after = set(i + 1 for i, (_, _, _, l) in enumerate(accepted) if l)     # offsets at which a transfer ends
    summ = {"packets": 0, "retries": 0, "zlps": 0, "naks": 0, "host_bytes": 0, "dup_discards": 0, "short": 0}

    def n_accepted_before(t):
        lo, hi = 0, len(acc_t)
        while lo < hi:
            mid = (lo + hi) // 2
            if acc_t[mid] < t:
                lo = mid + 1
            else:
                hi = mid
        return lo

    dev_off = 0              # device view: bytes acknowledged by the host
    unacked = None           # device view: (pid, payload, off) of a packet sent and not yet acknowledged
    last_pid = None          # PID of the last packet the device saw acknowledged
    zlp_owed = False         # the acknowledged full-size packet ended a transfer: a zero-length packet must follow
    host_off = 0
    host_tog = 0
    new_packets = []         # device-view sequence of distinct packets: (off, len, cycle)
    bad = False
    after_foreign = False

    for x in txns:
        if x["kind"] == "foreign_in":
            if unacked is not None and x.get("acked"):
                after_foreign = True
            continue
        if x["kind"] == "clear_halt_done":
            # (C14/C12 only) both sides restart with DATA0; an unacknowledged packet may be re-sent as DATA0
            last_pid = None
            host_tog = 0
            if unacked is not None:
                unacked = ("DATA0", unacked[1], unacked[2])
            continue
        resp = x.get("resp")
        t = x.get("t_resp", x["t_tok"])
        shape = dict(base, after_foreign_ack=after_foreign)
        if resp in DATA01:
            payload = x["payload"]
            summ["packets"] += 1
            if len(payload) > mps:
                viol.add(R["max_packet"], t, f"{label}packet of {len(payload)} bytes exceeds max packet size {mps}", **shape)
                bad = True
                break
            if unacked is not None:
                summ["retries"] += 1
                if (resp, payload) != (unacked[0], unacked[1]):
                    viol.add(R["retry_identical"], t,
                             f"{label}packet re-sent after a missing ACK differs: first {unacked[0]} {unacked[1].hex()} "
                             f"then {resp} {payload.hex()}", **dict(shape, kind="retry_differs", pid_changed=resp != unacked[0]))
                    bad = True
                    break
                off = unacked[2]
            else:
                # a packet the device sends for the first time
                off = dev_off
                avail = n_accepted_before(t)
                if len(payload) == 0:
                    summ["zlps"] += 1
                    if not zlp_owed:
                        nothing = dev_off >= avail
                        viol.add(R["nak_when_empty"] if nothing else R["transfer_end"], t,
                                 f"{label}zero-length packet at stream offset {dev_off} although no full-size packet ending a "
                                 f"transfer precedes it ({avail - dev_off} input bytes were waiting)",
                                 **dict(shape, kind="spurious_zlp"))
                        bad = True
                        break
                else:
                    if zlp_owed:
                        viol.add(R["transfer_end"], t,
                                 f"{label}transfer ending at offset {dev_off} with a full-size packet was not terminated by a "
                                 f"zero-length packet: next packet carries {len(payload)} bytes", **dict(shape, kind="missing_zlp"))
                        bad = True
                        break
                    if off + len(payload) > avail:
                        viol.add(R["nak_when_empty"] if off >= avail else R["conservation"], t,
                                 f"{label}device sent {len(payload)} bytes at offset {off} but its input stream had only handed "
                                 f"over {avail} bytes by then", **dict(shape, kind="phantom_data"))
                        bad = True
                        break
                    if data[off:off + len(payload)] != payload:
                        k = "duplicate" if off >= len(payload) and data[off - len(payload):off] == payload else "mismatch"
                        viol.add(R["conservation"], t,
                                 f"{label}new packet at stream offset {off} carries {payload.hex()} but the input stream has "
                                 f"{data[off:off + len(payload)].hex()} there", **dict(shape, kind=k))
                        bad = True
                        break
                    # a packet must not run across a transfer boundary
                    cross = [b for b in last_after if off < b < off + len(payload)]
                    if cross:
                        viol.add(R["transfer_end"], t, f"{label}packet at offset {off} (+{len(payload)}) runs across the transfer "
                                 f"boundary at {cross[0]}", **dict(shape, kind="crosses_boundary"))
                        bad = True
                        break
                if last_pid is not None and resp == last_pid:
                    viol.add(R["conservation"], t,
                             f"{label}new packet (offset {off}) repeats the PID {resp} of the previous, acknowledged packet: the "
                             f"host discards it as a retransmission", **dict(shape, kind="pid_not_toggled"))
                    bad = True
                    break
                new_packets.append((off, len(payload), t))
            # ---- host side ----
            if x["host_got"]:
                if (resp == "DATA1") == bool(host_tog):
                    if data[host_off:host_off + len(payload)] != payload:
                        viol.add(R["conservation"], t,
                                 f"{label}host accepted {payload.hex()} as stream offset {host_off}, input stream has "
                                 f"{data[host_off:host_off + len(payload)].hex()} there (device-side offset {off})",
                                 **dict(shape, kind="host_stream_mismatch"))
                        bad = True
                        break
                    host_off += len(payload)
                    host_tog ^= 1
                else:
                    summ["dup_discards"] += 1
            # ---- device side ----
            if x["acked"]:
                end = off + len(payload)
                dev_off = end
                last_pid = resp
                unacked = None
                after_foreign = False
                zlp_owed = (len(payload) == mps and end in last_after)
                if len(payload) < mps:
                    summ["short"] += 1
                    if len(payload) and end not in last_after and not flush_allowed(flush_used, acc_t[off], t):
                        viol.add(R["transfer_end"], t,
                                 f"{label}short packet ({len(payload)} < {mps} bytes) ends at offset {end}, which is not a transfer "
                                 f"boundary, and flush was not requested while it was buffered", **dict(shape, kind="spurious_short"))
                        bad = True
                        break
            else:
                unacked = (resp, payload, off)
        elif resp == "NAK":
            summ["naks"] += 1
        else:
            viol.add(R["nak_when_empty"], t,
                     f"{label}IN token answered with {resp!r} ({x.get('raw', b'').hex()}): expected NAK or a well-formed DATA0/1 packet",
                     **dict(shape, kind="bad_response"))
            bad = True
            break

    summ["host_bytes"] = host_off
    summ["dev_off"] = dev_off
    summ["zlp_owed"] = zlp_owed
    summ["unacked"] = unacked is not None
    if not bad and complete_expected:
        t_end = txns[-1]["t_done"] if txns else 0
        if host_off != len(data) or zlp_owed or unacked is not None:
            viol.add(R["progress"], t_end,
                     f"{label}after a fault-free drain the host holds {host_off} of {len(data)} bytes handed to the endpoint "
                     f"(device-side acknowledged {dev_off}, zero-length packet owed: {zlp_owed})",
                     **dict(base, kind="incomplete", after_foreign_ack=after_foreign))
    return summ


def check_out_stream(viol, R, txns, taken, mps, buffer_size, consumer, *, base=None, label="", check_progress=True,
                     check_flags=True):
    """
    Oracle for one bulk OUT endpoint (C13; C12 per endpoint).  The consumer must have been left ready long enough at the
    end of the run for everything committed to drain.
    txns:  this endpoint's OUT / PING records in order;  taken: consumer log [(cycle, byte, first, last)]
    Device-side reference: expected toggle starts at DATA0; a CRC-valid packet with the expected toggle is *new*
    (ACK => delivered exactly once and toggle flips; NAK => nothing happens), one with the other toggle is a *repeat*
    (ACK, nothing delivered); anything else contributes nothing and must not be ACKed.
    """
    base = dict(base or {})
    summ = {"acks_new": 0, "acks_dup": 0, "naks": 0, "ignored": 0, "ping_ack": 0, "ping_nak": 0, "zlp_new": 0,
            "nak_no_room": 0, "full_zlp_then_packet": 0}
    tog = 0
    n_expect = 0              # bytes of accepted packets so far
    events = []               # ("acc"|"dup"|"nak"|"corrupt", payload, cycle, starts_transfer, room, prev_kind)
    short_prev = True         # the previous accepted packet was short: the next one starts a transfer
    prev_kind = "start"
    bad = False
    got = bytes(b for _, b, _, _ in taken)

    def flag(rule, t, msg, **shape):
        # only the first protocol-level divergence is reported; the walk continues so that the stream comparison below
        # still knows every packet the device acknowledged
        nonlocal bad
        if not bad:
            viol.add(rule, t, msg, **shape)
        bad = True

    for i, x in enumerate(txns):
        if x["kind"] == "clear_halt_done":
            tog = 0
            continue
        t = x.get("t_resp", x.get("t_data_end", x["t_tok"]))
        if x["kind"] == "ping":
            resp = x["resp"]
            t_r = x.get("t_resp", x["t_tok"] + 3)
            space_hi = buffer_size - (n_expect - consumer.count_at(t_r + 1))
            space_lo = buffer_size - (n_expect - consumer.count_at(x["t_tok_start"] - 4))
            shape = dict(base, resp=str(resp), kind="ping")
            if resp not in ("ACK", "NAK"):
                flag(R["ping"], t, f"{label}PING answered with {resp!r}: expected ACK or NAK", **shape)
            if resp == "ACK":
                summ["ping_ack"] += 1
                if space_hi < mps:
                    flag(R["ping"], t, f"{label}PING ACKed although at most {space_hi} bytes of buffer were free "
                             f"(a whole packet is {mps})", **dict(shape, room=False))
            else:
                summ["ping_nak"] += 1
                if space_lo >= mps:
                    flag(R["ping"], t, f"{label}PING NAKed although at least {space_lo} bytes of buffer were free "
                             f"(a whole packet is {mps})", **dict(shape, room=True))
            continue
        if x["kind"] != "out":
            continue
        d = parse_data(x["wire"])
        resp = x["resp"]
        if d is not None and d[0] not in DATA01:
            # A *well-formed* DATA2 / MDATA packet (valid PID check, valid CRC16).  A bulk host never sends one; it only
            # arises here when a corruption flips a complementary pair of PID bits (k, k+4), which is not a detectable
            # (CRC / PID-check) corruption at all.  The statement says nothing about such packets, so both conforming
            # reactions are accepted: ignore it (no handshake, contributes nothing), or handle it as the DATA0 / DATA1
            # packet whose toggle bit (PID bit 3) it carries.  Everything else is then judged as usual.
            summ["wellformed_data2_mdata"] = summ.get("wellformed_data2_mdata", 0) + 1
            d = None if resp is None else ("DATA1" if d[0] == "MDATA" else "DATA0", d[1])
        valid = d is not None and d[0] in DATA01
        shape = dict(base, resp=str(resp), fault=str(x.get("fault")), prev=prev_kind)
        if not valid:
            summ["ignored"] += 1
            if resp == "ACK":
                flag(R["stream_equals_accepted"], t, f"{label}corrupted data packet {x['wire'].hex()} was ACKed",
                         **dict(shape, kind="corrupt_acked"))
            events.append(("corrupt", bytes(x["wire"][1:-2]), x["t_data_end"], False, None, prev_kind))
            prev_kind = "corrupt"
            continue
        wire_tog = 1 if d[0] == "DATA1" else 0
        payload = d[1]
        if resp not in ("ACK", "NAK"):
            flag(R["response"], t, f"{label}valid {d[0]} packet ({len(payload)} bytes) answered with {resp!r}: expected "
                     f"ACK or NAK", **dict(shape, kind="no_handshake"))
        if wire_tog != tog:
            # repeated toggle: the device believes it already has this packet
            if resp != "ACK":
                flag(R["dup_acked_not_delivered"], t, f"{label}packet with a repeated data toggle answered with {resp} "
                         f"(expected ACK without delivery)", **dict(shape, kind="dup_not_acked"))
            summ["acks_dup"] += 1
            events.append(("dup", payload, x["t_data_end"], False, None, prev_kind))
            prev_kind = "dup"
            continue
        # new packet
        occ_lo = n_expect - consumer.count_at(x["t_data_end"] + 4)       # least possible buffer occupancy
        occ_hi = n_expect - consumer.count_at(x["t_tok_start"] - 4)      # greatest possible buffer occupancy
        if resp == "ACK":
            summ["acks_new"] += 1
            if len(payload) == 0:
                summ["zlp_new"] += 1
            if prev_kind == "acked_zlp" and len(payload):
                summ["full_zlp_then_packet"] += 1
            events.append(("acc", payload, x["t_data_end"], short_prev, buffer_size - occ_hi >= len(payload), prev_kind))
            n_expect += len(payload)
            short_prev = len(payload) < mps
            tog ^= 1
            prev_kind = "acked_zlp" if len(payload) == 0 else ("acked_full" if len(payload) == mps else "acked_short")
        else:
            summ["naks"] += 1
            if buffer_size - occ_lo < len(payload):
                summ["nak_no_room"] += 1
            if check_progress and occ_hi == 0:
                flag(R["progress"], t, f"{label}new valid packet ({len(payload)} bytes) NAKed although the buffer "
                         f"({buffer_size} bytes) was empty", **dict(shape, kind="nak_empty_buffer"))
            events.append(("nak", payload, x["t_data_end"], False, buffer_size - occ_hi >= len(payload), prev_kind))
            prev_kind = "nak"

    summ["expected_bytes"] = n_expect
    summ["got_bytes"] = len(got)

    # ---- the output stream: every accepted packet exactly once, in order, nothing else ----
    p = 0
    owner = []                 # per delivered byte: (event, index in packet, previous accepted event, rejected events in between)
    prev_acc = None
    rejected = []
    failed = False
    for n, ev in enumerate(events):
        kind, payload = ev[0], ev[1]
        if kind != "acc":
            rejected.append(ev)
            continue
        if got[p:p + len(payload)] == payload:
            for k in range(len(payload)):
                owner.append((ev, k, prev_acc, list(rejected)))
            p += len(payload)
            if len(payload) or True:
                prev_acc = ev
            rejected = []
            continue
        # divergence inside / at this accepted packet
        rest = got[p:]
        skipped = len(rest) == 0 or any(len(e[1]) and rest[:len(e[1])] == e[1][:len(rest)]
                                        for e in events[n + 1:] if e[0] == "acc")
        if skipped:
            what, rule = "acked_not_delivered", R["ack_implies_delivered"]
        else:
            what, rule = "wrong_data", R["stream_equals_accepted"]
            for e in rejected:
                if len(e[1]) and rest[:len(e[1])] == e[1][:len(rest)]:
                    what = "rejected_packet_delivered:" + e[0]
        common = next((k for k in range(min(len(rest), len(payload))) if rest[k] != payload[k]), min(len(rest), len(payload)))
        viol.add(rule, ev[2], f"{label}ACKed new packet #{n} ({len(payload)} bytes, {payload[:8].hex()}..) is not in the output "
                 f"stream at offset {p}: stream continues {rest[:8].hex()}.. ({len(got)} bytes delivered in total, first "
                 f"{common} bytes of the packet match); {what}; room for it when it arrived: {ev[4]}; previous event: {ev[5]}",
                 **dict(base, kind=what, cause=("no_room" if ev[4] is False else "other")))
        failed = True
        break
    if not failed and not bad and len(got) > p:
        rest = got[p:]
        what = "extra_data"
        for e in rejected:
            if len(e[1]) and rest[:len(e[1])] == e[1][:len(rest)]:
                what = "rejected_packet_delivered:" + e[0]
        viol.add(R["stream_equals_accepted"], taken[p][0], f"{label}output stream carries {len(got) - p} bytes beyond the ACKed new "
                 f"packets: {rest[:8].hex()}.. ({what})", **dict(base, kind=what, cause="other"))
        failed = True
    if failed or not check_flags:
        return summ
    # ---- first / last flags ----
    for idx in range(len(owner)):
        ev, k, pacc, rej = owner[idx]
        _, _, f, l = taken[idx]
        n = len(ev[1])
        exp_last = int(k == n - 1 and n < mps)
        exp_first = int(k == 0 and ev[3])
        if l != exp_last:
            viol.add(R["last_flag"], taken[idx][0], f"{label}byte {idx} (byte {k} of a {n}-byte packet, max packet size "
                     f"{mps}) has last={l}, expected {exp_last}", **dict(base, kind="last_missing" if exp_last else "last_spurious"))
            break
        if f != exp_first:
            pk = "start" if pacc is None else ("zlp" if len(pacc[1]) == 0 else ("short" if len(pacc[1]) < mps else "full"))
            between = sorted(set(e[0] + ("_short" if len(e[1]) < mps else "_full") for e in rej))
            fk = "first_missing" if exp_first else "first_spurious"
            if pk == "zlp" and exp_first:
                cause = "after_zlp_terminated_transfer"
            elif any(b.startswith(("corrupt", "nak")) for b in between):
                cause = "after_discarded_packet"
            else:
                cause = "other"
            viol.add(R["first_flag"], taken[idx][0], f"{label}byte {idx} (byte {k} of a {n}-byte packet, max packet size {mps}) has "
                     f"first={f}, expected {exp_first}: previous accepted packet was {pk}; rejected attempts in between: {between}",
                     **dict(base, kind=fk, cause=cause))
            break
    return summ


def le_bytes(value, width):
    return bytes((value >> (8 * i)) & 0xFF for i in range(width))


# ------------------------------------------------------------------------------------------------------------------
# scenario helpers (pure functions of the rng / of the literal scenario)
# ------------------------------------------------------------------------------------------------------------------
def gen_in_transfers(rng, mps, *, max_transfers=5, max_bytes=None, width=1):
    """ Literal description of an input stream: list of transfers {"data": hex, "last": 0/1, "pre": n, "gaps": [..]} """
    max_bytes = max_bytes or max(24, 5 * mps)
    n = rng.choice([0, 1, 1, 2, 2, 3, 3, 4, max_transfers])
    out = []
    total = 0
    for i in range(n):
        unit = max(1, mps // width)
        L = rng.choice([1, 1, 2, unit - 1, unit, unit, unit + 1, 2 * unit, 2 * unit - 1, 2 * unit + 1,
                        rng.randint(1, 3 * unit), rng.randint(1, unit)])
        L = max(1, min(L, (max_bytes - total) // width))
        if total + L * width > max_bytes or L < 1:
            break
        total += L * width
        gaps = rng.choice([[0], [0], [0], [0, 0, 0, 1], [1], [0, 3], [2, 0, 0, 0, 0, 0, 7], [rng.randint(0, 9) for _ in range(5)]])
        pre = rng.choice([0, 0, 1, 3, 10, 40, 120, rng.randint(0, 400)])
        out.append({"data": bytes(rng.getrandbits(8) for _ in range(L * width)).hex(),
                    "last": int(rng.random() < 0.8), "pre": pre, "gaps": gaps,
                    "first": int(rng.random() < 0.7)})
    return out


def expand_beats(transfers, width=1):
    """ transfers -> beats for StreamProducer (little-endian words of `width` bytes) """
    beats = []
    for tr in transfers:
        raw = bytes.fromhex(tr["data"])
        nw = len(raw) // width
        gaps = tr.get("gaps") or [0]
        for i in range(nw):
            v = int.from_bytes(raw[i * width:(i + 1) * width], "little")
            b = {"v": v, "f": int(i == 0 and tr.get("first", 1)), "l": int(i == nw - 1 and tr.get("last", 1)),
                 "g": (tr.get("pre", 0) if i == 0 else 0) + gaps[i % len(gaps)]}
            if i == nw - 1 and tr.get("wait") is not None:
                b["wait"] = tr["wait"]
                b["off"] = tr.get("off", 0)
                b["patience"] = tr.get("patience", 1 << 60)
            beats.append(b)
    return beats


def flush_allowed(flush_iv, t0, t1):
    """ was flush high in some cycle of [t0, t1]?  flush_iv: list of (start, end_inclusive_or_None) """
    for s, e in flush_iv:
        if s <= t1 and (e is None or e >= t0):
            return True
    return False
