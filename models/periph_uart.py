"""
models.periph_uart -- actors and reference code for the UART transmitter checks (C49).  Independent of LUNA.

* StreamSource : a stream producer that obeys the valid/ready contract (valid + payload held until accepted).  Each item
                 is presented `gap` cycles after the previous item was accepted (gap 0 = back-to-back).
* UARTSink     : records the line every cycle; `analyse()` decodes it cycle-exactly against the accepted bytes.
"""


class StreamSource:
    def __init__(self, items, *, valid="valid", payload="payload", ready="ready"):
        """ items: list of (value, gap) """
        self.items = list(items)
        self.pv, self.pp, self.pr = valid, payload, ready
        self.i = 0
        self.wait = self.items[0][1] if self.items else 0
        self.presenting = False
        self.accepted = []          # (cycle, value)
        self.first_presented = []   # cycle at which each item was first presented
        self.done_at = None

    def drive(self, t):
        if self.i >= len(self.items):
            self.presenting = False
            return {self.pv: 0}
        if self.wait > 0:
            self.wait -= 1
            self.presenting = False
            return {self.pv: 0}
        if not self.presenting:
            self.first_presented.append(t)
        self.presenting = True
        return {self.pv: 1, self.pp: self.items[self.i][0]}

    def observe(self, t, s):
        if self.presenting and s[self.pr]:
            self.accepted.append((t, self.items[self.i][0]))
            self.i += 1
            self.presenting = False
            if self.i < len(self.items):
                self.wait = self.items[self.i][1]
            else:
                self.done_at = t
        return False

    @property
    def done(self):
        return self.i >= len(self.items)


def frame_bits(byte):
    """ 8N1: start(0), 8 data bits LSB first, stop(1) """
    return [0] + [(byte >> i) & 1 for i in range(8)] + [1]


class UARTSink:
    def __init__(self, pin="tx"):
        self.pin = pin
        self.line = []

    def observe(self, t, s):
        self.line.append(s[self.pin])
        return False

    def analyse(self, divisor, expected, start_from=0):
        """
        expected: list of byte values in the order they must be framed.
        Returns (frames, problem): frames = list of start cycles; problem = None or
        (kind, cycle, message, extra) with kind in {"frame", "bytes", "spurious", "missing"}.
        """
        line = self.line
        n = len(line)
        frames = []
        t = start_from
        k = 0
        while t < n:
            if line[t] == 1:
                t += 1
                continue
            # a start bit begins at t
            if k >= len(expected):
                return frames, ("spurious", t, f"line goes low at cycle {t} although all {len(expected)} accepted bytes "
                                f"have been framed", {})
            frames.append(t)
            if t + 10 * divisor > n:
                return frames, ("truncated", t, "recording ended inside a frame", {})
            exp = frame_bits(expected[k])
            # decode by majority of each bit window, to tell wrong data from wrong timing
            mismatch = None
            for j in range(10 * divisor):
                if line[t + j] != exp[j // divisor]:
                    mismatch = j
                    break
            if mismatch is not None:
                # is it a well-timed frame carrying another byte?
                windows = [line[t + b * divisor: t + (b + 1) * divisor] for b in range(10)]
                well_timed = all(len(set(w)) == 1 for w in windows) and windows[0][0] == 0 and windows[9][0] == 1
                if well_timed:
                    got = sum(windows[1 + i][0] << i for i in range(8))
                    return frames, ("bytes", t + mismatch, f"frame #{k} starting at cycle {t} carries 0x{got:02x}, "
                                    f"expected 0x{expected[k]:02x}", {"bit": mismatch // divisor})
                b = mismatch // divisor
                # how long was the previous bit value actually held?
                return frames, ("frame", t + mismatch, f"frame #{k} (byte 0x{expected[k]:02x}) starting at cycle {t}: line="
                                f"{line[t + mismatch]} at offset {mismatch} (bit slot {b}, cycle {mismatch % divisor} of "
                                f"{divisor}), expected {exp[b]}", {"bit": b, "offset_in_bit": mismatch % divisor})
            t += 10 * divisor
            k += 1
        if k < len(expected):
            return frames, ("missing", n, f"only {k} of {len(expected)} accepted bytes were framed", {})
        return frames, None
