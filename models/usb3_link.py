"""
models.usb3_link -- LUNA-independent reference code for the USB3 link-layer checks (C35..C40).

Written from the USB 3.x specification (chapter 7: link layer): K-symbols and framing ordered sets, the
CRC-5 of link command / link control words, the CRC-16 of header packets, the CRC-32 of data packet
payloads, builders and parsers for link commands, header packets and data packet payloads (DPP), a
symbol-stream segmenter, and `SSPartner`, the link-partner actor at the 32-bit word level.

Nothing is imported from LUNA or usb_protocol.  The CRC bit conventions (LSB first, all-ones preset,
inverted, bit-reversed) were validated against header/data packets captured from real hardware (see
`selftest()`).

Word convention: a 32-bit word carries four symbols, the first one transmitted in bits 7:0; `ctrl` bit i
says that symbol i is a K (control) symbol.
"""

# --------------------------------------------------------------------------------------------------
# symbols (K x.y = (y << 5) | x)
# --------------------------------------------------------------------------------------------------
SKP, SDP, EDB, SUB, COM, RSD = 0x3C, 0x5C, 0x7C, 0x9C, 0xBC, 0xDC
SHP, END, SLC, EPF = 0xFB, 0xFD, 0xFE, 0xF7
K_SYMBOLS = (SKP, SDP, EDB, SUB, COM, RSD, SHP, END, SLC, EPF)


def word(s0, s1, s2, s3):
    return s0 | (s1 << 8) | (s2 << 16) | (s3 << 24)


LCSTART = (word(SLC, SLC, SLC, EPF), 0xF)
HPSTART = (word(SHP, SHP, SHP, EPF), 0xF)
DPPSTART = (word(SDP, SDP, SDP, EPF), 0xF)
DPPEND = (word(END, END, END, EPF), 0xF)
DPPABORT = (word(EDB, EDB, EDB, EPF), 0xF)
IDLE = (0, 0)

# link commands: bits 10:9 class, 8:7 type  -> 4-bit "command"; bits 3:0 subtype  (table 7-4)
LGOOD, LCRD, LRTY, LBAD, LGO_U, LAU, LXU, LPMA, LUP, LDN = 0, 1, 2, 3, 4, 5, 6, 7, 8, 11
LCMD_NAMES = {LGOOD: "LGOOD", LCRD: "LCRD", LRTY: "LRTY", LBAD: "LBAD", LGO_U: "LGO_U", LAU: "LAU", LXU: "LXU",
              LPMA: "LPMA", LUP: "LUP", LDN: "LDN"}

HP_TYPE_LINK_MANAGEMENT, HP_TYPE_TRANSACTION, HP_TYPE_DATA, HP_TYPE_ITP = 0, 4, 8, 12


def lcmd_name(cmd, sub):
    n = LCMD_NAMES.get(cmd, f"CMD{cmd}")
    if cmd == LGOOD:
        return f"LGOOD_{sub}"
    if cmd == LCRD:
        return "LCRD_" + "ABCD"[sub] if sub < 4 else f"LCRD_{sub}"
    return n if sub == 0 else f"{n}.{sub}"


# --------------------------------------------------------------------------------------------------
# CRCs (bit-serial; "reflected" USB convention: LSB first, preset to ones, remainder inverted and sent
# most-significant remainder bit first, i.e. bit-reversed when written as a little-endian field)
# --------------------------------------------------------------------------------------------------
def _crc_bits(bits, poly, width):
    reg = (1 << width) - 1
    top = 1 << (width - 1)
    mask = (1 << width) - 1
    for b in bits:
        fb = (1 if reg & top else 0) ^ b
        reg = (reg << 1) & mask
        if fb:
            reg ^= poly
    reg ^= mask
    out = 0
    for i in range(width):
        if reg & (1 << i):
            out |= 1 << (width - 1 - i)
    return out


def crc5(value11):
    """ CRC-5 (x^5 + x^2 + 1) of the 11 low bits of a link command word / link control word. """
    return _crc_bits([(value11 >> i) & 1 for i in range(11)], 0x05, 5)


def _byte_bits(data):
    for x in data:
        for i in range(8):
            yield (x >> i) & 1


def crc16(data):
    """ CRC-16 (x^16 + x^12 + x^3 + x + 1) of the 12 header bytes. """
    return _crc_bits(_byte_bits(data), 0x100B, 16)


def crc32(data):
    """ CRC-32 (04C11DB7h) of a data packet payload. """
    return _crc_bits(_byte_bits(data), 0x04C11DB7, 32)


# --------------------------------------------------------------------------------------------------
# link commands
# --------------------------------------------------------------------------------------------------
def lcw(cmd, sub, reserved=0):
    v = (sub & 0xF) | ((reserved & 7) << 4) | ((cmd & 0xF) << 7)
    return v | (crc5(v) << 11)


def link_command(cmd, sub=0):
    """ -> [(data, ctrl), (data, ctrl)]: LCSTART and the duplicated link command word. """
    w = lcw(cmd, sub)
    return [LCSTART, (w | (w << 16), 0)]


def parse_lcw_word(data, ctrl):
    """ Decodes the word following LCSTART.  -> dict(cmd, sub, reserved) if intact (no K symbols, both copies equal,
    CRC-5 valid), else None. """
    if ctrl != 0:
        return None
    lo, hi = data & 0xFFFF, (data >> 16) & 0xFFFF
    if lo != hi:
        return None
    if crc5(lo & 0x7FF) != (lo >> 11):
        return None
    return {"cmd": (lo >> 7) & 0xF, "sub": lo & 0xF, "reserved": (lo >> 4) & 7}


# --------------------------------------------------------------------------------------------------
# header packets
# --------------------------------------------------------------------------------------------------
def link_control_word(seq, rsvd=0, hub_depth=0, delayed=0, deferred=0):
    v = (seq & 7) | ((rsvd & 7) << 3) | ((hub_depth & 7) << 6) | ((delayed & 1) << 9) | ((deferred & 1) << 10)
    return v | (crc5(v) << 11)


def header_words(dw0, dw1, dw2, seq=0, rsvd=0, hub_depth=0, delayed=0, deferred=0):
    """ -> five (data, ctrl) words: HPSTART, DW0..DW2, DW3 = CRC-16 | link control word << 16. """
    body = b"".join(int(w).to_bytes(4, "little") for w in (dw0, dw1, dw2))
    dw3 = crc16(body) | (link_control_word(seq, rsvd, hub_depth, delayed, deferred) << 16)
    return [HPSTART, (dw0, 0), (dw1, 0), (dw2, 0), (dw3, 0)]


def parse_header(dws):
    """ dws: the four data words following HPSTART (ints).  -> dict with fields and crc validity. """
    dw0, dw1, dw2, dw3 = dws
    body = b"".join(int(w).to_bytes(4, "little") for w in (dw0, dw1, dw2))
    lc = dw3 >> 16
    return {
        "dw0": dw0, "dw1": dw1, "dw2": dw2, "dw3": dw3,
        "crc16": dw3 & 0xFFFF, "crc16_ok": crc16(body) == (dw3 & 0xFFFF),
        "seq": lc & 7, "rsvd": (lc >> 3) & 7, "hub_depth": (lc >> 6) & 7, "delayed": (lc >> 9) & 1,
        "deferred": (lc >> 10) & 1, "crc5": lc >> 11, "crc5_ok": crc5(lc & 0x7FF) == (lc >> 11),
        "type": dw0 & 0x1F, "data_length": dw1 >> 16,
    }


def data_header_dw(rng_bits=None, *, length, address=0, route=0, seq5=0, eob=0, direction=0, ep=0, setup=0, stream=0, pp=0):
    dw0 = HP_TYPE_DATA | ((route & 0xFFFFF) << 5) | ((address & 0x7F) << 25)
    dw1 = (seq5 & 31) | ((eob & 1) << 6) | ((direction & 1) << 7) | ((ep & 15) << 8) | ((setup & 1) << 15) | ((length & 0xFFFF) << 16)
    dw2 = (stream & 0xFFFF) | ((pp & 1) << 27)
    return dw0, dw1, dw2


# --------------------------------------------------------------------------------------------------
# data packet payloads
# --------------------------------------------------------------------------------------------------
def symbols_to_words(syms):
    """ syms: list of (byte, is_k).  Pads with logical idle (D0.0) to a word boundary. """
    syms = list(syms)
    while len(syms) % 4:
        syms.append((0, 0))
    out = []
    for i in range(0, len(syms), 4):
        d = c = 0
        for k in range(4):
            d |= syms[i + k][0] << (8 * k)
            c |= (1 if syms[i + k][1] else 0) << k
        out.append((d, c))
    return out


def dpp_words(payload, *, crc=None, abort=False):
    """ DPPSTART, payload, CRC-32 immediately after the last byte, DPPEND (END END END EPF) immediately after the
    CRC, logical idle up to the word boundary.  abort=True: DPPSTART followed by DPPABORT (EDB EDB EDB EPF). """
    if abort:
        return [DPPSTART, DPPABORT]
    c = crc32(payload) if crc is None else crc
    syms = [(b, 0) for b in payload] + [((c >> (8 * i)) & 0xFF, 0) for i in range(4)]
    syms += [(END, 1), (END, 1), (END, 1), (EPF, 1)]
    return [DPPSTART] + symbols_to_words(syms)


def payload_stream_words(payload):
    """ The payload as SuperSpeedStreamInterface beats: [(data, valid_mask, first, last)] (none for an empty payload). """
    out = []
    n = len(payload)
    for i in range(0, n, 4):
        chunk = payload[i:i + 4]
        d = int.from_bytes(chunk + bytes(4 - len(chunk)), "little")
        out.append((d, (1 << len(chunk)) - 1, int(i == 0), int(i + 4 >= n)))
    return out


# --------------------------------------------------------------------------------------------------
# segmenting a word stream (what a transmitter put on the wire) into link commands, headers and DPPs
# --------------------------------------------------------------------------------------------------
class StreamSegmenter:
    """
    Feed the *transferred* words of a stream in order with `push(t, data, ctrl)`; completed items are appended to
    `.items` as dicts:
      {"kind": "lcmd", "t0", "t1", "cmd", "sub", "reserved"}                 intact link command
      {"kind": "lcmd_bad", "t0", "t1", "data", "ctrl"}                        LCSTART followed by a damaged word
      {"kind": "hdr", "t0", "t1", **parse_header()}                           header packet (CRC flags inside)
      {"kind": "dpp", "t0", "t1", "payload": bytes, "crc_ok": bool, "aborted": bool, "tail_ok": bool, "words": [...]}
      {"kind": "idle", "t0", "t1", "n"}                                        run of all-zero data words
      {"kind": "junk", "t0", "t1", "data", "ctrl"}                            anything else (one word)
    """

    def __init__(self):
        self.items = []
        self.state = "idle"
        self.buf = []
        self.t0 = 0

    @property
    def mid_item(self):
        return self.state != "idle"

    def push(self, t, data, ctrl):
        st = self.state
        if st == "idle":
            if (data, ctrl) == LCSTART:
                self.state, self.t0 = "lcmd", t
            elif (data, ctrl) == HPSTART:
                self.state, self.t0, self.buf = "hdr", t, []
            elif (data, ctrl) == DPPSTART:
                self.state, self.t0, self.buf = "dpp", t, []
            elif (data, ctrl) == IDLE:
                if self.items and self.items[-1]["kind"] == "idle" and self.items[-1]["t1"] == t - 1:
                    self.items[-1]["t1"] = t
                    self.items[-1]["n"] += 1
                else:
                    self.items.append({"kind": "idle", "t0": t, "t1": t, "n": 1})
            else:
                self.items.append({"kind": "junk", "t0": t, "t1": t, "data": data, "ctrl": ctrl})
        elif st == "lcmd":
            p = parse_lcw_word(data, ctrl)
            if p is None:
                self.items.append({"kind": "lcmd_bad", "t0": self.t0, "t1": t, "data": data, "ctrl": ctrl})
            else:
                self.items.append({"kind": "lcmd", "t0": self.t0, "t1": t, **p})
            self.state = "idle"
        elif st == "hdr":
            if ctrl != 0:
                self.items.append({"kind": "junk", "t0": self.t0, "t1": t, "data": data, "ctrl": ctrl, "in": "hdr"})
                self.state = "idle"
                return
            self.buf.append(data)
            if len(self.buf) == 4:
                self.items.append({"kind": "hdr", "t0": self.t0, "t1": t, **parse_header(self.buf)})
                self.state = "idle"
        elif st == "dpp":
            # a DPPEND / DPPABORT ordered set may straddle a word boundary (unaligned payloads)
            self.buf.append((data, ctrl))
            syms = self._syms()
            ks = [i for i, s in enumerate(syms) if s[1]]
            if ks and len(syms) - ks[0] >= 4:
                self._finish_dpp(t, syms, ks[0])

    def _syms(self):
        syms = []
        for d, c in self.buf:
            for k in range(4):
                syms.append(((d >> (8 * k)) & 0xFF, (c >> k) & 1))
        return syms

    def _finish_dpp(self, t, syms, first_k):
        body = bytes(s[0] for s in syms[:first_k])
        tail = syms[first_k:first_k + 4]
        rest = syms[first_k + 4:]
        item = {"kind": "dpp", "t0": self.t0, "t1": t, "words": list(self.buf), "aborted": False, "crc_ok": False,
                "payload": b"", "tail_ok": False}
        is_end = tail == [(END, 1), (END, 1), (END, 1), (EPF, 1)]
        is_abort = tail == [(EDB, 1), (EDB, 1), (EDB, 1), (EPF, 1)]
        item["aborted"] = is_abort
        item["tail_ok"] = (is_end or is_abort) and all(s == (0, 0) for s in rest)
        if is_end and len(body) >= 4:
            item["payload"] = body[:-4]
            item["crc_ok"] = crc32(body[:-4]) == int.from_bytes(body[-4:], "little")
        elif is_abort:
            item["payload"] = body
        self.items.append(item)
        self.state = "idle"


DPPSplitSegmenter = StreamSegmenter


# --------------------------------------------------------------------------------------------------
# the link partner actor
# --------------------------------------------------------------------------------------------------
class Pattern:
    """ A literal cyclic 0/1 pattern (ready stalls, valid gaps). """

    def __init__(self, bits):
        self.bits = list(bits) if bits else [1]

    def at(self, t):
        return self.bits[t % len(self.bits)]


class SSPartner:
    """
    USB3 link partner at the 32-bit word level.

    * transmit side (towards a DUT `sink`, monitor-only, no back-pressure): plays `self.txq`, a FIFO of
      (data, ctrl, valid, tag) words; when it is empty it drives `idle_word` (logical idle by default; pass
      idle_valid=0 for "no valid word").  `queue_words()` / `queue_gap()` append to it at any time.
      Every driven word is recorded in `self.sent` as (t, data, ctrl, valid, tag).
    * receive side (a DUT `source` with a `ready` input): drives ready from a literal pattern; every transferred
      word (valid & ready) is recorded in `self.rx_words` and pushed into `self.seg` (a DPPSplitSegmenter); newly
      completed items are handed to `self.on_item(t, item)` (override or assign).
    * `step(t)` is called at the start of every drive() and may queue words / change extra pins via self.pins.

    pin names: prefix + "valid"/"data"/"ctrl" for the sink; `ready_pin`, `src_prefix` + "valid"/"data"/"ctrl"
    for the source.  Either side may be None.
    """

    def __init__(self, *, sink_prefix="sink_", src_prefix="src_", ready_pin="src_ready", ready=None,
                 idle_valid=1, idle_data=0):
        self.sink_prefix, self.src_prefix, self.ready_pin = sink_prefix, src_prefix, ready_pin
        self.ready = Pattern(ready)
        self.idle = (idle_data, 0, idle_valid)
        self.txq = []
        self.sent = []
        self.rx_words = []
        self.seg = DPPSplitSegmenter()
        self._seen_items = 0
        self._valid_since = None
        self._item_tp = None
        self._ready_now = 1
        self.pins = {}
        self.t = 0
        self.ready_override = None

    # ---- transmit helpers ----
    def queue_words(self, words, tag=None):
        for d, c in words:
            self.txq.append((d, c, 1, tag))

    def queue_gap(self, n, data=0, tag=None):
        for _ in range(n):
            self.txq.append((data, 0, 0, tag))

    def step(self, t):
        pass

    def on_item(self, t, item):
        pass

    def on_word(self, t, data, ctrl):
        pass

    def on_sent(self, t, data, ctrl, valid, tag):
        pass

    def drive(self, t):
        self.t = t
        self.step(t)
        d = dict(self.pins)
        self.pins = {}
        if self.sink_prefix is not None:
            if self.txq:
                data, ctrl, valid, tag = self.txq.pop(0)
            else:
                (data, ctrl, valid), tag = self.idle, None
            self.sent.append((t, data, ctrl, valid, tag))
            if tag is not None:
                self.on_sent(t, data, ctrl, valid, tag)
            d[self.sink_prefix + "valid"] = valid
            d[self.sink_prefix + "data"] = data
            d[self.sink_prefix + "ctrl"] = ctrl
        if self.ready_pin is not None:
            r = self.ready.at(t) if self.ready_override is None else self.ready_override
            self._ready_now = r
            d[self.ready_pin] = r
        return d

    def observe(self, t, o):
        """ Items get an extra key "tp": the cycle in which the first word of the item was first *presented*
        (source.valid rose), which may be earlier than "t0" (its transfer) when ready was low. """
        if self.ready_pin is None:
            return False
        if o[self.src_prefix + "valid"]:
            if self._valid_since is None:
                self._valid_since = t
            if self._ready_now:
                data, ctrl = o[self.src_prefix + "data"], o[self.src_prefix + "ctrl"]
                self.rx_words.append((t, data, ctrl, self._valid_since))
                if not self.seg.mid_item:
                    self._item_tp = self._valid_since
                self._valid_since = None
                self.on_word(t, data, ctrl)
                self.seg.push(t, data, ctrl)
                while self._seen_items < len(self.seg.items):
                    it = self.seg.items[self._seen_items]
                    self._seen_items += 1
                    it["tp"] = self._item_tp
                    self.on_item(t, it)
        else:
            self._valid_since = None
        return False

    @property
    def presenting_since(self):
        """ cycle since which the source has been presenting a not-yet-accepted word (None if it is not) """
        return self._valid_since


# --------------------------------------------------------------------------------------------------
def selftest():
    """ Vectors: header and data packets recorded from real hardware (as quoted in the USB3 literature / LUNA's tests
    as raw words) and zlib's CRC-32. """
    import zlib
    hdrs = [(0x00000280, 0x00010004, 0x00000000, 0x10001845), (0x32000008, 0x00010000, 0x08000000, 0xE801A822),
            (0x34000008, 0x00020000, 0x08000000, 0xD005A242), (0x00000008, 0x00088000, 0x08000000, 0xA8023E0F)]
    for h in hdrs:
        p = parse_header(h)
        assert p["crc16_ok"] and p["crc5_ok"], h
        assert header_words(h[0], h[1], h[2], p["seq"], p["rsvd"], p["hub_depth"], p["delayed"], p["deferred"])[4][0] == h[3]
    for data in (b"", b"\xff", b"\xaa\xbb", bytes([0, 5, 0x1e, 0, 0, 0, 0, 0]), bytes(range(37))):
        assert crc32(data) == zlib.crc32(data)
    assert dpp_words(b"\xff") == [DPPSTART, (0x000000FF, 0), (0xFDFDFDFF, 0b1110), (0x000000F7, 0b0001)]
    assert dpp_words(b"\xaa\xbb")[1:3] == [(0x2C98BBAA, 0), (0xFDFD4982, 0b1100)]
    assert dpp_words(bytes([0, 5, 0x1e, 0, 0, 0, 0, 0]))[1:] == [(0x001E0500, 0), (0, 0), (0x0EC69325, 0), DPPEND]
    seg = DPPSplitSegmenter()
    t = 0
    for w in link_command(LCRD, 2) + header_words(*hdrs[1][:3], seq=1) + dpp_words(b"\xff") + [IDLE, IDLE]:
        seg.push(t, *w)
        t += 1
    kinds = [i["kind"] for i in seg.items]
    assert kinds == ["lcmd", "hdr", "dpp", "idle"], kinds
    assert seg.items[2]["payload"] == b"\xff" and seg.items[2]["crc_ok"] and seg.items[2]["tail_ok"]
    return True
