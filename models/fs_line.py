"""
models.fs_line -- full-speed USB line signalling, written from USB 2.0 chapter 7 (independent of LUNA):
NRZI + bit stuffing + SYNC/EOP encoding into a D+/D- waveform that is *sampled* at the 48 MHz ticks of the
device with a given sub-tick phase and a clock-rate error, and the inverse decoder for what a PHY drives.

Line states as (d_p, d_n): J = (1, 0), K = (0, 1), SE0 = (0, 0).
All arithmetic is integer (time unit = 1e-6 of a 48 MHz tick), so a waveform is a pure function of its literals.
"""

J, K, SE0, SE1 = (1, 0), (0, 1), (0, 0), (1, 1)
SYNC_BITS = [0, 0, 0, 0, 0, 0, 0, 1]
TICKS_PER_BIT = 4
UNIT = 1_000_000


def data_bits(data):
    return [(b >> i) & 1 for b in bytes(data) for i in range(8)]


def stuff(bits, ones=0):
    """ inserts a 0 after every six consecutive 1s; `ones` = number of 1s already seen before the first bit
        (1 if the closing bit of the SYNC pattern is counted, as USB 2.0 7.1.9 does) -> (stuffed bits, positions of stuffed bits) """
    out = []
    where = []
    for b in bits:
        out.append(b)
        if b:
            ones += 1
            if ones == 6:
                where.append(len(out))
                out.append(0)
                ones = 0
        else:
            ones = 0
    return out, where


def nrzi_states(bits, start=J):
    """ 0 = transition, 1 = no transition """
    cur = start
    out = []
    for b in bits:
        if not b:
            cur = K if cur == J else J
        out.append(cur)
    return out


def packet_states(data, count_sync_one=True, break_stuff_at=None):
    """ line state per bit time for SYNC + stuffed data + EOP (SE0, SE0, J).
        break_stuff_at=i : the i-th stuffed 0 is sent as a 1 instead (a bit-stuffing violation: seven 1s in a row) """
    body, where = stuff(data_bits(data), ones=1 if count_sync_one else 0)
    if break_stuff_at is not None and where:
        body[where[break_stuff_at % len(where)]] = 1
    return nrzi_states(SYNC_BITS + body) + [SE0, SE0, J], len(where)


def sample_waveform(states, phase_u, ppm):
    """ samples a sequence of bit-time line states at integer tick times.  The first bit starts `phase_u` (0..UNIT-1,
        in 1e-6 tick) after tick 0; one bit lasts 4 * (1 + ppm * 1e-6) ticks.  -> [(d_p, d_n)] for ticks 0 .. end;
        ticks before the first bit see J (idle). """
    bit_u = TICKS_PER_BIT * (UNIT + ppm)
    total_u = phase_u + bit_u * len(states)
    out = []
    n = 0
    while n * UNIT < total_u:
        t_u = n * UNIT - phase_u
        out.append(J if t_u < 0 else states[t_u // bit_u])
        n += 1
    return out


def decode_driven(samples):
    """ samples: [(d_p, d_n)] for the consecutive ticks during which the PHY drove the line.
        -> (states per bit, ok_timing) where every run must be a multiple of 4 ticks """
    runs = []
    for s in samples:
        if runs and runs[-1][0] == s:
            runs[-1][1] += 1
        else:
            runs.append([s, 1])
    states = []
    ok = True
    for s, n in runs:
        if n % TICKS_PER_BIT:
            ok = False
        states += [s] * max(1, (n + TICKS_PER_BIT // 2) // TICKS_PER_BIT)
    return states, ok


def states_to_bytes(states):
    """ best-effort inverse (for messages only): SYNC + stuffed NRZI -> bytes (ignoring the sync one for stuffing) """
    bits = []
    prev = J
    for s in states:
        if s == SE0:
            break
        bits.append(1 if s == prev else 0)
        prev = s
    bits = bits[8:]
    out = []
    ones = 0
    skip = False
    for b in bits:
        if skip:
            skip = False
            ones = 0
            continue
        out.append(b)
        if b:
            ones += 1
            if ones == 6:
                skip = True
        else:
            ones = 0
    by = bytearray()
    for i in range(0, len(out) - 7, 8):
        by.append(sum(out[i + j] << j for j in range(8)))
    return bytes(by)
