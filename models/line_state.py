"""
models.line_state -- the USB line as a UTMI PHY reports it (line_state, VBUS) plus the device-side strap inputs of the
reset sequencer, played from a literal op list; and small helpers to query piecewise-constant histories.

Ops (all numbers literal, from the scenario):
  {"op": "seg",   "ls": 0..3, "n": cycles}                        hold a line state for n cycles
  {"op": "set",   "pin": name, "v": 0|1}                          change vbus_connected / low_speed_only / full_speed_only /
                                                                  disconnect / bus_busy now (zero duration)
  {"op": "until", "event": "chirp_start"|"chirp_end"|"reset"|"suspend"|"hs"|"settled", "ls": 0..3, "max": n, "after": k}
                                                                  hold a line state until the device shows the event
                                                                  (adaptive *inside* the op; nothing random), then k more cycles
                                                                  ("settled" is a level, not an edge: the device shows FS/LS normal
                                                                  mode or HS operation, i.e. it is not in chirp mode; true at once
                                                                  if it already holds when the op starts)
The actor also records every output change of the device (cheap change log instead of a per-cycle trace).
"""

from bisect import bisect_right

SE0, J_FS, K_FS, SE1 = 0, 1, 2, 3

PINS = ("vbus_connected", "low_speed_only", "full_speed_only", "disconnect", "bus_busy")


class Steps:
    """ a piecewise-constant history given by its change points [(t, value), ...] (t ascending, first t == 0) """

    def __init__(self, changes):
        self.ts = [c[0] for c in changes]
        self.vs = [c[1] for c in changes]

    def at(self, t):
        i = bisect_right(self.ts, t) - 1
        return self.vs[max(i, 0)]

    def run_start(self, t, pred):
        """ first cycle of the maximal run ending at cycle t (inclusive) throughout which pred(value) holds;
            None if pred does not hold at t """
        i = max(bisect_right(self.ts, t) - 1, 0)
        if not pred(self.vs[i]):
            return None
        while i > 0 and pred(self.vs[i - 1]):
            i -= 1
        return self.ts[i]

    def run_len(self, t, pred):
        s = self.run_start(t, pred)
        return 0 if s is None else t - s + 1

    def intervals(self, pred, end):
        """ [(t0, t1)] half-open maximal intervals where pred holds, up to cycle `end` """
        out = []
        cur = None
        for i, (t, v) in enumerate(zip(self.ts, self.vs)):
            if pred(v):
                if cur is None:
                    cur = t
            elif cur is not None:
                out.append((cur, t))
                cur = None
        if cur is not None:
            out.append((cur, end))
        return out


class LineState:
    OUT_FIELDS = ("bus_reset", "suspended", "speed", "op_mode", "term", "tx_valid")

    def __init__(self, ops, init_pins, tail=8):
        self.ops = ops
        self.i = 0
        self.left = 0
        self.until = None
        self.pins = dict(init_pins)
        self.ls = J_FS
        self.ls_changes = [(0, J_FS)]
        self.pin_changes = {p: [(0, self.pins[p])] for p in PINS}
        self.out_changes = []
        self.prev = None
        self.flags = {"chirp_start": False, "chirp_end": False, "reset": False, "suspend": False, "hs": False,
                      "settled": False}
        self.done = False
        self.tail = tail
        self.t_done = None
        self.fired = {}

    def _set_ls(self, t, ls):
        if ls != self.ls:
            self.ls = ls
            if self.ls_changes[-1][0] == t:
                self.ls_changes[-1] = (t, ls)
            else:
                self.ls_changes.append((t, ls))

    def drive(self, t):
        if self.left > 0:
            self.left -= 1
            return None
        if self.until is not None:
            ev, mx, after = self.until
            if self.flags[ev] or mx <= 0:
                self.until = None
                if after > 0:
                    self.left = after - 1
                    return None
            else:
                self.until[1] = mx - 1
                return None
        out = None
        while self.i < len(self.ops):
            op = self.ops[self.i]
            self.i += 1
            k = op["op"]
            if k == "set":
                self.pins[op["pin"]] = op["v"]
                ch = self.pin_changes[op["pin"]]
                if ch[-1][0] == t:
                    ch[-1] = (t, op["v"])
                else:
                    ch.append((t, op["v"]))
                out = out or {}
                out[op["pin"]] = op["v"]
                continue
            if k == "seg":
                if op["n"] <= 0:
                    continue
                self._set_ls(t, op["ls"])
                self.left = op["n"] - 1
            elif k == "until":
                self._set_ls(t, op["ls"])
                for f in self.flags:
                    self.flags[f] = False
                self.flags["settled"] = self._settled(self.prev)
                self.until = [op["event"], op.get("max", 130000), op.get("after", 0)]
            else:
                raise ValueError(k)
            out = out or {}
            out["line_state"] = self.ls
            return out
        if not self.done:
            self.done = True
            self.t_done = t
        return out

    @staticmethod
    def _settled(o):
        """ level: normal operating mode with the termination that matches the speed (HS, or FS/LS) """
        if o is None:
            return False
        return o[3] == 0 and ((o[2] == 0 and o[4] == 0) or (o[2] != 0 and o[4] == 1))

    def observe(self, t, s):
        o = (s["bus_reset"], s["suspended"], s["speed"], s["op_mode"], s["term"], s["tx_valid"])
        p = self.prev
        if o != p:
            self.out_changes.append((t, o))
            self.flags["settled"] = self._settled(o)
            if p is not None:
                f = self.flags
                if o[5] and not p[5]:
                    f["chirp_start"] = True
                if p[5] and not o[5]:
                    f["chirp_end"] = True
                if o[0] and not p[0]:
                    f["reset"] = True
                if o[1] and not p[1]:
                    f["suspend"] = True
                if o[2] == 0 and o[3] == 0 and o[4] == 0 and not (p[2] == 0 and p[3] == 0 and p[4] == 0):
                    f["hs"] = True
            self.prev = o
        if self.done:
            return t - self.t_done >= self.tail
        return False
