""" Command-line entry: `check <ID> [--tier quick|thorough] [--replay FILE] [--runs N] [--jobs J] [--wall S]` """
import os
import sys
import argparse

sys.dont_write_bytecode = True


def main(argv=None):
    ap = argparse.ArgumentParser(prog="check")
    ap.add_argument("property")
    ap.add_argument("--tier", default=os.environ.get("VERIF_TIER", "quick"), choices=["quick", "thorough"])
    ap.add_argument("--replay")
    ap.add_argument("--runs", type=int)
    ap.add_argument("--jobs", type=int)
    ap.add_argument("--wall", type=float)
    args = ap.parse_args(argv)

    from dsim import runner, selftest
    prop = args.property
    if prop.startswith("selftest"):
        return selftest.main(prop, args)
    prop = prop.upper()
    if args.replay:
        return runner.replay(prop, args.replay)
    seed = int(os.environ.get("VERIF_SEED", "0") or 0)
    return runner.search(prop, args.tier, seed, jobs=args.jobs, runs=args.runs, wall=args.wall)


if __name__ == "__main__":
    try:
        rc = main()
    except SystemExit:
        raise
    except BaseException:
        import traceback
        traceback.print_exc()
        print("HARNESS-ERROR: uncaught exception in the runner")
        rc = 2
    sys.stdout.flush()
    os._exit(rc)
