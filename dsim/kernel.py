"""
dsim.kernel -- the deterministic simulation kernel.

One `Bench` wraps one elaborated LUNA design inside Amaranth's pysim engine and owns *every* input of
it: clocks, resets and pins.  The external parties ("actors") are plain Python objects that are stepped
from one loop, in a fixed order, once per cycle of the bench's main clock domain:

    for t in 0, 1, 2, ...:
        drive   = union of actor.drive(t)        # decisions based only on observations of cycles < t
        apply drive to the DUT input pins, settle combinational logic
        sample  = values of all observed DUT signals in cycle t (what the coming clock edge will see)
        actor.observe(t, sample)  for every actor (monitors included); any may request a stop
        active clock edge

There is exactly one thread, no wall clock and no randomness in here: a run is a pure function of the
design and of the actors' (scenario-derived) behaviour.  Every cycle's inputs and outputs are folded into
a BLAKE2 digest, which is what the determinism self-tests and replay compare.

Two back ends drive the engine:

* fast (default): pokes pysim's signal slots directly and calls `step_design()` once per cycle.  ~4x
  faster than the public API because the public `ctx.set` re-settles the design after every single pin.
* public (`DSIM_PUBLIC_API=1`): the same loop written with `Simulator.add_testbench` / `ctx.set` /
  `ctx.get` / `ctx.tick`.  Used by `selftest` to show both give bit-identical event logs.
"""

import os
import hashlib
import warnings

from amaranth import Signal, Value
from amaranth.hdl import Fragment
from amaranth.sim import Simulator

warnings.filterwarnings("ignore", category=DeprecationWarning)

PUBLIC_API = bool(os.environ.get("DSIM_PUBLIC_API"))


class StopRun(Exception):
    pass


def _walk_fragments(frag, seen=None):
    if seen is None:
        seen = set()
    if id(frag) in seen:
        return
    seen.add(id(frag))
    yield frag
    for sub, *_ in frag.subfragments:
        yield from _walk_fragments(sub, seen)


def find_fsm_state_signals(fragment):
    """ Returns the FSM state registers of a design, in a deterministic order (read-only introspection). """
    found = []
    seen = set()
    for frag in _walk_fragments(fragment):
        stmts = frag.statements
        groups = stmts.values() if isinstance(stmts, dict) else [stmts]
        for group in groups:
            for stmt in group:
                try:
                    lhs = stmt._lhs_signals()
                except Exception:
                    continue
                for sig in lhs:
                    if id(sig) in seen:
                        continue
                    seen.add(id(sig))
                    if isinstance(sig, Signal) and sig.name.endswith("_state") and sig.decoder is not None:
                        found.append(sig)
    return found


class Bench:
    """ One elaborated design + clocks + named input/output pins. """

    def __init__(self, dut, *, clocks, main, ins, outs, track_fsm=True):
        """
        clocks: {domain_name: period_seconds or (period_seconds, phase_seconds)}
        main:   name of the domain whose rising edge delimits a cycle (use the fastest one)
        ins:    {name: Signal}  -- DUT inputs (each written only by the scheduler)
        outs:   {name: Signal}  -- observed DUT signals
        """
        self.dut = dut
        self.fragment = Fragment.get(dut, None)
        self.sim = Simulator(self.fragment)
        self.main = main
        self._clock_specs = dict(clocks)
        for name, spec in clocks.items():
            if isinstance(spec, tuple):
                period, phase = spec
                self.sim.add_clock(period, phase=phase, domain=name)
            else:
                self.sim.add_clock(spec, domain=name)
        self.in_names = list(ins.keys())
        self.in_sigs = [ins[n] for n in self.in_names]
        self.out_names = list(outs.keys())
        self.out_sigs = [outs[n] for n in self.out_names]
        self.domains = self.sim._design.fragment.domains
        self.fsm_sigs = find_fsm_state_signals(self.sim._design.fragment) if track_fsm else []

        eng = self.sim._engine
        st = eng._state
        self._eng = eng
        self._in_slots = [st.slots[st.get_signal(s)] for s in self.in_sigs]
        self._in_masks = [(1 << len(s)) - 1 for s in self.in_sigs]
        # observed values may be plain Signals (fast path: read the slot) or arbitrary Value expressions
        # such as a field of a struct-shaped signal (evaluated through the engine)
        self.out_sigs = [s if isinstance(s, Signal) else Value.cast(s) for s in self.out_sigs]
        self._out_expr = [(i, s) for i, s in enumerate(self.out_sigs) if not isinstance(s, Signal)]
        self._out_slots = [st.slots[st.get_signal(s)] if isinstance(s, Signal) else None for s in self.out_sigs]
        self._out_signed = [s.shape().signed for s in self.out_sigs]
        self._fsm_slots = [st.slots[st.get_signal(s)] for s in self.fsm_sigs]
        self._clk_slot = st.slots[st.get_signal(self.domains[main].clk)]
        self._used = False
        self._tb_installed = False
        self._job = None

    # ------------------------------------------------------------------------------------------
    def fsm_names(self):
        return [s.name for s in self.fsm_sigs]

    def run(self, actors, max_cycles, *, init=None):
        """
        Runs one simulation from reset.  `actors` is a list of objects with optional methods
        drive(t) -> dict|None and observe(t, sample_dict) -> truthy to request stop.
        Returns a RunLog.
        """
        log = RunLog(self)
        if PUBLIC_API:
            self._run_public(actors, max_cycles, init or {}, log)
        else:
            self._run_fast(actors, max_cycles, init or {}, log)
        return log

    # ------------------------------------------------------------------------------------------
    def _run_fast(self, actors, max_cycles, init, log):
        eng = self._eng
        if self._used:
            self.sim.reset()
        self._used = True

        in_index = {n: i for i, n in enumerate(self.in_names)}
        cur = [s.init for s in self.in_sigs]
        for k, v in init.items():
            cur[in_index[k]] = v
        in_slots, in_masks = self._in_slots, self._in_masks
        out_slots, out_names = self._out_slots, self.out_names
        out_expr = self._out_expr
        fsm_slots = self._fsm_slots
        clk = self._clk_slot
        h = hashlib.blake2b(digest_size=16)
        fsm_seen = log.fsm_vectors
        drivers = [a.drive for a in actors if hasattr(a, "drive")]
        observers = [a.observe for a in actors if hasattr(a, "observe")]
        reactors = [a.react for a in actors if hasattr(a, "react")]

        for i, v in enumerate(cur):
            in_slots[i].update(v & in_masks[i])

        # advance to just after the first rising edge of the main clock
        prev = clk.curr
        while True:
            eng.advance()
            c = clk.curr
            if c and not prev:
                break
            prev = c
        prev = 1

        t = 0
        stop = False
        while t < max_cycles and not stop:
            for drive in drivers:
                d = drive(t)
                if d:
                    for k, v in d.items():
                        i = in_index[k]
                        v &= in_masks[i]
                        if cur[i] != v:
                            cur[i] = v
                            in_slots[i].update(v)
            eng.step_design()
            if out_expr:
                vals = [sl.curr if sl is not None else 0 for sl in out_slots]
                for i, e in out_expr:
                    vals[i] = eng.get_value(e)
            else:
                vals = [sl.curr for sl in out_slots]
            sample = dict(zip(out_names, vals))
            if reactors:
                # combinational environment: an actor may answer the settled outputs of this very cycle (e.g. user logic
                # that gates a request with the DUT's `idle` output); one pass, then the design is re-settled
                changed = False
                for react in reactors:
                    d = react(t, sample)
                    if d:
                        for k, v in d.items():
                            i = in_index[k]
                            v &= in_masks[i]
                            if cur[i] != v:
                                cur[i] = v
                                in_slots[i].update(v)
                                changed = True
                if changed:
                    eng.step_design()
                    if out_expr:
                        vals = [sl.curr if sl is not None else 0 for sl in out_slots]
                        for i, e in out_expr:
                            vals[i] = eng.get_value(e)
                    else:
                        vals = [sl.curr for sl in out_slots]
                    sample = dict(zip(out_names, vals))
            h.update(repr((cur, vals)).encode())
            if fsm_slots:
                fsm_seen.add(tuple(sl.curr for sl in fsm_slots))
            for observe in observers:
                if observe(t, sample):
                    stop = True
            t += 1
            # next rising edge of the main clock
            while True:
                eng.advance()
                c = clk.curr
                if c and not prev:
                    prev = c
                    break
                prev = c
        log.cycles = t
        log.digest = h.hexdigest()

    # ------------------------------------------------------------------------------------------
    def _run_public(self, actors, max_cycles, init, log):
        """ Same semantics through the documented simulator API only. """
        sim = self.sim        # fresh per run: cached_bench() does not cache in this mode
        raise_later = []
        in_index = {n: i for i, n in enumerate(self.in_names)}
        cur = [s.init for s in self.in_sigs]
        for k, v in init.items():
            cur[in_index[k]] = v
        h = hashlib.blake2b(digest_size=16)
        drivers = [a.drive for a in actors if hasattr(a, "drive")]
        observers = [a.observe for a in actors if hasattr(a, "observe")]
        reactors = [a.react for a in actors if hasattr(a, "react")]
        bench = self

        async def tb(ctx):
            for i, v in enumerate(cur):
                ctx.set(bench.in_sigs[i], v & bench._in_masks[i])
            await ctx.tick(bench.main)
            t = 0
            stop = False
            while t < max_cycles and not stop:
                for drive in drivers:
                    d = drive(t)
                    if d:
                        for k, v in d.items():
                            i = in_index[k]
                            v &= bench._in_masks[i]
                            if cur[i] != v:
                                cur[i] = v
                                ctx.set(bench.in_sigs[i], v)
                vals = []
                for s, signed in zip(bench.out_sigs, bench._out_signed):
                    v = ctx.get(s)
                    vals.append(int(v))
                sample = dict(zip(bench.out_names, vals))
                if reactors:
                    changed = False
                    for react in reactors:
                        d = react(t, sample)
                        if d:
                            for k, v in d.items():
                                i = in_index[k]
                                v &= bench._in_masks[i]
                                if cur[i] != v:
                                    cur[i] = v
                                    ctx.set(bench.in_sigs[i], v)
                                    changed = True
                    if changed:
                        vals = [int(ctx.get(s)) for s in bench.out_sigs]
                        sample = dict(zip(bench.out_names, vals))
                h.update(repr((cur, vals)).encode())
                if bench.fsm_sigs:
                    log.fsm_vectors.add(tuple(int(ctx.get(s)) for s in bench.fsm_sigs))
                try:
                    for observe in observers:
                        if observe(t, sample):
                            stop = True
                except BaseException as e:      # surface harness errors outside the coroutine
                    raise_later.append(e)
                    stop = True
                t += 1
                await ctx.tick(bench.main)
            log.cycles = t

        sim.add_testbench(tb)
        sim.run()
        if raise_later:
            raise raise_later[0]
        log.digest = h.hexdigest()


class RunLog:
    def __init__(self, bench):
        self.cycles = 0
        self.digest = None
        self.fsm_vectors = set()


def make_bench(dut, *, clocks, main, ins, outs, track_fsm=True):
    return Bench(dut, clocks=clocks, main=main, ins=ins, outs=outs, track_fsm=track_fsm)


# ----------------------------------------------------------------------------------------------
# Bench cache: elaboration + pysim compilation cost 0.1-0.6 s per design; scenarios that share a
# configuration re-use the compiled design through Simulator.reset().
# ----------------------------------------------------------------------------------------------
_BENCH_CACHE = {}
_BENCH_CACHE_ORDER = []
BENCH_CACHE_SIZE = 6


def cached_bench(key, factory):
    """ factory() -> Bench.  `key` must capture everything that influences elaboration. """
    if PUBLIC_API:
        return factory()
    b = _BENCH_CACHE.get(key)
    if b is None:
        b = factory()
        _BENCH_CACHE[key] = b
        _BENCH_CACHE_ORDER.append(key)
        if len(_BENCH_CACHE_ORDER) > BENCH_CACHE_SIZE:
            old = _BENCH_CACHE_ORDER.pop(0)
            _BENCH_CACHE.pop(old, None)
    return b


# ----------------------------------------------------------------------------------------------
# Actor helpers
# ----------------------------------------------------------------------------------------------
class GenActor:
    """
    Wraps a generator function into an actor.  The generator receives the sample of each cycle via
    `sample = yield drive_dict` : it yields the pins it wants to drive in the *next* cycle and is resumed
    with what the DUT showed in that cycle.  The first `next()` primes it (cycle 0 drive).
    When the generator returns, the actor keeps its last drive and (if `stop_when_done`) requests a stop.
    """

    def __init__(self, genfunc, *, stop_when_done=False):
        self._gen = genfunc
        self._pending = None
        self._done = False
        self.stop_when_done = stop_when_done
        try:
            self._pending = next(self._gen)
        except StopIteration:
            self._done = True

    @property
    def done(self):
        return self._done

    def drive(self, t):
        d, self._pending = self._pending, None
        return d

    def observe(self, t, sample):
        if self._done:
            return self.stop_when_done
        try:
            self._pending = self._gen.send(sample)
        except StopIteration:
            self._done = True
            return self.stop_when_done
        return False


class Violations:
    """ Collects oracle violations of one run.  Only the earliest one is classified by the runner. """

    def __init__(self, limit=20):
        self.items = []
        self.limit = limit

    def add(self, rule, cycle, msg, **shape):
        if len(self.items) < self.limit:
            self.items.append({"rule": rule, "cycle": int(cycle), "msg": str(msg)[:600], "shape": shape})

    def __bool__(self):
        return bool(self.items)
