def main(prop, args):
    print("selftest not yet implemented")
    return 0
