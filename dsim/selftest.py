"""
Self-tests of the machinery (not property checks):

  ./check selftest-determinism [--runs N]   every implemented check: N scenarios executed twice in this process, once in a
                                            fresh interpreter with another PYTHONHASHSEED, and once through the public
                                            Simulator API (DSIM_PUBLIC_API=1); all event-log digests must agree.
  ./check selftest-schema                   MANIFEST.json and every evidence file validate against the schemas.
"""
import os
import sys
import json
import glob
import random
import subprocess

from . import runner


def _digests(prop, n, tier="quick", base=0):
    mod = runner.load_check(prop)
    out = []
    for i in range(n):
        scn = runner.regenerate(mod, prop, tier, base, i)
        r = runner.execute(mod, scn)
        if "error" in r:
            out.append("ERROR:" + r["error"].splitlines()[-1])
        else:
            out.append(f"{r['digest']}:{(r['first'] or {}).get('rule')}:{(r['first'] or {}).get('cycle')}")
    return out


def _fresh(prop, n, extra_env):
    env = dict(os.environ)
    env.update(extra_env)
    env["PYTHONPATH"] = f"{runner.VERIF_DIR}:/repo"
    code = ("import sys,json; sys.dont_write_bytecode=True; from dsim import selftest; "
            f"print('DIGESTS', json.dumps(selftest._digests({prop!r}, {n})))")
    p = subprocess.run([sys.executable, "-B", "-c", code], env=env, capture_output=True, text=True, cwd=runner.VERIF_DIR,
                       timeout=1800)
    for line in p.stdout.splitlines():
        if line.startswith("DIGESTS "):
            return json.loads(line[8:])
    return ["NO-OUTPUT: " + p.stderr[-300:]]


def main(name, args):
    if name == "selftest-schema":
        # jsonschema lives in the tooling venv (python3-vt), not in /venv
        code = (
            "import json,glob,jsonschema,sys\n"
            "ok=True\n"
            "jsonschema.validate(json.load(open('%s/MANIFEST.json')), json.load(open('/root/.vp/MANIFEST.schema.json')))\n"
            "sch=json.load(open('/root/.vp/EVIDENCE.schema.json'))\n"
            "for f in sorted(glob.glob('%s/*.json')):\n"
            "    try: jsonschema.validate(json.load(open(f)), sch)\n"
            "    except Exception as e:\n"
            "        ok=False; print('INVALID', f, str(e)[:200])\n"
            "print('schema ok' if ok else 'schema FAILED'); sys.exit(0 if ok else 2)\n" % (runner.VERIF_DIR, runner.EVIDENCE_DIR))
        p = subprocess.run(["python3-vt", "-c", code], capture_output=True, text=True)
        print(p.stdout + p.stderr[-500:])
        return p.returncode
    n = args.runs or 6
    props = sorted(os.path.basename(f)[:-3].upper() for f in glob.glob(os.path.join(runner.VERIF_DIR, "checks", "c[0-9]*.py")))
    only = os.environ.get("DSIM_SELFTEST_PROPS")
    if only:
        props = [p for p in props if p in only.upper().split(",")]
    bad = 0
    for prop in props:
        a = _digests(prop, n)
        b = _digests(prop, n)
        c = _fresh(prop, n, {"PYTHONHASHSEED": "4242"})
        d = _fresh(prop, min(n, 3), {"PYTHONHASHSEED": "7", "DSIM_PUBLIC_API": "1"})
        ok = a == b == c and a[:len(d)] == d and not any(x.startswith(("ERROR", "NO-OUTPUT")) for x in a + c + d)
        print(f"[selftest-determinism] {prop}: {'ok' if ok else 'MISMATCH'} ({n} scenarios x same-process twice, "
              f"fresh interpreter PYTHONHASHSEED=4242, public-API back end x{len(d)})")
        if not ok:
            bad += 1
            print("   a", a, "\n   b", b, "\n   c", c, "\n   d", d)
    return 0 if not bad else 2
