"""
dsim.runner -- seeded search over scenarios, violation classification, minimisation, replay, evidence.

A *check module* (checks/cNN.py) provides:

    PROPERTY   = "C18"
    ENGINE     = "streams"
    RULES      = {"C18.read_data": "one-line description", ...}
    META       = {"components_real": [...], "components_stubbed": [...], "assumptions": [...],
                  "rule": "how scenarios are generated; what makes one non-trivial / distinct"}
    TIERS      = {"quick": {"runs": 3000, "wall": 60}, "thorough": {"runs": 60000, "wall": 900}}
    gen(rng, tier, index)  -> scenario (JSON-serialisable dict with at least "config" and "ops")
    run(scenario)          -> {"violations": [...], "cycles": int, "faults": {kind: n}, "probes": {name: n},
                               "sig": hashable-as-str coverage signature, "nontrivial": bool, "digest": str}
    shrink_candidates(scenario) -> iterable of simpler scenarios   (optional; default = generic ddmin on ops)

Everything random is drawn inside gen() from the `random.Random` it is handed; run() is a pure function
of the scenario and the code under test.
"""

import os
import sys
import json
import time
import copy
import random
import hashlib
import importlib
import traceback
import subprocess
import faulthandler
import multiprocessing
from concurrent.futures import ProcessPoolExecutor, as_completed

VERIF_DIR = os.path.dirname(os.path.dirname(os.path.abspath(__file__)))
# DSIM_OUT_DIR: development aid (e.g. runs against a seeded mutant must not overwrite the real evidence files)
_OUT = os.environ.get("DSIM_OUT_DIR") or VERIF_DIR
EVIDENCE_DIR = os.path.join(_OUT, "evidence")
REPLAY_DIR = os.path.join(_OUT, "replays")
KNOWN_FILE = os.path.join(VERIF_DIR, "known_findings.json")

CLOCK_HZ = {  # nominal clock per engine, only used to convert cycles into "simulated seconds" for evidence
}


def run_seed(base_seed, prop, index):
    h = hashlib.blake2b(f"{base_seed}/{prop}/{index}".encode(), digest_size=8).digest()
    return int.from_bytes(h, "big")


def load_check(prop):
    return importlib.import_module(f"checks.{prop.lower()}")


# --------------------------------------------------------------------------------------------------
# known findings
# --------------------------------------------------------------------------------------------------
def load_known():
    try:
        with open(KNOWN_FILE) as f:
            data = json.load(f)
    except FileNotFoundError:
        return []
    return data.get("findings", [])


def match_known(known, prop, violation):
    """ Returns the matching *known* (unfixed) finding, or None.  Fixed entries suppress nothing. """
    for entry in known:
        if entry.get("status") != "known":
            continue
        if entry.get("property") != prop or entry.get("rule") != violation["rule"]:
            continue
        want = entry.get("match", {})
        shape = violation.get("shape", {})
        if all(shape.get(k) == v for k, v in want.items()):
            return entry
    return None


# --------------------------------------------------------------------------------------------------
# executing scenarios
# --------------------------------------------------------------------------------------------------
def _first_violation(result):
    v = result.get("violations") or []
    if not v:
        return None
    return min(v, key=lambda x: x["cycle"])


def execute(mod, scenario):
    """ Runs one scenario; returns a compact result dict.  Harness exceptions are captured. """
    try:
        res = mod.run(scenario)
    except Exception:
        return {"error": traceback.format_exc()}
    first = _first_violation(res)
    return {
        "first": first,
        "n_violations": len(res.get("violations") or []),
        "cycles": int(res.get("cycles", 0)),
        "faults": dict(res.get("faults", {})),
        "probes": dict(res.get("probes", {})),
        "sig": str(res.get("sig", "")),
        "nontrivial": bool(res.get("nontrivial", True)),
        "digest": res.get("digest"),
        "fsm": int(res.get("fsm", 0)),
    }


def _worker_chunk(args):
    prop, tier, base_seed, indices, watchdog = args
    faulthandler.enable()
    mod = load_check(prop)
    out = []
    for idx in indices:
        seed = run_seed(base_seed, prop, idx)
        if watchdog:
            faulthandler.dump_traceback_later(watchdog, exit=True)
        try:
            scn = mod.gen(random.Random(seed), tier, idx)
            scn.setdefault("property", prop)
            scn["seed"] = seed
            scn["index"] = idx
            r = execute(mod, scn)
        except Exception:
            r = {"error": traceback.format_exc()}
        finally:
            if watchdog:
                faulthandler.cancel_dump_traceback_later()
        r["index"] = idx
        r["seed"] = seed
        out.append(r)
    return out


def _worker_scenarios(args):
    prop, scenarios, watchdog = args
    mod = load_check(prop)
    out = []
    for scn in scenarios:
        if watchdog:
            faulthandler.dump_traceback_later(watchdog, exit=True)
        try:
            out.append(execute(mod, scn))
        finally:
            if watchdog:
                faulthandler.cancel_dump_traceback_later()
    return out


def regenerate(mod, prop, tier, base_seed, idx):
    seed = run_seed(base_seed, prop, idx)
    scn = mod.gen(random.Random(seed), tier, idx)
    scn.setdefault("property", prop)
    scn["seed"] = seed
    scn["index"] = idx
    return scn


# --------------------------------------------------------------------------------------------------
# minimisation (budgeted ddmin over the op list + module-specific simplifications)
# --------------------------------------------------------------------------------------------------
def _generic_candidates(scn):
    ops = scn.get("ops")
    if not isinstance(ops, list) or not ops:
        return
    n = len(ops)
    # drop the tail first (cheapest win), then chunks, then single ops
    chunk = n // 2
    while chunk >= 1:
        for start in range(0, n, chunk):
            cand = copy.deepcopy(scn)
            cand["ops"] = ops[:start] + ops[start + chunk:]
            if len(cand["ops"]) < n:
                yield cand
        chunk //= 2
    # strip faults
    for i, op in enumerate(ops):
        if isinstance(op, dict) and op.get("fault"):
            cand = copy.deepcopy(scn)
            cand["ops"][i] = {k: v for k, v in op.items() if k != "fault"}
            yield cand


def same_class(target, first, known):
    """ A candidate preserves the violation class iff the same rule fires first (and same known-ness). """
    if first is None:
        return False
    if first["rule"] != target["rule"]:
        return False
    prop = target["rule"].split(".")[0]
    return (match_known(known, prop, first) is None) == (match_known(known, prop, target) is None)


def minimise(mod, prop, scn, target, known, pool, budget=150, watchdog=120):
    best = scn
    spent = 0
    improved = True
    cand_fn = getattr(mod, "shrink_candidates", None)
    while improved and spent < budget:
        improved = False
        cands = list(_generic_candidates(best))
        if cand_fn:
            try:
                cands += list(cand_fn(best))
            except Exception:
                pass
        # evaluate in batches of pool width; accept the first (in order) that preserves the class
        width = 16
        for off in range(0, len(cands), width):
            if spent >= budget:
                break
            batch = cands[off:off + width]
            spent += len(batch)
            if pool is not None:
                futs = [pool.submit(_worker_scenarios, (prop, [c], watchdog)) for c in batch]
                results = []
                for f in futs:
                    try:
                        results.append(f.result()[0])
                    except Exception:
                        results.append({"error": "worker died"})
            else:
                results = [execute(mod, c) for c in batch]
            hit = None
            for c, r in zip(batch, results):
                if "error" in r:
                    continue
                if same_class(target, r.get("first"), known):
                    hit = (c, r)
                    break
            if hit:
                best = hit[0]
                improved = True
                break
    return best, spent


# --------------------------------------------------------------------------------------------------
# replay
# --------------------------------------------------------------------------------------------------
def write_replay(prop, scn, first, result, extra=None):
    os.makedirs(REPLAY_DIR, exist_ok=True)
    path = os.path.join(REPLAY_DIR, f"{prop}-{scn.get('seed', 0)}-{first['rule'].split('.', 1)[-1]}.json")
    doc = {
        "property": prop,
        "rule": first["rule"],
        "cycle": first["cycle"],
        "msg": first["msg"],
        "shape": first.get("shape", {}),
        "digest": result.get("digest"),
        "scenario": scn,
    }
    if extra:
        doc.update(extra)
    with open(path, "w") as f:
        json.dump(doc, f, indent=1, sort_keys=True)
    return path


def replay(prop, path):
    mod = load_check(prop)
    with open(path) as f:
        doc = json.load(f)
    r = execute(mod, doc["scenario"])
    if "error" in r:
        print("HARNESS-ERROR during replay:\n" + r["error"])
        return 2
    first = r.get("first")
    print(json.dumps({"replayed": path, "expected_rule": doc.get("rule"), "expected_cycle": doc.get("cycle"),
                      "expected_digest": doc.get("digest"), "got": first, "digest": r.get("digest")}, indent=1))
    if first is None:
        print(f"REPLAY property={prop}: no violation (the recorded one does not reproduce on this tree)")
        return 0
    same = (first["rule"] == doc.get("rule") and first["cycle"] == doc.get("cycle")
            and r.get("digest") == doc.get("digest"))
    print(f"REPLAY property={prop}: violation reproduced ({'identical' if same else 'DIFFERENT'} rule/cycle/digest)")
    known = load_known()
    k = match_known(known, prop, first)
    if k:
        print(f"KNOWN-FINDING: property={prop} {k['description']}")
        return 0
    print(f"VIOLATION property={prop} replay={path}")
    return 1


# --------------------------------------------------------------------------------------------------
# the main search
# --------------------------------------------------------------------------------------------------
def search(prop, tier, base_seed, jobs=None, runs=None, wall=None, verbose=True):
    t0 = time.time()
    mod = load_check(prop)
    cfg = dict(mod.TIERS[tier])
    if runs is not None:
        cfg["runs"] = runs
    if wall is not None:
        cfg["wall"] = wall
    n_runs = cfg["runs"]
    wall_budget = cfg.get("wall", 60)
    watchdog = cfg.get("watchdog", 300)
    jobs = jobs or int(os.environ.get("VERIF_JOBS", "0")) or min(16, os.cpu_count() or 1)
    known = load_known()
    # stale replay files of earlier runs of this property would be misleading
    import glob
    for old_file in glob.glob(os.path.join(REPLAY_DIR, f"{prop}-*.json")):
        try:
            os.remove(old_file)
        except OSError:
            pass

    # chunks are small enough for load balance, large enough to amortise bench construction
    chunk = cfg.get("chunk") or max(1, min(32, n_runs // (jobs * 4) or 1))
    chunks = [list(range(i, min(n_runs, i + chunk))) for i in range(0, n_runs, chunk)]

    results = {}
    errors = []
    ctx = multiprocessing.get_context("fork")
    pool = ProcessPoolExecutor(max_workers=jobs, mp_context=ctx)
    completed_all = True
    try:
        pending = []
        it = iter(chunks)
        # keep at most 2*jobs chunks in flight so the wall budget stops submission *between* chunks
        def submit_more():
            while len(pending) < 2 * jobs:
                try:
                    c = next(it)
                except StopIteration:
                    return False
                if time.time() - t0 > wall_budget:
                    return None
                pending.append(pool.submit(_worker_chunk, (prop, tier, base_seed, c, watchdog)))
            return True
        state = submit_more()
        while pending:
            done = None
            for f in as_completed(pending):
                done = f
                break
            pending.remove(done)
            try:
                for r in done.result():
                    results[r["index"]] = r
            except Exception as e:
                errors.append(f"worker died: {e!r}")
            s = submit_more()
            if s is None:
                completed_all = False
        if len(results) < n_runs:
            completed_all = False

        # ---------------- classify ----------------
        order = sorted(results)
        for idx in order:
            if "error" in results[idx]:
                errors.append(f"scenario index {idx} seed {results[idx]['seed']}:\n{results[idx]['error']}")
        violating = [idx for idx in order if results[idx].get("first")]
        classes = {}
        for idx in violating:
            first = results[idx]["first"]
            k = match_known(known, prop, first)
            key = (first["rule"], json.dumps(first.get("shape", {}), sort_keys=True) if k is None else "known:" + k["id"])
            classes.setdefault(key, []).append(idx)

        reported = []
        known_lines = {}
        new_classes = [(key, idxs) for key, idxs in classes.items() if not key[1].startswith("known:")]
        for key, idxs in classes.items():
            if key[1].startswith("known:"):
                kid = key[1][6:]
                known_lines.setdefault(kid, 0)
                known_lines[kid] += len(idxs)
        # merge new classes by rule: report (and minimise) at most 3 shapes per rule, 6 in total
        per_rule = {}
        for key, idxs in sorted(new_classes, key=lambda kv: kv[1][0]):
            per_rule.setdefault(key[0], []).append(idxs)
        to_report = []
        for rule, groups in per_rule.items():
            for idxs in groups[:3]:
                to_report.append(idxs[0])
        to_report = sorted(to_report)[:6]
        for idx in to_report:
            scn = regenerate(mod, prop, tier, base_seed, idx)
            target = results[idx]["first"]
            small, spent = minimise(mod, prop, scn, target, known, pool,
                                    budget=cfg.get("shrink_budget", 120), watchdog=watchdog)
            r = execute(mod, small)
            first = r.get("first") or target
            path = write_replay(prop, small, first, r, {"shrink_runs": spent, "original_index": idx,
                                                          "original_ops": len(scn.get("ops", [])),
                                                          "tier": tier, "base_seed": base_seed})
            # confirm in a fresh interpreter
            fresh = _fresh_replay_digest(prop, path)
            reported.append({"index": idx, "rule": first["rule"], "cycle": first["cycle"], "msg": first["msg"],
                             "shape": first.get("shape", {}), "replay": path,
                             "fresh_interpreter_reproduces": fresh == r.get("digest"),
                             "ops_before": len(scn.get("ops", [])), "ops_after": len(small.get("ops", []))})
    finally:
        # never leave workers behind: an orphaned worker keeps the caller's stdout pipe open
        procs = list(getattr(pool, "_processes", {}).values())
        pool.shutdown(wait=False, cancel_futures=True)
        for p in procs:
            try:
                p.kill()
            except Exception:
                pass

    wall = time.time() - t0
    ev = build_evidence(mod, prop, tier, base_seed, results, reported, known_lines, known, wall, jobs,
                        completed_all, n_runs, errors)
    os.makedirs(EVIDENCE_DIR, exist_ok=True)
    with open(os.path.join(EVIDENCE_DIR, f"{prop}.json"), "w") as f:
        json.dump(ev, f, indent=1, sort_keys=True)

    # ---------------- report ----------------
    cov = ev["coverage"]
    if verbose:
        print(f"[{prop}] tier={tier} seed={base_seed} runs={cov['evaluations']}/{n_runs} "
              f"distinct_nontrivial={cov['distinct_nontrivial']} cycles={cov['simulated_cycles']} "
              f"wall={wall:.1f}s runs/h={cov['runs_per_hour']:.0f}")
        print(f"[{prop}] faults fired: {json.dumps(cov['fault_counts'], sort_keys=True)}")
        print(f"[{prop}] probes: {json.dumps(cov['probes'], sort_keys=True)}")
        for name, n in cov["probes"].items():
            if n == 0:
                print(f"[{prop}] WARNING probe '{name}' never hit")
    for kid, n in sorted(known_lines.items()):
        entry = next(e for e in known if e["id"] == kid)
        print(f"KNOWN-FINDING: property={prop} {entry['description']} [{n} scenario(s)]")
    for rep in reported:
        print(f"[{prop}] rule={rep['rule']} cycle={rep['cycle']} ops {rep['ops_before']}->{rep['ops_after']} "
              f"shape={json.dumps(rep['shape'], sort_keys=True)}\n        {rep['msg']}")
        print(f"VIOLATION property={prop} replay={rep['replay']}")
    if errors:
        print(f"HARNESS-ERROR property={prop}: {len(errors)} error(s); first:\n{errors[0]}")
    if reported:
        # a violation that was found, minimised and replayed stands even if other scenarios of the batch could
        # not be completed (a design that hangs makes scripted actors run into their cycle caps)
        return 1
    if errors:
        return 2
    if cov["evaluations"] == 0:
        print(f"HARNESS-ERROR property={prop}: nothing was evaluated")
        return 2
    return 0


def _fresh_replay_digest(prop, path):
    """ Re-executes a replay file in a fresh interpreter with another hash seed; returns its digest. """
    env = dict(os.environ)
    env["PYTHONHASHSEED"] = "12345"
    env["PYTHONPATH"] = f"{VERIF_DIR}:/repo"
    env["DSIM_REEXEC"] = "1"
    code = ("import sys,json; sys.dont_write_bytecode=True; from dsim import runner; m=runner.load_check(%r); "
            "d=json.load(open(%r)); r=runner.execute(m,d['scenario']); print('DIGEST', r.get('digest'), "
            "(r.get('first') or {}).get('rule'), (r.get('first') or {}).get('cycle'))" % (prop, path))
    try:
        out = subprocess.run([sys.executable, "-B", "-c", code], env=env, capture_output=True, text=True,
                             timeout=600, cwd=VERIF_DIR).stdout
    except Exception:
        return None
    for line in out.splitlines():
        if line.startswith("DIGEST "):
            return line.split()[1]
    return None


# --------------------------------------------------------------------------------------------------
# evidence
# --------------------------------------------------------------------------------------------------
def build_evidence(mod, prop, tier, base_seed, results, reported, known_lines, known, wall, jobs,
                   completed_all, n_runs, errors):
    ok = [r for r in results.values() if "error" not in r]
    evaluations = len(ok)
    cycles = sum(r["cycles"] for r in ok)
    faults = {}
    probes = {}
    for r in ok:
        for k, v in r["faults"].items():
            faults[k] = faults.get(k, 0) + v
        for k, v in r["probes"].items():
            probes[k] = probes.get(k, 0) + v
    for name in getattr(mod, "PROBES", []):
        probes.setdefault(name, 0)
    sigs = set(r["sig"] for r in ok if r["nontrivial"])
    hz = getattr(mod, "CLOCK_HZ", 60e6)
    # samples: first, the median-length one, the one with most faults
    samples = []
    if ok:
        by_idx = sorted(ok, key=lambda r: r["index"])
        picks = [by_idx[0]["index"]]
        by_len = sorted(ok, key=lambda r: (r["cycles"], r["index"]))
        picks.append(by_len[len(by_len) // 2]["index"])
        by_faults = sorted(ok, key=lambda r: (-sum(r["faults"].values()), r["index"]))
        picks.append(by_faults[0]["index"])
        seen = set()
        for idx in picks:
            if idx in seen:
                continue
            seen.add(idx)
            scn = regenerate(mod, prop, tier, base_seed, idx)
            text = json.dumps(scn, sort_keys=True)
            if len(text) > 6000:
                scn = dict(scn)
                ops = scn.get("ops", [])
                scn["ops"] = ops[:12]
                scn["ops_truncated_from"] = len(ops)
                text = json.dumps(scn, sort_keys=True)
                if len(text) > 12000:
                    scn = {"seed": scn.get("seed"), "index": idx, "config": scn.get("config"),
                           "note": "scenario too large to print; regenerate from seed"}
            samples.append(scn)
    meta = getattr(mod, "META", {})
    idxs = sorted(r["index"] for r in ok)
    ev = {
        "property_id": prop,
        "tier": tier,
        "seed": int(base_seed),
        "level": "exploration",
        "wall_s": round(wall, 2),
        "violations": len(reported),
        "assumptions": list(meta.get("assumptions", [])),
        "coverage": {
            "evaluations": evaluations,
            "distinct_nontrivial": len(sigs),
            "rule": meta.get("rule", "") + " | distinct = different coverage signature (set of FSM-state vectors "
                    "visited + fault kinds fired + response/outcome kinds seen); non-trivial = the run exercised "
                    "at least one operation with in-flight state (flag computed by the check per run).",
            "samples": samples,
            "exhaustive": False,
            "planned_runs": n_runs,
            "completed_all_planned": bool(completed_all),
            "simulated_cycles": cycles,
            "simulated_time_s": cycles / hz,
            "nominal_clock_hz": hz,
            "runs_per_hour": evaluations / wall * 3600 if wall > 0 else 0,
            "cycles_per_second": cycles / wall if wall > 0 else 0,
            "workers": jobs,
            "seeds": {"base": int(base_seed),
                      "first_run_seed": run_seed(base_seed, prop, idxs[0]) if idxs else None,
                      "last_run_seed": run_seed(base_seed, prop, idxs[-1]) if idxs else None,
                      "derivation": "blake2b(f'{VERIF_SEED}/{property}/{index}')"},
            "fault_counts": faults,
            "probes": probes,
            "distinct_fsm_state_vectors_max_per_run": max([r["fsm"] for r in ok], default=0),
            "components_real": list(meta.get("components_real", [])),
            "components_stubbed": list(meta.get("components_stubbed", [])),
            "rules_checked": dict(getattr(mod, "RULES", {})),
            "known_findings_reported": {k: v for k, v in known_lines.items()},
            "violating_scenarios_unlisted": [{k: rep[k] for k in ("index", "rule", "cycle", "shape", "replay",
                                                                   "fresh_interpreter_reproduces",
                                                                   "ops_before", "ops_after")} for rep in reported],
            "harness_errors": len(errors),
        },
    }
    return ev
