"""
engines.usb2_device -- a complete LUNA USBDevice over a UTMI interface, owned by the scheduler.

Real: luna.gateware.usb.usb2.USBDevice and everything below it.  Stubs: the UTMI PHY/host (models.usb2.UTMIHost),
stream producers/consumers, and two passive spies attached through the public extension points
(`add_endpoint`, `add_request_handler`) that only expose what an endpoint / request handler is shown.

cfg (JSON-serialisable; also the bench cache key):
  {"variant": "V1"|"V2",                # V1: 12 MHz FS-only timing (as in the repo's tests); V2: 60 MHz (ULPI) timing
   "ep0_mps": 64, "control": "standard"|"bare"|None, "avoid_blockram": false,
   "descriptors": {"kind":"default"} | {"kind":"custom", "entries":[[type, index, hex], ...]},
   "endpoints": [{"kind":"stream_in","ep":1,"mps":64}, {"kind":"stream_out","ep":1,"mps":64,"buffer":null},
                 {"kind":"multibyte_in","ep":2,"mps":64,"byte_width":4}, {"kind":"status_in","ep":3,"width":8,"endianness":"little"},
                 {"kind":"iso_in","ep":4,"mps":64}, {"kind":"iso_out","ep":4,"mps":64,"buffer":null},
                 {"kind":"scripted_in","ep":5}],
   "spy": true}
Pin names: utmi pins as in UTMIInterface; per endpoint `<kind-prefix><ep>_<field>`.
"""

import json

from amaranth import Elaboratable, Module, Signal

from dsim.kernel import make_bench, cached_bench


def default_descriptors(ep0_mps=64, extra=()):
    from usb_protocol.emitters import DeviceDescriptorCollection
    d = DeviceDescriptorCollection()
    with d.DeviceDescriptor() as dd:
        dd.idVendor = 0x16d0
        dd.idProduct = 0xf3b
        dd.iManufacturer = "LUNA"
        dd.iProduct = "Test Device"
        dd.iSerialNumber = "1234"
        dd.bNumConfigurations = 1
        dd.bMaxPacketSize0 = ep0_mps
    with d.ConfigurationDescriptor() as c:
        with c.InterfaceDescriptor() as i:
            i.bInterfaceNumber = 0
            with i.EndpointDescriptor() as e:
                e.bEndpointAddress = 0x01
                e.wMaxPacketSize = 64
            with i.EndpointDescriptor() as e:
                e.bEndpointAddress = 0x81
                e.wMaxPacketSize = 64
    for t, idx, raw in extra:
        d.add_descriptor(bytes.fromhex(raw), index=idx, descriptor_type=t)
    return d


def custom_descriptors(entries):
    from usb_protocol.emitters import DeviceDescriptorCollection
    d = DeviceDescriptorCollection()
    for t, idx, raw in entries:
        d.add_descriptor(bytes.fromhex(raw), index=idx, descriptor_type=t)
    return d


def descriptor_table(collection):
    """ {(type, index): bytes} straight from the collection (the check's oracle slices these itself). """
    return {(t, i): bytes(raw) for t, i, raw in collection}


class SpyEndpoint(Elaboratable):
    """ A passive endpoint: never drives anything; its interface inputs are what every endpoint is shown. """

    def __init__(self):
        from luna.gateware.usb.usb2.endpoint import EndpointInterface
        self.interface = EndpointInterface()

    def elaborate(self, platform):
        return Module()


class SpyRequestHandler(Elaboratable):
    """ A passive request handler: never claims; exposes the decoded setup packet given to handlers. """

    def __init__(self):
        from luna.gateware.usb.usb2.request import RequestHandlerInterface
        self.interface = RequestHandlerInterface()

    def elaborate(self, platform):
        return Module()


class ScriptedInEndpoint(Elaboratable):
    """ An IN endpoint whose transmit stream and PID are driven directly by the scheduler (pins),
        used to push arbitrary payloads through the device's real transmit path (C03/C20). """

    def __init__(self, endpoint_number):
        from luna.gateware.usb.usb2.endpoint import EndpointInterface
        self.interface = EndpointInterface()
        self.number = endpoint_number
        self.valid = Signal()
        self.first = Signal()
        self.last = Signal()
        self.payload = Signal(8)
        self.pid = Signal(2)

    def elaborate(self, platform):
        m = Module()
        tx = self.interface.tx
        m.d.comb += [tx.valid.eq(self.valid), tx.first.eq(self.first), tx.last.eq(self.last),
                     tx.payload.eq(self.payload), self.interface.tx_pid_toggle.eq(self.pid)]
        return m


UTMI_INS = ["rx_data", "rx_active", "rx_valid", "tx_ready", "line_state", "session_end", "vbus_valid"]
UTMI_OUTS = ["tx_data", "tx_valid", "xcvr_select", "term_select", "op_mode"]


def _build(cfg):
    from luna.gateware.interface.utmi import UTMIInterface
    from luna.gateware.usb.usb2.device import USBDevice
    from luna.gateware.usb.usb2.endpoints.stream import (USBStreamInEndpoint, USBStreamOutEndpoint,
                                                          USBMultibyteStreamInEndpoint)
    from luna.gateware.usb.usb2.endpoints.status import USBSignalInEndpoint
    from luna.gateware.usb.usb2.endpoints.isochronous_stream_in import USBIsochronousStreamInEndpoint
    from luna.gateware.usb.usb2.endpoints.isochronous_stream_out import USBIsochronousStreamOutEndpoint

    utmi = UTMIInterface()
    dev = USBDevice(bus=utmi)
    variant = cfg.get("variant", "V1")
    if variant == "V2":
        dev.always_fs = False
        dev.data_clock = 60e6
    ins = {n: getattr(utmi, n) for n in UTMI_INS}
    outs = {n: getattr(utmi, n) for n in UTMI_OUTS}
    ins.update(connect=dev.connect, full_speed_only=dev.full_speed_only, low_speed_only=dev.low_speed_only)
    outs.update(frame_number=dev.frame_number, microframe_number=dev.microframe_number,
                sof_detected=dev.sof_detected, new_frame=dev.new_frame, reset_detected=dev.reset_detected,
                speed=dev.speed, suspended=dev.suspended)
    info = {"variant": variant}

    ep0_mps = cfg.get("ep0_mps", 64)
    control = cfg.get("control", "standard")
    if control:
        dspec = cfg.get("descriptors", {"kind": "default"})
        if dspec["kind"] == "default":
            descs = default_descriptors(ep0_mps, dspec.get("extra", ()))
        else:
            descs = custom_descriptors(dspec["entries"])
        info["descriptors"] = descriptor_table(descs)
        from luna.gateware.usb.usb2.control import USBControlEndpoint
        ep0 = USBControlEndpoint(utmi=dev.utmi, max_packet_size=ep0_mps)
        if control == "standard":
            ep0.add_standard_request_handlers(descs, avoid_blockram=bool(cfg.get("avoid_blockram", False)))
        if cfg.get("spy", True):
            spy_h = SpyRequestHandler()
            ep0.add_request_handler(spy_h)
            s = spy_h.interface.setup
            outs.update(setup_received=s.received, setup_is_in=s.is_in_request, setup_type=s.type,
                        setup_recipient=s.recipient, setup_request=s.request, setup_value=s.value,
                        setup_index=s.index, setup_length=s.length)
        dev.add_endpoint(ep0)
        e0 = ep0.interface
        outs.update(halt_enable=e0.clear_endpoint_halt_out.enable, halt_direction=e0.clear_endpoint_halt_out.direction,
                    halt_number=e0.clear_endpoint_halt_out.number)

    extra_domains = set()          # further clock domains used by endpoints (clocked in phase with "usb")
    for e in cfg.get("endpoints", []):
        kind, n = e["kind"], e["ep"]
        if kind == "stream_in":
            ep = USBStreamInEndpoint(endpoint_number=n, max_packet_size=e["mps"])
            p = f"in{n}_"
            ins.update({p + "valid": ep.stream.valid, p + "payload": ep.stream.payload, p + "first": ep.stream.first,
                        p + "last": ep.stream.last, p + "flush": ep.flush, p + "discard": ep.discard})
            outs.update({p + "ready": ep.stream.ready})
        elif kind == "multibyte_in":
            ep = USBMultibyteStreamInEndpoint(byte_width=e["byte_width"], endpoint_number=n, max_packet_size=e["mps"])
            p = f"mb{n}_"
            ins.update({p + "valid": ep.stream.valid, p + "payload": ep.stream.payload, p + "first": ep.stream.first,
                        p + "last": ep.stream.last})
            outs.update({p + "ready": ep.stream.ready})
        elif kind == "stream_out":
            ep = USBStreamOutEndpoint(endpoint_number=n, max_packet_size=e["mps"], buffer_size=e.get("buffer"))
            p = f"out{n}_"
            ins.update({p + "ready": ep.stream.ready})
            outs.update({p + "valid": ep.stream.valid, p + "payload": ep.stream.payload, p + "first": ep.stream.first,
                         p + "last": ep.stream.last})
        elif kind == "status_in":
            sd = e.get("signal_domain", "usb")
            if sd != "usb":
                extra_domains.add(sd)
                ep = USBSignalInEndpoint(width=e["width"], endpoint_number=n, endianness=e.get("endianness", "little"),
                                         signal_domain=sd)
            else:
                ep = USBSignalInEndpoint(width=e["width"], endpoint_number=n, endianness=e.get("endianness", "little"))
            p = f"st{n}_"
            ins.update({p + "signal": ep.signal})
            outs.update({p + "read_complete": ep.status_read_complete})
        elif kind == "iso_in":
            ep = USBIsochronousStreamInEndpoint(endpoint_number=n, max_packet_size=e["mps"])
            p = f"isoin{n}_"
            ins.update({p + "valid": ep.stream.valid, p + "payload": ep.stream.payload,
                        p + "bytes_in_frame": ep.bytes_in_frame})
            outs.update({p + "ready": ep.stream.ready, p + "data_requested": ep.data_requested,
                         p + "frame_finished": ep.frame_finished})
        elif kind == "iso_out":
            ep = USBIsochronousStreamOutEndpoint(endpoint_number=n, max_packet_size=e["mps"], buffer_size=e.get("buffer"))
            p = f"isoout{n}_"
            ins.update({p + "ready": ep.stream.ready})
            # payload is Packet(unsigned(8)): bit0 first, bit1 last, bits 2..9 data (decoded by the check)
            outs.update({p + "valid": ep.stream.valid, p + "raw": ep.stream.payload.as_value()})
        elif kind == "scripted_in":
            ep = ScriptedInEndpoint(n)
            p = f"scr{n}_"
            ins.update({p + "valid": ep.valid, p + "payload": ep.payload, p + "first": ep.first, p + "last": ep.last,
                        p + "pid": ep.pid})
            outs.update({p + "ready": ep.interface.tx.ready})
        else:
            raise ValueError(kind)
        dev.add_endpoint(ep)

    if cfg.get("spy", True):
        spy = SpyEndpoint()
        dev.add_endpoint(spy)
        i = spy.interface
        outs.update(spy_address=i.active_address, spy_config=i.active_config,
                    spy_new_token=i.tokenizer.new_token, spy_pid=i.tokenizer.pid, spy_tok_addr=i.tokenizer.address,
                    spy_tok_ep=i.tokenizer.endpoint, spy_new_frame=i.tokenizer.new_frame, spy_frame=i.tokenizer.frame,
                    spy_ready_for_response=i.tokenizer.ready_for_response,
                    spy_rx_valid=i.rx.valid, spy_rx_next=i.rx.next, spy_rx_payload=i.rx.payload,
                    spy_rx_complete=i.rx_complete, spy_rx_invalid=i.rx_invalid,
                    spy_rx_ready_for_response=i.rx_ready_for_response,
                    spy_hs_ack=i.handshakes_in.ack, spy_hs_nak=i.handshakes_in.nak, spy_hs_stall=i.handshakes_in.stall,
                    spy_halt_enable=i.clear_endpoint_halt_in.enable,
                    spy_halt_direction=i.clear_endpoint_halt_in.direction,
                    spy_halt_number=i.clear_endpoint_halt_in.number)

    period = 1 / 60e6 if variant == "V2" else 1 / 12e6
    # (a status endpoint's `signal_domain` only names where its input comes from: the endpoint itself clocks nothing in that
    # domain, so no further clock is needed; the scheduler changes such inputs on usb clock edges)
    bench = make_bench(dev, clocks={"usb": period}, main="usb", ins=ins, outs=outs)
    bench.info = info
    return bench


def device_bench(cfg):
    key = ("usb2_device", json.dumps(cfg, sort_keys=True))
    return cached_bench(key, lambda: _build(cfg))


# initial pin values for a connected, powered, idle full-speed bus
IDLE_INIT = {"connect": 1, "line_state": 0b01, "session_end": 0, "vbus_valid": 1, "tx_ready": 1}
CLOCK_HZ = {"V1": 12e6, "V2": 60e6}
