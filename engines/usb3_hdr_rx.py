"""
engines.usb3_hdr_rx -- bench, link-partner script and reference model for HeaderPacketReceiver (C37, C38).

DUT: luna.gateware.usb.usb3.link.receiver.HeaderPacketReceiver (real, with its RawHeaderPacketReceiver and
LinkCommandGenerator).  Everything around it is Python:

 * the link partner (`HdrRxPartner`, an SSPartner): sends header packets (optionally followed by a DPP), unrelated link
   commands, idle and not-valid words on `sink`; obeys the credits the DUT advertises (LCRD) and the header sequence
   number it advertises (LGOOD after link-up); on LBAD it sends LRTY and re-sends every unacknowledged header in
   order with the DL bit set.  LRTY reception is signalled to the DUT through `retry_received` exactly as the
   transmitter's LinkCommandDetector would (a pulse 1..3 cycles after the LRTY command word).
 * the protocol layer: `queue.ready` from a literal pattern.
 * the PHY-side arbiter: `source.ready` from a literal pattern.
 * the LTSSM: `enable`, `usb_reset` (C38 episodes), the U0 timers: `keepalive_required`, the transmitter:
   `retry_required`, `reject_power_state`.

Reference model (from the property statements, independent CRCs from models.usb3_link): a header is accepted iff both
CRCs are valid, its sequence number is the expected one and the receiver is not ignoring packets (between a corrupted
header and the partner's retry); accepted headers are LGOOD-acknowledged with their sequence number and delivered
once, in order; a corrupted header (while not ignoring) yields one LBAD; LCRD letters cycle A-B-C-D and
issued <= buffers + consumed; after every (re-)enable or reset the first commands are LGOOD(last accepted | 7),
LCRD_A..D (one command in flight at the disable instant may still complete).

Scenario ops (scn["ops"]), executed in order by the partner:
  {"op": "hdr", "dw0", "dw1", "dw2", "hub", "df", "gap": idle words before (0 = back to back), "fault": {"kind": ...},
   "dpp": hex payload (data headers), "wgaps": [[word 1..4, n], ...]}
  {"op": "idle", "n"} | {"op": "lcmd", "cmd", "sub"} | {"op": "retry_required"} | {"op": "keepalive"} | {"op": "lxu"}
  {"op": "disable", "delay": cycles after the previous op, "len": cycles, "reset": None | "during" | "edge"}   (C38)
  {"op": "reset", "delay", "len": 1}                                                                          (C38)
"""

from dsim.kernel import make_bench, cached_bench
from models import usb3_link as L

HDR_FIELDS = ["dw0", "dw1", "dw2", "crc16", "sequence_number", "dw3_reserved", "hub_depth", "delayed", "deferred", "crc5"]
BUFFERS = 4
WAIT_LIMIT = 400          # ready-cycles a legal partner waits for the DUT before the run is declared stuck
ADV_LIMIT = 200           # C38.progress bound (cycles with the PHY ready)


def hdr_rx_bench():
    def factory():
        from luna.gateware.usb.usb3.link.receiver import HeaderPacketReceiver
        dut = HeaderPacketReceiver()
        ins = {"sink_valid": dut.sink.valid, "sink_data": dut.sink.data, "sink_ctrl": dut.sink.ctrl,
               "src_ready": dut.source.ready, "enable": dut.enable, "usb_reset": dut.usb_reset,
               "queue_ready": dut.queue.ready, "retry_received": dut.retry_received, "retry_required": dut.retry_required,
               "keepalive_required": dut.keepalive_required, "reject_power_state": dut.reject_power_state}
        outs = {"src_valid": dut.source.valid, "src_data": dut.source.data, "src_ctrl": dut.source.ctrl,
                "queue_valid": dut.queue.valid, "lrty_pending": dut.lrty_pending, "recovery_required": dut.recovery_required,
                "link_command_sent": dut.link_command_sent, "packet_received": dut.packet_received,
                "bad_packet_received": dut.bad_packet_received}
        for f in HDR_FIELDS:
            outs["q_" + f] = getattr(dut.queue.header, f)
        return make_bench(dut, clocks={"ss": 1 / 125e6}, main="ss", ins=ins, outs=outs)
    return cached_bench(("usb3_hdr_rx",), factory)


class Stop(Exception):
    pass


class HdrRxPartner(L.SSPartner):
    def __init__(self, scn, viol, probes, faults, rule):
        cfg = scn["config"]
        super().__init__(ready=cfg["ready"], idle_valid=cfg.get("idle_valid", 1))
        self.ops = scn["ops"]
        self.cfg = cfg
        self.viol, self.probes, self.faults = viol, probes, faults
        self.rule = rule                       # generic rule name -> rule id (or None: not reported by this check)
        self.qready = L.Pattern(cfg["queue_ready"])
        self.rr_lat = cfg.get("rr_lat", 1)
        self.eager = cfg.get("eager", 0)
        # ---- partner (link) state ----
        self.opi = 0
        self.wait = None                       # (what, ready-cycles waited)
        self.idle_left = 0
        self.link_up = False
        self.credits = 0
        self.next_seq = 0
        self.unacked = []                      # sent, not yet LGOODed: list of op dicts (with "seq")
        self.pending_retry = False
        self.await_lbad = False
        self.m_ignoring_before = False
        self.model_retry_at = None
        self._last_reset_t = -10
        self.crash_where = "none"
        self.nd_count = 0
        self.last_hdr_end = -100
        self.stop_headers = False
        self.pulses = {}                       # cycle -> {pin: 1}
        self.enable = 1
        self.enable_plan = {}                  # cycle -> value
        self.done = False
        self.done_at = None
        # ---- reference model state ----
        self.m_expected_seq = 0
        self.m_ignoring = False
        self.m_exp_lgood = [7]                 # expected LGOOD subtypes still to come, in order
        self.m_exp_lbad = 0
        self.m_queue = []                      # accepted, not yet delivered header field dicts
        self.m_delivered = []
        self.m_issued = 0
        self.m_consumed = 0
        self.m_next_letter = 0
        self.m_adv_left = 5                    # commands of the advertisement still expected (LGOOD + 4 LCRD)
        self.m_adv_value = 7
        self.epoch_start = 0                   # cycle of the last enable / reset
        self.epoch_kind = "power_on"
        self.epochs = 0
        self.adv_ready_cycles = 0
        self.inflight_allow = None             # (cycle limit) one command presented at or before this cycle may still complete
        self.inflight_used = False
        self.inflight_cmd = "none"
        self.disabled_at = None
        self.sent_hdrs = []                    # every header sent: dict(t_end, seq, outcome, retry, op index)
        self.dut_cmds = []                     # every command received from the DUT
        self.last_accept_t = -100
        self.dead = False
        self.qready_now = 0
        self.stale_window_until = -1
        self.n_ready_cycles = 0

    # ------------------------------------------------------------------------------------------
    def hit(self, name):
        self.probes[name] = self.probes.get(name, 0) + 1

    def fail(self, generic, t, msg, **shape):
        if self.inflight_allow is not None and not self.inflight_used and (
                self.seg.mid_item or (self.presenting_since is not None and self.presenting_since <= self.inflight_allow)):
            self.inflight_cmd = "unfinished"          # the command in flight at the event has not even completed yet
            if "in_flight" in shape:
                shape["in_flight"] = "unfinished"
        rid = self.rule.get(generic)
        if rid is None:
            # a divergence that belongs to another property: after a (re-)enable it is a stale-state symptom
            if self.rule.get("fresh_state") and self.epochs > 0:
                rid = self.rule["fresh_state"]
                shape = {"symptom": generic, "after": self.epoch_kind, "in_flight": self.inflight_cmd}
            else:
                self.hit("foreign_divergence_not_reported")
                self.dead = True
                raise Stop()
        self.viol.add(rid, t, msg, **shape)
        self.dead = True
        raise Stop()

    # ------------------------------------------------------------------------------------------
    # partner script
    # ------------------------------------------------------------------------------------------
    def _queue_header(self, op, seq, delayed, retry):
        f = op.get("fault") or {}
        kind = f.get("kind")
        if retry:
            kind = None
        sseq = seq
        if kind == "hdr_seq":
            sseq = (seq + f["delta"]) & 7
        ws = [list(w) for w in L.header_words(op["dw0"], op["dw1"], op["dw2"], sseq, op.get("rsvd", 0), op.get("hub", 0),
                                              delayed, op.get("df", 0))]
        if kind == "hdr_crc5":
            ws[4][0] ^= 1 << f["bit"]
        elif kind == "hdr_crc16":
            ws[f["word"]][0] ^= 1 << f["bit"]
        if kind:
            self.faults[kind] = self.faults.get(kind, 0) + 1
        gap = op.get("gap", 1) if not retry else 1
        if gap:
            self.txq.extend([(0, 0, 1, None)] * gap)
        elif self.sent and self.sent[-1][4] is not None and self.sent[-1][4][0] == "hdr_end":
            self.hit("back_to_back_headers")
        wg = {} if retry else {p: n for p, n in op.get("wgaps", [])}
        p = L.parse_header([w[0] for w in ws[1:]])
        self.m_ignoring_before = self.m_ignoring
        rec = {"op": self.opi, "seq": p["seq"], "crc_ok": p["crc5_ok"] and p["crc16_ok"], "retry": retry, "fields": p,
               "kind": kind or "none", "b2b": gap == 0}
        for k, (d, c) in enumerate(ws):
            if k in wg:
                self.txq.extend([(d ^ 0x5A5A5A5A, 0, 0, None)] * wg[k])
                self.faults["invalid_word_gap"] = self.faults.get("invalid_word_gap", 0) + 1
            self.txq.append((d, c, 1, ("hdr_end", rec) if k == 4 else ("hdr", k)))
        if op.get("dpp") is not None and (op["dw0"] & 0x1F) == L.HP_TYPE_DATA:
            self.queue_words(L.dpp_words(bytes.fromhex(op["dpp"]), abort=bool(delayed)))
        return rec

    def on_sent(self, t, data, ctrl, valid, tag):
        if tag[0] == "hdr_end":
            self._model_header(t, tag[1])
        elif tag[0] == "lrty":
            self.pulses.setdefault(t + self.rr_lat, {})["retry_received"] = 1
            self.model_retry_at = t + self.rr_lat

    def _model_header(self, t, rec):
        """ the reference model's verdict on a header whose last word is sent in cycle t """
        rec["t_end"] = t
        self.last_hdr_end = t
        if self.m_ignoring:
            rec["outcome"] = "ignored"
            self.hit("header_while_ignoring")
        elif not rec["crc_ok"]:
            rec["outcome"] = "bad"
            self.m_ignoring = True
            self.m_exp_lbad += 1
        elif rec["seq"] != self.m_expected_seq:
            rec["outcome"] = "badseq"
            self.hit("bad_sequence")
        else:
            rec["outcome"] = "accept"
            self.m_expected_seq = (self.m_expected_seq + 1) & 7
            self.m_exp_lgood.append(rec["seq"])
            f = rec["fields"]
            self.m_queue.append({"dw0": f["dw0"], "dw1": f["dw1"], "dw2": f["dw2"], "crc16": f["crc16"], "sequence_number": f["seq"],
                                 "dw3_reserved": f["rsvd"], "hub_depth": f["hub_depth"], "delayed": f["delayed"],
                                 "deferred": f["deferred"], "crc5": f["crc5"], "_rec": rec})
            self.last_accept_t = t
            if rec["retry"]:
                self.hit("accepted_after_retry")
            if len(self.m_queue) == BUFFERS:
                self.hit("all_buffers_full")
        self.sent_hdrs.append(rec)

    def _start_wait(self, what):
        if self.wait is None or self.wait[0] != what:
            self.wait = [what, 0]

    def step(self, t):
        if self.dead:
            return
        try:
            self._step(t)
        except Stop:
            pass

    def _step(self, t):
        # pins with defaults
        p = {"retry_received": 0, "retry_required": 0, "keepalive_required": 0, "reject_power_state": 0, "usb_reset": 0}
        p.update(self.pulses.pop(t, {}))
        if t in self.enable_plan:
            self._set_enable(t, self.enable_plan.pop(t))
        if p.get("usb_reset"):
            self._model_reset(t)
        if self.model_retry_at == t:
            self.m_ignoring = False
        p["enable"] = self.enable
        self.qready_now = self.qready.at(t)
        p["queue_ready"] = self.qready_now
        self.pins = p
        if self.done or self.txq or self.enable_plan or not self.enable:
            return
        if self.idle_left > 0:
            self.idle_left -= 1
            return
        # ---- retry has priority over new work ----
        if self.pending_retry and self.link_up:
            self.pending_retry = False
            self.hit("retries")
            self.txq.extend([(0, 0, 1, None)] * self.cfg.get("lrty_gap", 1))
            ws = L.link_command(L.LRTY)
            self.txq.append((ws[0][0], ws[0][1], 1, None))
            self.txq.append((ws[1][0], ws[1][1], 1, ("lrty",)))
            for oi, seq in list(self.unacked):
                self._queue_header(self.ops[oi], seq, 1, True)
            return
        if self.await_lbad:
            self._start_wait("lbad")
            return
        if self.opi >= len(self.ops):
            self._drain(t)
            return
        op = self.ops[self.opi]
        kind = op["op"]
        if kind == "hdr":
            if self.stop_headers:
                self.opi += 1
                return
            if not self.link_up or self.m_adv_left > 0 or self.credits <= 0 or len(self.unacked) >= BUFFERS:
                self._start_wait("credit" if self.link_up and self.m_adv_left == 0 else "advertisement")
                return
            self.wait = None
            rec = self._queue_header(op, self.next_seq, 0, False)
            self.unacked.append([self.opi, self.next_seq])
            self.next_seq = (self.next_seq + 1) & 7
            self.credits -= 1
            if rec["kind"] == "hdr_seq":
                self.stop_headers = True        # a sequence error ends the U0 history (the link goes to Recovery)
            elif rec["kind"] != "none" and not self.eager and not self.m_ignoring_before:
                self.await_lbad = True          # a non-eager partner waits for the LBAD and retries before doing anything else
            self.opi += 1
            return
        if self.m_adv_left > 0:
            self._start_wait("advertisement")        # nothing else happens on a link that is not up yet
            return
        self.wait = None
        if kind == "idle":
            self.idle_left = op["n"]
        elif kind == "lcmd":
            self.queue_words(L.link_command(op["cmd"], op["sub"]))
        elif kind in ("retry_required", "keepalive", "lxu"):
            pin = {"retry_required": "retry_required", "keepalive": "keepalive_required", "lxu": "reject_power_state"}[kind]
            self.pulses.setdefault(t + 1, {})[pin] = 1
            self.faults[kind] = self.faults.get(kind, 0) + 1
            self.idle_left = op.get("after", 0)
        elif kind == "disable":
            # the partner's link goes down with ours: no header of its own completes within 5 cycles before the event
            t0 = max(t + 1 + op.get("delay", 0), self.last_hdr_end + 6)
            self.enable_plan[t0] = 0
            self.enable_plan[t0 + op["len"]] = 1
            r = op.get("reset")
            if r == "edge":
                self.pulses.setdefault(t0, {})["usb_reset"] = 1
            elif r == "during":
                a = min(t0 + 1 + op.get("reset_at", 0) % max(1, op["len"]), t0 + op["len"] - 1)
                for k in range(op.get("reset_len", 1)):
                    if a + k <= t0 + op["len"] - 1:
                        self.pulses.setdefault(a + k, {})["usb_reset"] = 1
            self.faults["link_disable"] = self.faults.get("link_disable", 0) + 1
        elif kind == "reset":
            t0 = max(t + 1 + op.get("delay", 0), self.last_hdr_end + 6)
            self.pulses.setdefault(t0, {})["usb_reset"] = 1
            self.idle_left = t0 - t + 2
        self.opi += 1

    def _drain(self, t):
        """ all ops done: wait until the DUT has nothing left to do """
        quiet = (not self.m_exp_lgood and not self.m_queue and self.m_adv_left == 0 and
                 self.m_issued >= BUFFERS + self.m_consumed and self.m_exp_lbad == 0 and not self.pending_retry)
        if quiet:
            if self.done_at is None:
                self.done_at = t
            elif t > self.done_at + 12:
                self.done = True
            return
        self.done_at = None
        self._start_wait("drain")

    # ------------------------------------------------------------------------------------------
    # enable / reset episodes (C38)
    # ------------------------------------------------------------------------------------------
    def _classify_inflight(self, t):
        """ what was the DUT's link-command source doing in cycle t-1 (the last observed cycle)? """
        if self.seg.mid_item:
            # LCSTART transferred, command word not yet
            return "command_word"
        if self.presenting_since is not None:
            return "lcstart_word"
        return "none"

    def _set_enable(self, t, v):
        if v == 0 and self.enable == 1:
            self.enable = 0
            self.disabled_at = t
            where = self._classify_inflight(t)
            self.crash_where = where
            self.hit("disable_" + where)
            self.inflight_allow = t + 1
            self.inflight_used = False
            self.inflight_cmd = "none" if where == "none" else "?"
            # the partner's link goes down with ours
            self.link_up = False
            self.credits = 0
            self.unacked = []
            self.pending_retry = False
            self.await_lbad = False
            self.wait = None
            # model: receive state becomes fresh
            self._model_fresh(t, "disable")
        elif v == 1 and self.enable == 0:
            self.enable = 1
            self.epoch_start = t
            self.adv_ready_cycles = 0

    def _model_fresh(self, t, kind):
        self.m_adv_value = (self.m_expected_seq - 1) & 7
        self.m_ambiguous_adv = None
        if t - self.last_accept_t <= 4:
            # a header completed within a few cycles of the event: either number is acceptable
            self.m_ambiguous_adv = (self.m_adv_value - 1) & 7
        self.m_exp_lgood = [self.m_adv_value]
        self.m_exp_lbad = 0
        self.m_queue = []
        self.m_ignoring = False
        self.m_issued = 0
        self.m_consumed = 0
        self.m_next_letter = 0
        self.m_adv_left = 5
        self.epochs += 1
        self.epoch_kind = kind
        self.epoch_start = t
        self.adv_ready_cycles = 0
        self.stale_window_until = t + 2

    def _model_reset(self, t):
        if self._last_reset_t == t - 1:
            self._last_reset_t = t
            self.epoch_start = t
            self.adv_ready_cycles = 0
            return
        self._last_reset_t = t
        where = self._classify_inflight(t)
        if self.enable:
            self.hit("reset_while_enabled_" + where)
            self.inflight_allow = t + 1
            self.inflight_used = False
            self.inflight_cmd = "none" if where == "none" else "?"
            self.crash_where = where
        self.m_expected_seq = 0
        self.last_accept_t = -100
        self._model_fresh(t, "reset")
        self.link_up = False
        self.credits = 0
        self.unacked = []
        self.pending_retry = False
        self.await_lbad = False
        self.next_seq = 0
        self.faults["usb3_reset"] = self.faults.get("usb3_reset", 0) + 1

    # ------------------------------------------------------------------------------------------
    # what the DUT sends
    # ------------------------------------------------------------------------------------------
    def on_item(self, t, it):
        if self.dead:
            return
        try:
            self._on_item(t, it)
        except Stop:
            pass

    def _on_item(self, t, it):
        if it["kind"] != "lcmd":
            self.fail("lgood_per_accept", t, f"the link-command source carried a {it['kind']} item {it} (only well-formed link commands expected)",
                      kind="malformed")
        cmd, sub = it["cmd"], it["sub"]
        name = L.lcmd_name(cmd, sub)
        self.dut_cmds.append((it["tp"], it["t0"], it["t1"], name))
        # one command that was being presented at the disable / reset instant may still complete
        # (presented no later than one cycle after the event: registered request pipelines; two or three cycles after the
        # event it is taken as in flight only if it is not what the advertisement would start with)
        if self.inflight_allow is not None and not self.inflight_used and (
                it["tp"] <= self.inflight_allow or
                (it["tp"] <= self.inflight_allow + 2 and not (cmd == L.LGOOD and sub == self.m_adv_value and self.m_adv_left == 5))):
            self.inflight_used = True
            self.inflight_cmd = L.LCMD_NAMES.get(cmd, str(cmd))
            self.hit("inflight_" + self.inflight_cmd)
            return
        if not self.enable:
            self.fail("readvertise", t, f"{name} sent (presented at cycle {it['tp']}) while the link is disabled since cycle {self.disabled_at} "
                      f"(beyond the one command in flight: {self.inflight_cmd})", what="command_while_disabled", in_flight=self.inflight_cmd,
                      after=self.epoch_kind)
        in_adv = self.m_adv_left > 0
        if in_adv:
            want = "LGOOD" if self.m_adv_left == 5 else "LCRD_" + "ABCD"[4 - self.m_adv_left]
            ok = (cmd == L.LGOOD and self.m_adv_left == 5) or (cmd == L.LCRD and self.m_adv_left < 5 and sub == 4 - self.m_adv_left)
            if ok and cmd == L.LGOOD and sub != self.m_adv_value:
                if self.m_ambiguous_adv is not None and sub == self.m_ambiguous_adv:
                    # the header that raced with the event was not counted by the DUT: follow it
                    self.m_adv_value = sub
                    self.m_expected_seq = (sub + 1) & 7
                    self.m_exp_lgood = [sub]
                else:
                    ok = False
            if not ok and it["tp"] < self.epoch_start:
                ok = None
            if ok is False or ok is None:
                generic = "readvertise" if self.epochs > 0 else ("lgood_per_accept" if cmd == L.LGOOD or self.m_adv_left == 5 else "credit_order")
                self.fail(generic, t, f"after {self.epoch_kind} at cycle {self.epoch_start}: command #{5 - self.m_adv_left} of the advertisement is {name} "
                          f"(presented at {it['tp']}), expected {want}{'_' + str(self.m_adv_value) if want == 'LGOOD' else ''}; "
                          f"in flight at the event: {self.inflight_cmd}; DUT commands so far {[c[3] for c in self.dut_cmds[-8:]]}",
                          what="wrong_command", in_flight=self.inflight_cmd, after=self.epoch_kind)
        if cmd == L.LGOOD:
            if not self.m_exp_lgood or self.m_exp_lgood[0] != sub:
                last = self.sent_hdrs[-1] if self.sent_hdrs else None
                self.fail("lgood_per_accept", t, f"{name} sent; the reference model expects {('LGOOD_%d' % self.m_exp_lgood[0]) if self.m_exp_lgood else 'no LGOOD'} "
                          f"(last header sent: {last and (last['seq'], last['outcome'], last['t_end'])})",
                          kind="unexpected" if not self.m_exp_lgood else "wrong_number",
                          last_outcome=last["outcome"] if last else "none", b2b=bool(last and last["b2b"]))
            self.m_exp_lgood.pop(0)
            if in_adv:
                self.m_adv_left -= 1
                self.link_up = True
                self.next_seq = (sub + 1) & 7
                self.hit("advertisements")
            else:
                # partner: retire the acknowledged header
                if self.unacked and self.unacked[0][1] == sub:
                    self.unacked.pop(0)
        elif cmd == L.LCRD:
            if sub != self.m_next_letter:
                self.fail("credit_order", t, f"{name} sent, expected LCRD_{'ABCD'[self.m_next_letter]}", got=sub, want=self.m_next_letter)
            if self.m_issued + 1 > BUFFERS + self.m_consumed:
                self.fail("credit_bound", t, f"{name}: {self.m_issued + 1} credits issued since link-up but only {self.m_consumed} headers were "
                          f"consumed by the protocol layer ({BUFFERS} buffers)", issued=self.m_issued + 1, consumed=self.m_consumed)
            self.m_next_letter = (self.m_next_letter + 1) & 3
            self.m_issued += 1
            self.credits += 1
            if in_adv:
                self.m_adv_left -= 1
                if self.m_adv_left == 0:
                    self.hit("advertisement_complete")
        elif cmd == L.LBAD:
            if self.m_exp_lbad <= 0:
                last = self.sent_hdrs[-1] if self.sent_hdrs else None
                self.fail("lbad_then_ignore", t, f"LBAD sent although no corrupted header is outstanding (last header: "
                          f"{last and (last['seq'], last['outcome'], last['t_end'])})", kind="spurious_lbad",
                          last_outcome=last["outcome"] if last else "none")
            self.m_exp_lbad -= 1
            self.pending_retry = True
            self.await_lbad = False
            self.hit("lbad_seen")
        elif cmd == L.LRTY:
            self.hit("lrty_sent_by_dut")
        elif cmd in (L.LUP, L.LDN):
            self.hit("keepalive_sent_by_dut")
        elif cmd == L.LXU:
            self.hit("lxu_sent_by_dut")
        else:
            self.fail("lgood_per_accept", t, f"unexpected link command {name}", kind="unknown_command")

    # ------------------------------------------------------------------------------------------
    def observe(self, t, o):
        if self.dead:
            return True
        try:
            super().observe(t, o)
            self._observe(t, o)
        except Stop:
            return True
        return self.done or self.dead

    def _observe(self, t, o):
        if self._ready_now:
            self.n_ready_cycles += 1
        # ---- queue ----
        if o["queue_valid"] and self.qready_now:
            got = {f: o["q_" + f] for f in HDR_FIELDS}
            if t <= self.stale_window_until:
                pass        # a delivery in the very cycle(s) of the disable / reset edge still belongs to the old epoch
            elif not self.m_queue:
                dup = any(all(d[f] == got[f] for f in HDR_FIELDS) for d in self.m_delivered[-BUFFERS:])
                last = self.sent_hdrs[-1] if self.sent_hdrs else None
                if self.epochs > 0 and self.rule.get("fresh_state") and not self._accepted_this_epoch():
                    self.fail("fresh_state", t, f"header seq {got['sequence_number']} offered on the queue after {self.epoch_kind} at cycle "
                              f"{self.epoch_start} although nothing has been accepted since: the buffers are not fresh",
                              symptom="stale_queue", after=self.epoch_kind, in_flight=self.inflight_cmd)
                self.fail("once_in_order" if dup else "accept_iff", t, f"header {got} taken from the queue but the reference model has no accepted, "
                          f"undelivered header (duplicate of an earlier delivery: {dup}; last header sent: {last and (last['seq'], last['outcome'])})",
                          kind="duplicate" if dup else "accepted_unexpectedly", last_outcome=last["outcome"] if last else "none")
            else:
                want = self.m_queue[0]
                if any(want[f] != got[f] for f in HDR_FIELDS):
                    self.fail("once_in_order", t, f"queue delivered {got}, expected {dict((f, want[f]) for f in HDR_FIELDS)} "
                              f"(sent back-to-back: {want['_rec']['b2b']})", kind="wrong_header", b2b=want["_rec"]["b2b"])
                self.m_delivered.append(self.m_queue.pop(0))
                self.m_consumed += 1
        elif o["queue_valid"] and not self.m_queue and t > self.stale_window_until + 2 and self.epochs > 0 and not self._accepted_this_epoch() \
                and self.rule.get("fresh_state") and self.enable and t > self.epoch_start + 2:
            self.fail("fresh_state", t, f"queue.valid high after {self.epoch_kind} at cycle {self.epoch_start} although nothing has been accepted since",
                      symptom="stale_queue", after=self.epoch_kind, in_flight=self.inflight_cmd)
        if self.m_queue and not o["queue_valid"]:
            self.nd_count += 1
            if self.nd_count > 200:
                rec = self.m_queue[0]["_rec"]
                self.fail("accept_iff", t, f"header seq {rec['seq']} (sent ending at cycle {rec['t_end']}, CRCs valid, expected sequence, receiver not ignoring, "
                          f"back-to-back with the previous packet: {rec['b2b']}, retry: {rec['retry']}) was never offered on the queue "
                          f"(queue.valid low for 200 cycles); DUT commands {[c[3] for c in self.dut_cmds[-6:]]}",
                          kind="not_accepted", b2b=rec["b2b"], retry=rec["retry"])
        else:
            self.nd_count = 0
        # ---- advertisement progress (C38.progress / bring-up) ----
        if self.enable and self.m_adv_left > 0 and self._ready_now:
            self.adv_ready_cycles += 1
            if self.adv_ready_cycles > ADV_LIMIT:
                generic = "progress" if self.epochs > 0 else "lgood_per_accept"
                self.fail(generic, t, f"after {self.epoch_kind} at cycle {self.epoch_start}: only {5 - self.m_adv_left} of the 5 advertisement commands "
                          f"(LGOOD_{self.m_adv_value}, LCRD_A..D) within {ADV_LIMIT} cycles with the PHY ready; in flight at the event: {self.inflight_cmd} "
                          f"({self.crash_where}); DUT commands so far {[c[3] for c in self.dut_cmds[-8:]]}",
                          what="missing", in_flight=self.inflight_cmd, after=self.epoch_kind)
        # ---- a legal partner does not wait forever ----
        if self.wait is not None and self.enable and self._ready_now and not self.txq:
            self.wait[1] += 1
            if self.wait[1] > WAIT_LIMIT:
                what = self.wait[0]
                last = self.sent_hdrs[-1] if self.sent_hdrs else None
                ctx = (f"expected still: LGOOD {self.m_exp_lgood}, LBAD {self.m_exp_lbad}, undelivered {len(self.m_queue)}, credits issued "
                       f"{self.m_issued} consumed {self.m_consumed}; partner credits {self.credits}, unacked {[u[1] for u in self.unacked]}; "
                       f"last headers {[(h['seq'], h['outcome'], h['t_end']) for h in self.sent_hdrs[-4:]]}; DUT commands {[c[3] for c in self.dut_cmds[-8:]]}")
                b2b = bool(last and last["b2b"])
                if self.m_exp_lbad > 0:
                    bads = [h for h in self.sent_hdrs if h["outcome"] == "bad"]
                    b2b = bool(bads and bads[-1]["b2b"])
                if self.m_exp_lgood:
                    accs = [h for h in self.sent_hdrs if h["outcome"] == "accept" and h["seq"] == self.m_exp_lgood[0]]
                    b2b = bool(accs and accs[-1]["b2b"])
                if self.m_exp_lgood:
                    self.fail("accept_iff" if self.m_queue else "lgood_per_accept", t, f"waiting for {what}: no LGOOD_{self.m_exp_lgood[0]} for an accepted "
                              f"header within {WAIT_LIMIT} ready cycles; {ctx}", kind="not_accepted" if self.m_queue else "missing_lgood", b2b=b2b)
                if self.m_exp_lbad > 0:
                    self.fail("lbad_then_ignore", t, f"waiting for {what}: no LBAD for a corrupted header within {WAIT_LIMIT} ready cycles; {ctx}",
                              kind="missing_lbad", b2b=b2b)
                if self.m_queue and all(self.qready.bits):
                    self.fail("once_in_order", t, f"waiting for {what}: accepted header never offered on the queue; {ctx}", kind="not_delivered")
                if self.m_issued < BUFFERS + self.m_consumed:
                    self.fail("credit_return", t, f"waiting for {what}: only {self.m_issued} credits issued for {BUFFERS} buffers + {self.m_consumed} "
                              f"consumed headers within {WAIT_LIMIT} ready cycles; {ctx}", kind="missing_credit")
                if self.m_queue:
                    # the consumer pattern is slow: keep waiting (bounded by the run's cycle cap)
                    self.wait[1] = 0
                    return
                raise RuntimeError(f"partner stuck waiting for {what} although the model expects nothing: {ctx}")

    def _accepted_this_epoch(self):
        return any(h["outcome"] == "accept" and h["t_end"] >= self.epoch_start for h in self.sent_hdrs[-8:])
