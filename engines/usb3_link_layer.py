"""
engines.usb3_link_layer -- bench, link-partner (host) script and reference model for the composed USB3LinkLayer (C38).

DUT: luna.gateware.usb.usb3.link.layer.USB3LinkLayer, complete and unmodified: LTSSMController, TSTransceiver,
IdleHandshakeHandler, LinkMaintenanceTimers, PacketTransmitter, HeaderPacketReceiver, the data packet units and the stream
arbiter, wired together by layer.py.  The physical layer is a stub object exposing exactly the signals layer.py uses
(`source`, `raw_source`, `sink` streams and the PIPE-ish control / status signals); every one of them is driven or observed by
the Python host actor below, which sits where the PHY would be (after the descrambler: words are exchanged unscrambled;
`source` and `raw_source` carry the same words).

Host actor (`LinkLayerHost`): a USB3 downstream port at the 32-bit word level, written from USB 3.2 chapter 7.5:
  * power-on / warm-reset bring-up: answers receiver detection, exchanges Polling.LFPS, sends TSEQ while the device trains its
    equaliser, then TS1 until the device sends TS2, TS2 until the device stops sending training sets, then logical idle;
  * in U0: waits for the device's advertisement, sends its own (LGOOD_7, LCRD_A..D), then header packets numbered from the
    device's advertisement, within the credits the device issued; LGO_U1 requests; idle;
  * leaves U0 by: Recovery (TS1, TS2, idle), Hot Reset (Recovery with the Reset bit set in its TS2s until the device answers
    with Reset TS2s, then plain TS2s, idle), Warm Reset (LFPS reset signalling for n cycles, then a full bring-up), VBUS
    loss (same, through vbus_present), a header with a wrong sequence number (the device itself starts Recovery), or Recovery
    with a Warm Reset arriving while the link is down.

Simulation fast-forward: Polling.RxEQ lasts 65536 TSEQ ordered sets (524288 cycles, ~45 s of simulation).  Unless the
scenario says `"ff": null`, the host pre-loads the TSEQ emitter's "ordered sets sent" counter (the one register
`ts.tseq_generator.sent_ordered_sets`) with 65536 - k in the first cycle of Polling.RxEQ, so that the burst ends after k more
ordered sets.  Nothing else is touched: no LUNA code is patched, every connection of layer.py is the real one, and the state
reached is the one the design reaches by itself 8 * (65536 - k) cycles later (apart from the LTSSM's time-in-state counter,
which Polling.RxEQ does not read).  The thorough tier also runs scenarios without the fast-forward.

Reference model (from the C38 statement): whenever `trained` rises, the link commands the device puts on the wire -- beyond at
most one that was already being presented two cycles after `trained` fell (or has been held back by the training sets, which
take precedence on the way to the PHY, since then) -- start with LGOOD_n, LCRD_A, LCRD_B, LCRD_C, LCRD_D,
with n = 7 after power-on and after any USB reset since the last U0 (Hot Reset handshake completed, Warm Reset signalling, VBUS
loss), else the number of the last header accepted; no link command while `trained` is low; the advertisement completes within
200 PHY-ready cycles; afterwards headers numbered from the advertisement are acknowledged with their number and delivered
unchanged on `header_source`, nothing accepted before the outage is offered, and the link stays in U0.  A link that does not
train or re-train at all (the host script times out in a training phase) is a harness error, not a C38 verdict.

Scenario: {"engine": "usb3_link_layer", "config": {"ready": [...], "queue_ready": [...], "ff": [k, ...] | None, "lfps_gap": n,
"hot_extra": n}, "ops": [...]} with ops
  {"op": "hdr", "dw0", "dw1", "dw2", "hub", "df", "rsvd", "gap", "fault": {"kind": "hdr_crc5"|"hdr_crc16", ...}}
  {"op": "idle", "n"} | {"op": "lgo"}
  {"op": "exit", "kind": "recovery"|"hot_reset"|"warm_reset"|"vbus"|"bad_seq"|"recovery_warm", "delay", "len", "delta"}
"""

from amaranth import Signal
from amaranth.hdl import Fragment

from dsim.kernel import make_bench, cached_bench
from models import usb3_link as L

HDR_FIELDS = ["dw0", "dw1", "dw2", "crc16", "sequence_number", "dw3_reserved", "hub_depth", "delayed", "deferred", "crc5"]
BUFFERS = 4
ADV_LIMIT = 200            # C38.progress bound (cycles with the PHY ready)
WAIT_LIMIT = 400           # ready-cycles a legal partner waits for an acknowledgement
TSEQ_SETS = 65536
INFLIGHT_SLACK = 2

# training ordered sets (USB 3.2 tables 6-3 .. 6-5), as (data, ctrl) words
COMW = (L.word(L.COM, L.COM, L.COM, L.COM), 0xF)
TSEQ = [(0xC017FFBC, 0x1), (0x02E7B214, 0), (0x286E7282, 0), (0xBF6DBEA6, 0), (0x4A4A4A4A, 0), (0x4A4A4A4A, 0), (0x4A4A4A4A, 0),
        (0x4A4A4A4A, 0)]


def ts1(func=0):
    return [COMW, (0x4A4A0000 | (func << 8), 0), (0x4A4A4A4A, 0), (0x4A4A4A4A, 0)]


def ts2(func=0):
    return [COMW, (0x45450000 | (func << 8), 0), (0x45454545, 0), (0x45454545, 0)]


TS_RESET = 1               # link functionality bit 0: Reset


class StubPHY:
    """ The physical-layer object handed to USB3LinkLayer: only the signals layer.py touches. """

    def __init__(self):
        from luna.gateware.usb.stream import USBRawSuperSpeedStream
        self.source = USBRawSuperSpeedStream()
        self.raw_source = USBRawSuperSpeedStream()
        self.sink = USBRawSuperSpeedStream()
        widths = dict(ready=1, lfps_reset_detected=1, vbus_present=1, perform_rx_detection=1, link_partner_detected=1,
                      no_link_partner_detected=1, tx_deemph=2, tx_electrical_idle=1, tx_ones_zeros=1, engage_terminations=1,
                      invert_rx_polarity=1, train_equalizer=1, lfps_polling_detected=1, send_lfps_polling=1, lfps_cycles_sent=16,
                      lfps_ping_detected=1, enable_scrambling=1, can_send_skp=1)
        for name, width in widths.items():
            setattr(self, name, Signal(width, name=f"phy_{name}"))


def _subfragment(frag, name):
    for entry in frag.subfragments:
        if entry[1] == name:
            return entry[0]
    raise RuntimeError(f"link layer has no submodule {name!r}")


def _tseq_counter(frag):
    """ The TSEQ emitter's ordered-set counter (fast-forward target; see the module docstring). """
    gen = _subfragment(_subfragment(frag, "ts"), "tseq_generator")
    stmts = gen.statements
    for group in (stmts.values() if isinstance(stmts, dict) else [stmts]):
        for stmt in group:
            for sig in stmt._lhs_signals():
                if sig.name == "sent_ordered_sets":
                    if (1 << len(sig)) != TSEQ_SETS:
                        raise FastForwardUnavailable("unexpected TSEQ burst length")
                    return sig
    raise FastForwardUnavailable("TSEQ emitter counter not found")


class FastForwardUnavailable(Exception):
    """ The simulation fast-forward relies on one internal register of the TSEQ emitter (found by name). If a refactoring
    renames it, the composed scenarios that need the fast-forward are skipped (and counted) rather than reported as a
    harness error or -- worse -- as a verdict; scenarios that play the full burst (thorough tier) still run. """


def link_layer_bench():
    def factory():
        from luna.gateware.usb.usb3.link.layer import USB3LinkLayer
        phy = StubPHY()
        dut = USB3LinkLayer(physical_layer=phy)
        frag = Fragment.get(dut, None)
        ins = {"rx_valid": phy.source.valid, "rx_data": phy.source.data, "rx_ctrl": phy.source.ctrl,
               "raw_valid": phy.raw_source.valid, "raw_data": phy.raw_source.data, "raw_ctrl": phy.raw_source.ctrl,
               "tx_ready": phy.sink.ready, "phy_ready": phy.ready, "vbus_present": phy.vbus_present,
               "lfps_reset_detected": phy.lfps_reset_detected, "link_partner_detected": phy.link_partner_detected,
               "no_link_partner_detected": phy.no_link_partner_detected, "lfps_polling_detected": phy.lfps_polling_detected,
               "lfps_cycles_sent": phy.lfps_cycles_sent, "lfps_ping_detected": phy.lfps_ping_detected,
               "queue_ready": dut.header_source.ready, "hsink_valid": dut.header_sink.valid,
               "ff_tseq_sets_sent": _tseq_counter(frag)}
        outs = {"tx_valid": phy.sink.valid, "tx_data": phy.sink.data, "tx_ctrl": phy.sink.ctrl,
                "trained": dut.trained, "ready": dut.ready, "in_reset": dut.in_reset,
                "perform_rx_detection": phy.perform_rx_detection, "send_lfps_polling": phy.send_lfps_polling,
                "train_equalizer": phy.train_equalizer, "tx_electrical_idle": phy.tx_electrical_idle,
                "queue_valid": dut.header_source.valid, "can_send_skp": phy.can_send_skp}
        for f in HDR_FIELDS:
            outs["q_" + f] = getattr(dut.header_source.header, f)
        return make_bench(frag, clocks={"ss": 1 / 125e6}, main="ss", ins=ins, outs=outs)
    return cached_bench(("usb3_link_layer",), factory)


INIT_PINS = {"phy_ready": 1, "vbus_present": 1, "rx_valid": 1, "raw_valid": 1, "tx_ready": 1}


class Stop(Exception):
    pass


class LinkLayerHost:
    """ Host-side actor + reference model; see the module docstring. """

    def __init__(self, scn, viol, probes, faults, rule):
        cfg = scn["config"]
        self.cfg = cfg
        self.ops = scn["ops"]
        self.viol, self.probes, self.faults, self.rule = viol, probes, faults, rule
        self.ready = L.Pattern(cfg["ready"])
        self.qready = L.Pattern(cfg["queue_ready"])
        self.ff = list(cfg["ff"]) if cfg.get("ff") is not None else None
        self.ff_last = None
        self.t = 0
        self.o = None                          # last observed sample
        self.pins = {}                         # sticky control pins
        self.word = (0, 0, 1)                  # word driven this cycle (data, ctrl, valid)
        self.dead = False
        self.done = False
        self.script = self._script()
        self.opi = 0
        self.phase = "bringup"
        # ---- monitor state ----
        self.seg = L.StreamSegmenter()
        self._seen_items = 0
        self._pres = None                      # (data, ctrl, since) of the word being presented and not yet transferred
        self._item_tp = None
        self.last_idle_t = -1                  # last cycle in which the sink carried logical idle (the arbiter had nothing to send)
        self._lc_free_t = -1
        self.n_words = 0                       # words transferred by the device
        self.last_ts = (None, -100)            # (kind, word index) of the last training set header seen
        self._prev_word = (0, 0)
        self.trained = 0
        self.down_t = None
        self.up_t = None
        self.expect_down = False
        self.reset_since_u0 = True             # power-on
        self.reset_kind = "power_on"
        self.n_ready_cycles = 0
        self._ready_now = 1
        self.qready_now = 0
        # ---- reference model ----
        self.m_expected_seq = 0
        self.m_exp_lgood = []
        self.m_exp_lbad = 0
        self.m_queue = []
        self.m_delivered = 0
        self.m_issued = 0
        self.m_consumed = 0
        self.m_next_letter = 0
        self.m_adv_left = 0
        self.m_adv_value = 7
        self.epochs = 0                        # U0 entries so far
        self.epoch_kind = "power_on"
        self.adv_ready_cycles = 0
        self.inflight_used = True
        self.inflight_cmd = "none"
        self.accepted_this_epoch = 0
        self.accepted_total = 0
        self.dut_cmds = []
        self.sent_hdrs = []
        self.last_hdr_end = -100
        self.nd_count = 0
        # ---- host link state ----
        self.credits = 0
        self.next_seq = 0
        self.unacked = 0
        self.host_adv_sent = False
        self.block_headers = False
        self.exits = []

    # ------------------------------------------------------------------------------------------
    def hit(self, name, n=1):
        self.probes[name] = self.probes.get(name, 0) + n

    def fail(self, generic, t, msg, **shape):
        shape.setdefault("level", "link_layer")
        shape.setdefault("after", self.epoch_kind)
        self.viol.add(self.rule[generic], t, msg, **shape)
        self.dead = True
        raise Stop()

    def stuck(self, what):
        raise RuntimeError(f"host script stuck at cycle {self.t} waiting for {what} (phase {self.phase}, op {self.opi}/{len(self.ops)}, "
                           f"trained {self.trained}, device sending {self.device_sending()})")

    # ------------------------------------------------------------------------------------------
    # actor interface
    # ------------------------------------------------------------------------------------------
    def drive(self, t):
        self.t = t
        if not self.dead and not self.done:
            try:
                next(self.script)
            except StopIteration:
                self.done = True
            except Stop:
                pass
        d = dict(self.pins)
        data, ctrl, valid = self.word
        self.word = (0, 0, 1)
        d["rx_valid"] = d["raw_valid"] = valid
        d["rx_data"] = d["raw_data"] = data
        d["rx_ctrl"] = d["raw_ctrl"] = ctrl
        self._ready_now = self.ready.at(t)
        d["tx_ready"] = self._ready_now
        self.qready_now = self.qready.at(t)
        d["queue_ready"] = self.qready_now
        return d

    def observe(self, t, o):
        if self.dead:
            return True
        self.o = o
        try:
            self._observe(t, o)
        except Stop:
            return True
        return self.done or self.dead

    # ------------------------------------------------------------------------------------------
    # script helpers (generator based; one `yield` = one cycle)
    # ------------------------------------------------------------------------------------------
    def _send(self, words, tag=None):
        for k, (d, c) in enumerate(words):
            self.word = (d, c, 1)
            if tag is not None and k == len(words) - 1:
                tag(self.t)
            yield

    def _idle(self, n):
        for _ in range(n):
            yield

    def _wait(self, cond, limit, what, words=None):
        """ repeats `words` (an ordered set; default: one logical idle word) until cond() holds """
        n = 0
        while not cond():
            if n > limit:
                self.stuck(what)
            if words is None:
                n += 1
                yield
            else:
                for d, c in words:
                    self.word = (d, c, 1)
                    n += 1
                    yield

    def device_sending(self):
        kind, at = self.last_ts
        return kind if self.n_words - at < 8 else None

    # ------------------------------------------------------------------------------------------
    def _script(self):
        yield from self._bringup()
        while self.opi < len(self.ops):
            op = self.ops[self.opi]
            kind = op["op"]
            if kind == "exit":
                yield from self._exit(op)
            else:
                yield from self._wait_link_up()
                if kind == "hdr":
                    yield from self._header(op)
                elif kind == "idle":
                    yield from self._idle(op["n"])
                elif kind == "lgo":
                    yield from self._send(L.link_command(L.LGO_U, 1))
                    self.faults["lgo"] = self.faults.get("lgo", 0) + 1
            self.opi += 1
        yield from self._wait_link_up()
        yield from self._drain()

    def _bringup(self):
        self.phase = "bringup"
        lim = 4000
        yield from self._wait(lambda: self.o is not None and self.o["perform_rx_detection"], lim, "receiver detection")
        self.pins["link_partner_detected"] = 1
        yield
        self.pins["link_partner_detected"] = 0
        yield from self._wait(lambda: self.o["send_lfps_polling"], lim, "Polling.LFPS")
        self.pins["lfps_cycles_sent"] = 16
        self.pins["lfps_polling_detected"] = 1
        yield from self._idle(self.cfg.get("lfps_gap", 4))
        self.pins["lfps_cycles_sent"] = 24
        yield from self._wait(lambda: self.o["train_equalizer"], lim, "Polling.RxEQ")
        self.pins["lfps_polling_detected"] = 0
        self.pins["lfps_cycles_sent"] = 0
        if self.ff is not None:
            k = self.ff.pop(0) if self.ff else 8
            v = TSEQ_SETS - max(2, k)
            if v == self.ff_last:
                v -= 1
            self.ff_last = v
            self.pins["ff_tseq_sets_sent"] = v
            self.hit("ll_tseq_fast_forward")
            rx_lim = 8 * (k + 4) * len(self.ready.bits) + 200
        else:
            self.hit("ll_tseq_full_burst")
            rx_lim = 8 * TSEQ_SETS * 2 + 1000
        yield from self._wait(lambda: not self.o["train_equalizer"], rx_lim, "end of Polling.RxEQ", TSEQ)
        yield from self._train(reset=False)

    def _train(self, reset):
        """ TS1 / TS2 / idle handshake; with reset=True the host's TS2s carry the Reset bit until the device echoes it """
        lim = 6000
        yield from self._wait(lambda: self.device_sending() in ("TS2", "TS2_RESET"), lim, "device sending TS2", ts1())
        if reset:
            yield from self._wait(lambda: self.device_sending() == "TS2_RESET", lim, "device sending TS2 with Reset (Hot Reset.Active)",
                                  ts2(TS_RESET))
            # the device has entered Hot Reset: this is a USB reset
            self._note_reset("hot_reset")
            for _ in range(self.cfg.get("hot_extra", 8)):
                yield from self._send(ts2(TS_RESET))
        yield from self._wait(lambda: self.device_sending() is None, lim, "device done with its TS2s", ts2())
        yield from self._wait(lambda: self.trained, 400, "U0")

    def _wait_link_up(self):
        """ a legal partner waits for the complete advertisement, then advertises itself """
        if self.host_adv_sent:
            return
        self.phase = "await_advertisement"
        yield from self._wait(lambda: self.trained and self.m_adv_left == 0, 4 * ADV_LIMIT * len(self.ready.bits), "advertisement")
        self.phase = "u0"
        yield from self._send(L.link_command(L.LGOOD, 7))
        for k in range(4):
            yield from self._send(L.link_command(L.LCRD, k))
        self.host_adv_sent = True

    def _header(self, op):
        if self.block_headers:
            return
        # credits: a legal partner sends a header only with an unused credit
        n = 0
        while self.credits <= 0 or self.unacked >= BUFFERS:
            n += self._ready_now
            if n > WAIT_LIMIT:
                self._starved(self.t)
                n = 0
            yield
        f = op.get("fault") or {}
        kind = f.get("kind")
        seq = self.next_seq
        ws = [list(w) for w in L.header_words(op["dw0"], op["dw1"], op["dw2"], seq, op.get("rsvd", 0), op.get("hub", 0), 0, op.get("df", 0))]
        if kind == "hdr_crc5":
            ws[4][0] ^= 1 << f["bit"]
        elif kind == "hdr_crc16":
            ws[f["word"]][0] ^= 1 << f["bit"]
        if kind:
            self.faults[kind] = self.faults.get(kind, 0) + 1
        p = L.parse_header([w[0] for w in ws[1:]])
        rec = {"seq": p["seq"], "crc_ok": p["crc5_ok"] and p["crc16_ok"], "fields": p, "kind": kind or "none"}
        yield from self._idle(op.get("gap", 1))
        self.credits -= 1
        self.unacked += 1
        self.next_seq = (self.next_seq + 1) & 7
        yield from self._send(ws, tag=lambda t: self._model_header(t, rec))
        if not rec["crc_ok"]:
            # the host would have to retry after the LBAD; the scenarios leave U0 instead (no further header in this epoch)
            self.block_headers = True

    def _starved(self, t):
        ctx = (f"credits issued {self.m_issued}, consumed {self.m_consumed}, LGOODs outstanding {self.m_exp_lgood}, undelivered {len(self.m_queue)}; "
               f"device commands {[c[2] for c in self.dut_cmds[-8:]]}")
        if self.m_exp_lgood:
            self.fail("fresh_state", t, f"no LGOOD_{self.m_exp_lgood[0]} for a header sent with valid CRCs and the advertised sequence number within "
                      f"{WAIT_LIMIT} ready cycles; {ctx}", symptom="not_acknowledged")
        if self.m_issued < BUFFERS + self.m_consumed:
            self.fail("fresh_state", t, f"credit not returned within {WAIT_LIMIT} ready cycles; {ctx}", symptom="missing_credit")
        if self.m_queue and all(self.qready.bits):
            self.fail("fresh_state", t, f"accepted header never offered on header_source; {ctx}", symptom="not_delivered")
        if self.m_queue:
            return
        raise RuntimeError(f"host starved although the model expects nothing: {ctx}")

    def _drain(self):
        self.phase = "drain"
        n = 0
        quiet_since = None
        while True:
            quiet = (not self.m_exp_lgood and not self.m_queue and self.m_adv_left == 0 and self.m_issued >= BUFFERS + self.m_consumed
                     and self.m_exp_lbad == 0)
            if quiet:
                quiet_since = quiet_since if quiet_since is not None else self.t
                if self.t > quiet_since + 12:
                    return
            else:
                quiet_since = None
                n += self._ready_now
                if n > WAIT_LIMIT + 300:
                    if self.m_exp_lbad > 0 and not self.m_exp_lgood and not self.m_queue and self.m_issued >= BUFFERS + self.m_consumed:
                        return          # a missing LBAD is C37's business
                    self._starved(self.t)
                    n = 0
            yield

    # ------------------------------------------------------------------------------------------
    # leaving U0
    # ------------------------------------------------------------------------------------------
    def _note_reset(self, kind):
        self.reset_since_u0 = True
        self.reset_kind = kind
        self.faults["usb3_reset_" + kind] = self.faults.get("usb3_reset_" + kind, 0) + 1

    def _exit(self, op):
        kind = op["kind"]
        if kind == "bad_seq" and self.block_headers:
            kind = "recovery"       # the device ignores headers after a corrupted one: a wrong number would go unnoticed
        if not op.get("early") or kind == "bad_seq":
            yield from self._wait_link_up()
        yield from self._idle(op.get("delay", 0))
        self.phase = "exit_" + kind
        self.exits.append(kind)
        self.faults["exit_" + kind] = self.faults.get("exit_" + kind, 0) + 1
        self.expect_down = True
        self.host_adv_sent = False
        self.credits = 0
        self.unacked = 0
        if kind in ("warm_reset", "vbus"):
            # the partner's link goes down with the device's: no header of its own completes within 5 cycles before the event
            while self.t < self.last_hdr_end + 6:
                yield
            yield from self._reset_signalling("lfps_reset_detected" if kind == "warm_reset" else "vbus_present", op.get("len", 1), kind)
            yield from self._bringup()
        elif kind in ("recovery", "hot_reset", "recovery_warm"):
            if kind == "recovery_warm":
                yield from self._wait(lambda: not self.trained, 2000, "link leaving U0", ts1())
                for _ in range(op.get("ts1_more", 4)):
                    yield from self._send(ts1())
                yield from self._reset_signalling("lfps_reset_detected", op.get("len", 1), "warm_reset")
                yield from self._bringup()
            else:
                yield from self._train(reset=(kind == "hot_reset"))
        elif kind == "bad_seq":
            # a header with a wrong sequence number: the device itself must start Recovery [USB3.2 7.2.4.1.5]
            seq = (self.next_seq + op.get("delta", 1)) & 7
            if seq == self.next_seq:
                seq = (seq + 1) & 7
            ws = L.header_words(op.get("dw0", 0), op.get("dw1", 0), op.get("dw2", 0), seq)
            yield from self._send(ws, tag=lambda t: setattr(self, "last_hdr_end", t))
            yield from self._wait(lambda: not self.trained, 400, "device leaving U0 after a sequence error")
            yield from self._train(reset=False)
        else:
            raise RuntimeError(f"unknown exit kind {kind}")
        self.phase = "await_advertisement"

    def _reset_signalling(self, pin, n, kind):
        active = 0 if pin == "vbus_present" else 1
        self.pins[pin] = active
        self._note_reset(kind)
        self.word = (0, 0, 0)
        yield
        for _ in range(max(0, n - 1)):
            self.word = (0, 0, 0)
            yield
        self.pins[pin] = 1 - active
        if self.trained:
            # `trained` is observed with one cycle of delay by the script: give the monitor the cycle it needs
            yield
        if self.trained:
            self.fail("readvertise", self.t, f"the link is still reported as trained {n} cycles after {kind} signalling began", what="no_link_down")

    # ------------------------------------------------------------------------------------------
    # reference model
    # ------------------------------------------------------------------------------------------
    def _model_header(self, t, rec):
        rec["t_end"] = t
        self.last_hdr_end = t
        if not rec["crc_ok"]:
            rec["outcome"] = "bad"
            self.m_exp_lbad += 1
        elif rec["seq"] != self.m_expected_seq:
            raise RuntimeError("host numbered a header wrongly")
        else:
            rec["outcome"] = "accept"
            self.m_expected_seq = (self.m_expected_seq + 1) & 7
            self.m_exp_lgood.append(rec["seq"])
            f = rec["fields"]
            self.m_queue.append({"dw0": f["dw0"], "dw1": f["dw1"], "dw2": f["dw2"], "crc16": f["crc16"], "sequence_number": f["seq"],
                                 "dw3_reserved": f["rsvd"], "hub_depth": f["hub_depth"], "delayed": f["delayed"],
                                 "deferred": f["deferred"], "crc5": f["crc5"]})
            self.accepted_this_epoch += 1
            self.accepted_total += 1
        self.sent_hdrs.append(rec)

    def _link_down(self, t):
        self.down_t = t
        self.hit("ll_link_down")
        if self.seg.state == "lcmd" or (self._pres is not None and self._pres[:2] == L.LCSTART):
            self.hit("ll_command_in_flight_at_link_down")
        if not self.expect_down:
            self.fail("fresh_state", t, f"the link left U0 by itself at cycle {t} ({t - (self.up_t or 0)} cycles after entering it) although the host "
                      f"sent only legal traffic numbered from the advertisement LGOOD_{self.m_adv_value}; headers sent "
                      f"{[(h['seq'], h['outcome'], h['t_end']) for h in self.sent_hdrs[-4:]]}; device commands {[c[2] for c in self.dut_cmds[-8:]]}",
                      symptom="unexpected_link_down")
        self.inflight_used = False
        self.inflight_cmd = "none"
        # receive state becomes fresh
        self.m_exp_lgood = []
        self.m_exp_lbad = 0
        self.m_queue = []
        self.m_issued = 0
        self.m_consumed = 0
        self.m_next_letter = 0
        self.m_adv_left = 5
        # (a USB reset noted by the script -- before or after this edge -- stays noted until the next U0 entry)

    def _link_up(self, t):
        self.up_t = t
        self.epochs += 1
        self.hit("ll_u0_entries")
        if self.reset_since_u0:
            if self.epochs > 1:
                self.hit("ll_reentry_after_" + self.reset_kind)
                if self.m_expected_seq != 0:
                    self.hit("ll_reset_with_nonzero_sequence")
            self.m_expected_seq = 0
            self.epoch_kind = self.reset_kind
        else:
            last = self.exits[-1] if self.exits else "?"
            self.hit("ll_reentry_after_" + last)
            self.epoch_kind = last
        self.m_adv_value = (self.m_expected_seq - 1) & 7
        self.m_exp_lgood = [self.m_adv_value]
        self.m_adv_left = 5
        self.adv_ready_cycles = 0
        self.accepted_this_epoch = 0
        self.expect_down = False
        self.reset_since_u0 = False
        self.next_seq = 0
        self.credits = 0
        self.block_headers = False

    def _on_item(self, t, it):
        if it["kind"] in ("idle", "junk"):
            return
        if it["kind"] != "lcmd":
            if it["kind"] == "lcmd_bad" and not self.trained:
                return
            self.hit("ll_other_items")
            return
        cmd, sub = it["cmd"], it["sub"]
        name = L.lcmd_name(cmd, sub)
        self.dut_cmds.append((it["tp"], it["t1"], name))
        if self.epochs == 0:
            self.fail("readvertise", t, f"{name} sent before the link was ever trained", what="command_while_down", in_flight="none")
        # one command that was being presented when the link went down may still complete (the header receiver may present it up
        # to one cycle after the edge, as in the stand-alone bench; the registered stream arbiter in front of the PHY adds one)
        # behind the arbiter the command may have been waiting for the training sets to end: the receiver may have been
        # presenting it ever since the sink last carried logical idle (= no stream wanted the PHY)
        tp_eff = min(it["tp"], it.get("free_t", it["tp"]) + 1)
        if not self.inflight_used and self.down_t is not None and tp_eff <= self.down_t + INFLIGHT_SLACK:
            if tp_eff < it["tp"]:
                self.hit("ll_inflight_blocked_by_training_sets")
            self.inflight_used = True
            self.inflight_cmd = L.LCMD_NAMES.get(cmd, str(cmd))
            self.hit("ll_inflight_" + self.inflight_cmd)
            return
        if not self.trained or it["tp"] < (self.up_t or 0):
            self.fail("readvertise", t, f"{name} sent (presented at cycle {it['tp']}) while the link is down since cycle {self.down_t} "
                      f"(beyond the one command in flight: {self.inflight_cmd})", what="command_while_down", in_flight=self.inflight_cmd)
        if self.m_adv_left > 0:
            k = 5 - self.m_adv_left
            want = f"LGOOD_{self.m_adv_value}" if k == 0 else "LCRD_" + "ABCD"[k - 1]
            if name != want:
                self.fail("readvertise", t, f"after {self.epoch_kind} (link down at cycle {self.down_t}, U0 again at {self.up_t}): command #{k} of the "
                          f"advertisement is {name} (presented at {it['tp']}), expected {want}"
                          f"{' (USB reset: sequence numbers start over)' if self.m_adv_value == 7 and self.epochs > 1 else ''}; "
                          f"{self.accepted_total} headers accepted so far; in flight at link-down: {self.inflight_cmd}; device commands "
                          f"{[c[2] for c in self.dut_cmds[-8:]]}", what="wrong_command", in_flight=self.inflight_cmd)
        if cmd == L.LGOOD:
            if not self.m_exp_lgood or self.m_exp_lgood[0] != sub:
                self.fail("fresh_state", t, f"{name} sent; the reference model expects "
                          f"{('LGOOD_%d' % self.m_exp_lgood[0]) if self.m_exp_lgood else 'no LGOOD'}; headers sent "
                          f"{[(h['seq'], h['outcome'], h['t_end']) for h in self.sent_hdrs[-4:]]}", symptom="wrong_lgood")
            self.m_exp_lgood.pop(0)
            if self.m_adv_left > 0:
                self.m_adv_left -= 1
                self.next_seq = (sub + 1) & 7
                self.hit("ll_advertisements")
            else:
                self.unacked = max(0, self.unacked - 1)
        elif cmd == L.LCRD:
            if sub != self.m_next_letter:
                self.fail("fresh_state", t, f"{name} sent, expected LCRD_{'ABCD'[self.m_next_letter]}", symptom="credit_order")
            if self.m_issued + 1 > BUFFERS + self.m_consumed:
                self.fail("fresh_state", t, f"{name}: {self.m_issued + 1} credits issued since link-up but only {self.m_consumed} headers were consumed "
                          f"({BUFFERS} buffers)", symptom="credit_bound")
            self.m_next_letter = (self.m_next_letter + 1) & 3
            self.m_issued += 1
            self.credits += 1
            if self.m_adv_left > 0:
                self.m_adv_left -= 1
                if self.m_adv_left == 0:
                    self.hit("ll_advertisement_complete")
        elif cmd == L.LBAD:
            if self.m_exp_lbad <= 0:
                self.fail("fresh_state", t, "LBAD sent although no corrupted header is outstanding in this U0 epoch", symptom="stale_lbad")
            self.m_exp_lbad -= 1
        # LUP / LDN / LXU / LRTY after the advertisement: other properties' business

    def _observe(self, t, o):
        if self._ready_now:
            self.n_ready_cycles += 1
        # ---- link state ----
        tr = o["trained"]
        if self.trained and not tr:
            self.trained = 0
            self._link_down(t)
        elif tr and not self.trained:
            self.trained = 1
            self._link_up(t)
        # ---- what the device transmits ----
        if o["tx_valid"]:
            data, ctrl = o["tx_data"], o["tx_ctrl"]
            if self._pres is None or (self._pres[0], self._pres[1]) != (data, ctrl):
                self._pres = (data, ctrl, t)
                if (data, ctrl) == L.LCSTART:
                    self._lc_free_t = self.last_idle_t
            if (data, ctrl) == L.IDLE:
                self.last_idle_t = t
            if self._ready_now:
                since = self._pres[2]
                self._pres = None
                self.n_words += 1
                if self._prev_word == COMW and ctrl == 0:
                    if (data >> 16) == 0x4A4A:
                        self.last_ts = ("TS1", self.n_words)
                    elif (data >> 16) == 0x4545:
                        if (data >> 8) & TS_RESET:
                            self.last_ts = ("TS2_RESET", self.n_words)
                        else:
                            self.last_ts = ("TS2", self.n_words)
                self._prev_word = (data, ctrl)
                # (training-set and logical-idle words outside a framed item are of no interest to the segmenter)
                if self.seg.mid_item or (ctrl == 0xF and data != COMW[0]):
                    if not self.seg.mid_item:
                        self._item_tp = since
                    self.seg.push(t, data, ctrl)
                    while self._seen_items < len(self.seg.items):
                        it = self.seg.items[self._seen_items]
                        self._seen_items += 1
                        it["tp"] = self._item_tp
                        it["free_t"] = self._lc_free_t
                        self._on_item(t, it)
                    if len(self.seg.items) > 64:
                        del self.seg.items[:]
                        self._seen_items = 0
        else:
            self._pres = None
        # ---- header_source ----
        # (deliveries while the link is down, or in the very cycles of the edges, still belong to the old epoch: the statement
        # speaks about the state after re-entry)
        stale_window = (not self.trained) or (self.down_t is not None and t <= self.down_t + 2)
        if o["queue_valid"] and self.qready_now:
            got = {f: o["q_" + f] for f in HDR_FIELDS}
            if stale_window:
                pass            # a delivery in the very cycle(s) of the link-down edge still belongs to the old epoch
            elif not self.m_queue:
                self.fail("fresh_state", t, f"header seq {got['sequence_number']} delivered on header_source after {self.epoch_kind} although the "
                          f"reference model has no accepted, undelivered header ({self.accepted_this_epoch} accepted since U0 at {self.up_t}): "
                          f"the buffers are not fresh", symptom="stale_queue")
            else:
                want = self.m_queue[0]
                if any(want[f] != got[f] for f in HDR_FIELDS):
                    self.fail("fresh_state", t, f"header_source delivered {got}, expected {want}", symptom="wrong_header")
                self.m_queue.pop(0)
                self.m_delivered += 1
                self.m_consumed += 1
                self.hit("ll_headers_delivered")
        elif o["queue_valid"] and not self.m_queue and not stale_window and self.trained and self.up_t is not None and t > self.up_t + 2 \
                and self.down_t is not None and t > self.down_t + 4:
            self.fail("fresh_state", t, f"header_source.valid high after {self.epoch_kind} (U0 at {self.up_t}) although nothing accepted is undelivered",
                      symptom="stale_queue")
        if self.m_queue and not o["queue_valid"] and self.trained:
            self.nd_count += 1
            if self.nd_count > 200:
                self.fail("fresh_state", t, f"header seq {self.m_queue[0]['sequence_number']} (valid CRCs, numbered from the advertisement "
                          f"LGOOD_{self.m_adv_value}) was never offered on header_source (valid low for 200 cycles); device commands "
                          f"{[c[2] for c in self.dut_cmds[-6:]]}", symptom="not_accepted")
        else:
            self.nd_count = 0
        # ---- advertisement progress ----
        if self.trained and self.m_adv_left > 0 and self._ready_now:
            self.adv_ready_cycles += 1
            if self.adv_ready_cycles > ADV_LIMIT:
                self.fail("progress", t, f"after {self.epoch_kind} (U0 at cycle {self.up_t}): only {5 - self.m_adv_left} of the 5 advertisement commands "
                          f"(LGOOD_{self.m_adv_value}, LCRD_A..D) within {ADV_LIMIT} cycles with the PHY ready; in flight at link-down: "
                          f"{self.inflight_cmd}; device commands {[c[2] for c in self.dut_cmds[-8:]]}", what="missing", in_flight=self.inflight_cmd)
