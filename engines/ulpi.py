"""
engines.ulpi -- the real UTMITranslator (luna.gateware.interface.ulpi) between a ULPI PHY model and a UTMI user.

Real:  UTMITranslator with ULPIRegisterWindow, ULPIControlTranslator, ULPIRxEventDecoder, ULPITransmitTranslator.
Stubs: models.ulpi_phy.ULPIPhy (the PHY side), UTMITx (a UTMI transmitter that holds each byte until tx_ready),
       the control inputs (driven literally by the Director).

Scenario format (JSON):
  config: {"rst": bool,                      # ULPI record with a `rst` member (60 000-cycle start-up wait) or without
           "start_at": cycle of the first op, "tail": quiet cycles at the end,
           "phy": {ULPIPhy cfg}, "tx_gap": min idle cycles between UTMI packets, "ctrl": {initial control inputs}}
  ops:    executed in order by the Director; every op has "wait" = cycles after the previous op was *issued*:
          {"op":"rx", ...ULPIPhy rx operation..., "trigger":[phase,k]|null}     -> queued at the PHY
          {"op":"tx", "data": hex}                                              -> queued at the UTMI transmitter
          {"op":"ctrl", "set": {name: value}}                                   -> control inputs change now
          {"op":"sync", "what": "tx"|"regs"|"phy"|"all", "max": n}              -> wait until quiescent
"""

from amaranth.hdl.rec import Record, DIR_FANIN, DIR_FANOUT

from dsim.kernel import make_bench, cached_bench
from models.ulpi_phy import ULPIPhy, func_ctrl_value, otg_ctrl_value, FUNC_CTRL, OTG_CTRL

CTRL_NAMES = ["xcvr_select", "term_select", "op_mode", "suspend", "id_pullup", "dp_pulldown", "dm_pulldown",
              "chrg_vbus", "dischrg_vbus", "use_external_vbus_indicator"]
STATUS_NAMES = ["line_state", "vbus_valid", "session_valid", "session_end", "rx_error", "host_disconnect", "id_digital"]
# the ULPI reset values of Function Control (41h) / OTG Control (06h), expressed as control inputs
CTRL_RESET = {"xcvr_select": 1, "term_select": 0, "op_mode": 0, "suspend": 0, "id_pullup": 0, "dp_pulldown": 1,
              "dm_pulldown": 1, "chrg_vbus": 0, "dischrg_vbus": 0, "use_external_vbus_indicator": 0}


def ulpi_bench(with_rst):
    def factory():
        from luna.gateware.interface.ulpi import UTMITranslator
        layout = [
            ('data', [('i', 8, DIR_FANIN), ('o', 8, DIR_FANOUT), ('oe', 1, DIR_FANOUT)]),
            ('clk', [('o', 1, DIR_FANOUT)]),
            ('nxt', [('i', 1, DIR_FANIN)]),
            ('stp', [('o', 1, DIR_FANOUT)]),
            ('dir', [('i', 1, DIR_FANIN)]),
        ]
        if with_rst:
            layout.append(('rst', [('o', 1, DIR_FANOUT)]))
        ulpi = Record(layout)
        dut = UTMITranslator(ulpi=ulpi, handle_clocking=False)
        ins = {"dir": ulpi.dir.i, "nxt": ulpi.nxt.i, "data_i": ulpi.data.i, "tx_data": dut.tx_data, "tx_valid": dut.tx_valid}
        for n in CTRL_NAMES:
            ins[n] = getattr(dut, n)
        outs = {"data_o": ulpi.data.o, "data_oe": ulpi.data.oe, "stp": ulpi.stp.o, "tx_ready": dut.tx_ready,
                "rx_data": dut.rx_data, "rx_valid": dut.rx_valid, "rx_active": dut.rx_active, "busy": dut.busy}
        for n in STATUS_NAMES:
            outs[n] = getattr(dut, n)
        return make_bench(dut, clocks={"usb": 1 / 60e6}, main="usb", ins=ins, outs=outs)
    return cached_bench(("ulpi", bool(with_rst)), factory)


class UTMITx:
    """ A UTMI transmitter: presents a byte with tx_valid until tx_ready, then the next one; drops tx_valid after the
        last byte was taken; leaves `gap` idle cycles between packets. """

    def __init__(self, gap=2):
        self.queue = []
        self.gap = max(1, gap)
        self.cur = None
        self.idx = 0
        self.cool = 0
        self.packets = []       # {"data": bytes, "t_valid": first cycle with tx_valid, "acc": [cycles], "t_end": first cycle low again}
        self.valid_now = 0
        self.data_now = 0

    def idle(self):
        return self.cur is None and not self.queue

    def push(self, data):
        self.queue.append(bytes(data))

    def drive(self, t):
        if self.cur is None and self.queue and self.cool <= 0:
            self.cur = {"data": self.queue.pop(0), "t_valid": t, "acc": [], "t_end": None}
            self.idx = 0
        if self.cur is not None:
            self.valid_now, self.data_now = 1, self.cur["data"][self.idx]
        else:
            self.valid_now, self.data_now = 0, 0
            self.cool -= 1
        return {"tx_valid": self.valid_now, "tx_data": self.data_now}

    def observe(self, t, s):
        if self.cur is not None and s["tx_ready"]:
            self.cur["acc"].append(t)
            self.idx += 1
            if self.idx >= len(self.cur["data"]):
                self.cur["t_end"] = t + 1
                self.packets.append(self.cur)
                self.cur = None
                self.cool = self.gap
        return False


class Director:
    """ Issues the scenario's ops in order; owns the control inputs; decides when the run is over. """

    def __init__(self, scn, phy, utmi):
        cfg = scn["config"]
        self.ops = scn["ops"]
        self.phy, self.utmi = phy, utmi
        self.ctrl = dict(CTRL_RESET)
        self.ctrl.update(cfg.get("ctrl") or {})
        self.ctrl_log = [(0, dict(self.ctrl))]       # (cycle from which the values are driven, values)
        self.i = 0
        self.t_next = cfg.get("start_at", 2) + (self.ops[0].get("wait", 0) if self.ops else 0)
        self.tail = cfg.get("tail", 12)
        self.sync_since = None
        self.sync_failed = []
        self.quiet = 0
        self.finished = False
        self.issued = []          # (t, op index)
        self.stop_request = False

    def requested(self):
        return {FUNC_CTRL: func_ctrl_value(self.ctrl), OTG_CTRL: otg_ctrl_value(self.ctrl)}

    def regs_match(self):
        r = self.requested()
        return all(self.phy.regs.get(a) == v for a, v in r.items())

    def _sync_ok(self, what, t):
        ok = True
        if what in ("tx", "all"):
            ok = ok and self.utmi.idle() and self.phy.state != "TX"      # i.e. the STP cycle is over as well
        if what in ("phy", "all"):
            ok = ok and self.phy.idle()
        if what in ("regs", "all"):
            # matched, and the write's completion strobe inside the link (the cycle after STP) is over as well
            ok = ok and self.regs_match() and self.phy.state == "IDLE"
            ok = ok and (not self.phy.reg_writes or t - self.phy.reg_writes[-1]["t_stp"] >= 4)
        return ok

    def drive(self, t):
        out = None
        while self.i < len(self.ops) and t >= self.t_next:
            op = self.ops[self.i]
            kind = op["op"]
            if kind == "sync":
                if self.sync_since is None:
                    self.sync_since = t
                if not self._sync_ok(op.get("what", "all"), t):
                    if t - self.sync_since <= op.get("max", 600):
                        break
                    self.sync_failed.append((t, self.i))
                self.sync_since = None
            elif kind == "rx":
                self.phy.push(op, t)
            elif kind == "tx":
                self.utmi.push(bytes.fromhex(op["data"]))
            elif kind == "ctrl":
                self.ctrl.update(op["set"])
                self.ctrl_log.append((t, dict(self.ctrl)))
                out = dict(self.ctrl)
            elif kind == "idle":
                pass
            else:
                raise ValueError(kind)
            self.issued.append((t, self.i))
            self.i += 1
            if self.i < len(self.ops):
                self.t_next = t + self.ops[self.i].get("wait", 0)
        if t == 0:
            out = dict(self.ctrl)
        return out

    def observe(self, t, s):
        if self.stop_request:
            return True
        if self.i >= len(self.ops) and self.phy.idle() and self.utmi.idle():
            self.quiet += 1
            if self.quiet >= self.tail:
                self.finished = True
                return True
        else:
            self.quiet = 0
        return False


class Trace:
    """ Per-cycle record of the pins: what the PHY and the UTMI side drove, and what the translator showed. """
    FIELDS = ("dir", "nxt", "data_i", "tag", "tx_valid", "tx_data", "data_o", "data_oe", "stp", "tx_ready",
              "rx_data", "rx_valid", "rx_active", "busy") + tuple(STATUS_NAMES)

    def __init__(self, phy, utmi):
        self.phy, self.utmi = phy, utmi
        self.rows = []

    def observe(self, t, s):
        d, n, x, tag = self.phy.cur
        self.rows.append((d, n, x, tag, self.utmi.valid_now, self.utmi.data_now, s["data_o"], s["data_oe"], s["stp"],
                          s["tx_ready"], s["rx_data"], s["rx_valid"], s["rx_active"], s["busy"],
                          s["line_state"], s["vbus_valid"], s["session_valid"], s["session_end"], s["rx_error"],
                          s["host_disconnect"], s["id_digital"]))
        return False


IDX = {n: i for i, n in enumerate(Trace.FIELDS)}


def max_cycles_for(scn):
    cfg = scn["config"]
    n = cfg.get("start_at", 2) + cfg.get("tail", 12) + 400
    for op in scn["ops"]:
        n += op.get("wait", 0) + 30
        if op["op"] == "rx":
            n += 2 * len(op.get("data", "")) + sum(op.get("gaps") or [0]) * (len(op.get("data", "")) // 2 + 1) + 60
            n += cfg["phy"].get("patience", 120) if op.get("trigger") else 0
        elif op["op"] == "tx":
            n += 6 * (len(op["data"]) // 2) + 60
        elif op["op"] == "sync":
            n += op.get("max", 600)
    return n


def run_history(scn, make_monitors=None):
    """ -> (log, director, phy, utmi, trace).  make_monitors(phy, utmi, director) -> extra observe-only actors. """
    cfg = scn["config"]
    bench = ulpi_bench(cfg.get("rst", False))
    phy = ULPIPhy(cfg["phy"])
    utmi = UTMITx(gap=cfg.get("tx_gap", 2))
    director = Director(scn, phy, utmi)
    trace = Trace(phy, utmi)
    extra = list(make_monitors(phy, utmi, director)) if make_monitors else []
    # fixed order.  drive: director (issues ops, control pins), utmi, phy.  observe: utmi, phy, trace, monitors, and the
    # director last so that its end-of-run decision sees the other actors' state after this cycle.
    ordered = [_DriveOnly(director), utmi, phy, trace] + extra + [_ObserveOnly(director)]
    log = bench.run(ordered, max_cycles_for(scn), init=dict(director.ctrl))
    return log, director, phy, utmi, trace


class _DriveOnly:
    def __init__(self, a):
        self.drive = a.drive


class _ObserveOnly:
    def __init__(self, a):
        self.observe = a.observe
