"""
C32 -- receive CTC removes exactly the SKP symbols and nothing else.

DUT: luna.gateware.usb.usb3.physical.ctc.CTCSkipRemover (real, standalone, domain ss) with source.ready tied high, as it
is wired in USB3PhysicalLayer.
Actors: one literal word stream (data, ctrl, valid per cycle).
Oracle: symbol-level conservation: flattened valid output words == accepted input symbols minus control-SKPs, in order;
output lags by a bounded number of symbols; at most 3 symbols stay buffered at the end; skip_removed strobes once per
accepted word that contained a SKP.
"""

import hashlib

from dsim.kernel import make_bench, cached_bench, Violations
from models import usb3

PROPERTY = "C32"
ENGINE = "usb3_phys"
CLOCK_HZ = 125e6
RULES = {
    "C32.symbols": "valid output words, flattened, are exactly the accepted input symbols with every control-SKP removed "
                   "(same order, no loss, no duplication, data bytes equal to 0x3C kept)",
    "C32.regroup": "output is produced in complete 4-symbol words as soon as enough symbols are buffered: never more than "
                   "11 symbols pending",
    "C32.residue": "after the input ends at most 3 symbols remain buffered (and they are not emitted as a partial word)",
    "C32.skip_removed": "skip_removed strobes once per accepted word containing a control-SKP (latency <= 2 cycles), never otherwise",
}
PROBES = ["all_skp_word", "consecutive_all_skp_words_3plus", "single_skp_in_word", "skp_as_data_kept", "skp_pair_straddles_words",
          "buffer_phase_1", "buffer_phase_2", "buffer_phase_3", "invalid_word_gap", "long_skp_free_stretch", "three_skp_word"]
META = {
    "components_real": ["luna.gateware.usb.usb3.physical.ctc.CTCSkipRemover"],
    "components_stubbed": ["PHY receive word stream (literal words)", "downstream: ready tied high"],
    "assumptions": ["source.ready is always 1 (as wired in USB3PhysicalLayer)", "inputs change only on the clock"],
    "rule": "80-400 input words drawn from phases: plain data, K symbols, SKP at random byte masks, SKP pairs at any alignment, "
            "runs of 1-5 all-SKP words, 0x3C data bytes, optional invalid-word gaps; drained by invalid or all-SKP words",
}
TIERS = {"quick": {"runs": 30000, "wall": 70}, "thorough": {"runs": 60000, "wall": 900}}


def _sym(rng, ctr):
    r = rng.random()
    if r < 0.72:
        return (ctr[0] & 0xFF, 0)
    if r < 0.80:
        return (usb3.SKP, 0)                     # 0x3C as *data*: must be kept
    if r < 0.92:
        return (rng.choice(usb3.K_SYMBOLS_NO_SKP_COM + [usb3.COM]), 1)
    return (rng.getrandbits(8), 0)


def gen(rng, tier, index):
    n = rng.randint(80, 400 if tier == "quick" else 1500)
    gaps = rng.random() < 0.3
    syms = []            # flat symbol list, later cut into words
    ctr = [rng.getrandbits(8)]

    def data(k):
        for _ in range(k):
            ctr[0] += 1
            syms.append(_sym(rng, ctr))

    while len(syms) < 4 * n:
        ph = rng.choice(["data", "data", "skp_pair", "skp_single", "skp_run", "skp_words", "mask", "long"])
        if ph == "data":
            data(rng.randint(1, 24))
        elif ph == "long":
            data(rng.randint(40, 160))
        elif ph == "skp_pair":
            syms.extend([usb3.SKP_SYM] * 2)
            data(rng.randint(0, 9))
        elif ph == "skp_single":
            syms.append(usb3.SKP_SYM)
            data(rng.randint(0, 5))
        elif ph == "skp_run":
            syms.extend([usb3.SKP_SYM] * rng.randint(3, 11))
        elif ph == "skp_words":
            while len(syms) % 4:
                data(1)
            syms.extend([usb3.SKP_SYM] * (4 * rng.randint(1, 5)))
        else:
            for _ in range(rng.randint(1, 6)):
                m = rng.randrange(16)
                for i in range(4):
                    if (m >> i) & 1:
                        syms.append(usb3.SKP_SYM)
                    else:
                        data(1)
    words = usb3.pack_stream(syms[:4 * n])
    ops = []
    for d, c in words:
        v = 1
        if gaps and rng.random() < 0.12:
            # an invalid word: its content is arbitrary (possibly SKPs) and must be ignored entirely
            ops.append([rng.getrandbits(32) if rng.random() < 0.5 else usb3.SKP_WORD[0], rng.getrandbits(4), 0])
        ops.append([d, c, v])
    return {"engine": ENGINE, "config": {"drain": rng.choice(["invalid", "skp"])}, "ops": ops}


def _bench():
    def factory():
        from luna.gateware.usb.usb3.physical.ctc import CTCSkipRemover
        dut = CTCSkipRemover()
        ins = {"data": dut.sink.data, "ctrl": dut.sink.ctrl, "valid": dut.sink.valid, "src_ready": dut.source.ready}
        outs = {"ready": dut.sink.ready, "o_valid": dut.source.valid, "o_data": dut.source.data, "o_ctrl": dut.source.ctrl,
                "skip_removed": dut.skip_removed}
        return make_bench(dut, clocks={"ss": 1 / 125e6}, main="ss", ins=ins, outs=outs)
    return cached_bench(("c32",), factory)


class _Actor:
    DRAIN = 6

    def __init__(self, scn, viol, probes):
        self.ops = scn["ops"]
        self.drain = scn["config"]["drain"]
        self.viol, self.pr = viol, probes
        self.expected = []        # accepted non-SKP symbols not yet emitted
        self.accepted_syms = 0
        self.emitted_syms = 0
        self.skp_words = 0
        self.strobes = 0
        self.skp_word_cycles = []
        self.dead = False
        self.cur = None
        self.run_all_skp = 0
        self.skp_free = 0
        self.prev_last_skp = False
        self.classes = set()

    def drive(self, t):
        if t < len(self.ops):
            d, c, v = self.ops[t]
        elif self.drain == "skp":
            d, c, v = usb3.SKP_WORD[0], usb3.SKP_WORD[1], 1
        else:
            d, c, v = 0, 0, 0
        self.cur = (d, c, v)
        return {"data": d, "ctrl": c, "valid": v, "src_ready": 1}

    def _fail(self, rule, t, msg, **shape):
        self.viol.add(rule, t, msg, **shape)
        self.dead = True
        return True

    def observe(self, t, o):
        if self.dead:
            return True
        pr = self.pr
        d, c, v = self.cur
        # ---- input ---------------------------------------------------------------------------------------------
        had_skp = False
        if v and o["ready"]:
            syms = usb3.unpack_word(d, c)
            nskp = sum(1 for s in syms if s == usb3.SKP_SYM)
            had_skp = nskp > 0
            keep = [s for s in syms if s != usb3.SKP_SYM]
            self.expected.extend(keep)
            self.accepted_syms += len(keep)
            if t < len(self.ops):
                self.classes.add((nskp, len(self.expected) % 4))
                if nskp == 4:
                    pr["all_skp_word"] += 1
                    self.run_all_skp += 1
                    if self.run_all_skp == 3:
                        pr["consecutive_all_skp_words_3plus"] += 1
                else:
                    self.run_all_skp = 0
                if nskp == 1:
                    pr["single_skp_in_word"] += 1
                if nskp == 3:
                    pr["three_skp_word"] += 1
                if any(s == (usb3.SKP, 0) for s in syms):
                    pr["skp_as_data_kept"] += 1
                if self.prev_last_skp and syms[0] == usb3.SKP_SYM and syms[1] != usb3.SKP_SYM:
                    pr["skp_pair_straddles_words"] += 1
                self.prev_last_skp = syms[3] == usb3.SKP_SYM and syms[2] != usb3.SKP_SYM
                if nskp == 0:
                    self.skp_free += 1
                    if self.skp_free == 80:
                        pr["long_skp_free_stretch"] += 1
                else:
                    self.skp_free = 0
                ph = len(self.expected) % 4
                if ph:
                    pr[f"buffer_phase_{ph}"] += 1
        elif t < len(self.ops) and not v:
            pr["invalid_word_gap"] += 1
        # ---- output (checked after the input of the same cycle was added: the statement fixes no latency) ---------
        if o["o_valid"]:
            out = usb3.unpack_word(o["o_data"], o["o_ctrl"])
            if len(self.expected) < 4:
                return self._fail("C32.symbols", t, f"output word {out} although only {len(self.expected)} symbols are pending "
                                  f"({self.expected})", what="spurious_or_partial")
            exp = self.expected[:4]
            if out != exp:
                return self._fail("C32.symbols", t, f"output word {out}, expected {exp}", what="wrong_symbols")
            del self.expected[:4]
            self.emitted_syms += 4
        if had_skp:
            self.skp_words += 1
            self.skp_word_cycles.append(t)
        # ---- skip_removed --------------------------------------------------------------------------------------
        if o["skip_removed"]:
            self.strobes += 1
            if self.strobes > self.skp_words:
                return self._fail("C32.skip_removed", t, "skip_removed strobed although no accepted word contained a SKP",
                                  what="spurious")
        if self.skp_words - self.strobes > 0 and t - self.skp_word_cycles[self.strobes] > 2:
            return self._fail("C32.skip_removed", t, f"no skip_removed strobe for the SKP word accepted in cycle "
                              f"{self.skp_word_cycles[self.strobes]}", what="missing")
        # ---- lag -----------------------------------------------------------------------------------------------
        if len(self.expected) > 11:
            return self._fail("C32.regroup", t, f"{len(self.expected)} symbols pending, no output word", what="lag")
        if t >= len(self.ops) + self.DRAIN:
            if len(self.expected) > 3:
                return self._fail("C32.residue", t, f"{len(self.expected)} symbols still buffered after the input ended: "
                                  f"{self.expected}", what="stuck")
            return True
        return False


def run(scn):
    bench = _bench()
    viol = Violations()
    probes = {p: 0 for p in PROBES}
    actor = _Actor(scn, viol, probes)
    log = bench.run([actor], max_cycles=len(scn["ops"]) + actor.DRAIN + 2)
    if not viol and log.cycles < len(scn["ops"]) + actor.DRAIN:
        raise RuntimeError("run ended early")
    faults = {"invalid_word_gap": probes["invalid_word_gap"], "skp_insert": actor.skp_words}
    sig = hashlib.blake2b(repr((sorted(actor.classes), scn["config"]["drain"], probes["invalid_word_gap"] > 0,
                                probes["consecutive_all_skp_words_3plus"] > 0, probes["long_skp_free_stretch"] > 0,
                                probes["skp_pair_straddles_words"] > 0)).encode(), digest_size=8).hexdigest()
    return {"violations": viol.items, "cycles": log.cycles, "faults": faults, "probes": probes, "sig": sig,
            "nontrivial": actor.skp_words > 0 and actor.emitted_syms > 0, "digest": log.digest, "fsm": len(log.fsm_vectors)}


def shrink_candidates(scn):
    import copy
    ops = scn["ops"]
    # turn single words into plain data words (keeps the cycle alignment of everything else)
    for i in range(len(ops) - 1, -1, -1):
        if ops[i][1] or not ops[i][2]:
            cand = copy.deepcopy(scn)
            cand["ops"][i] = [0x03020100 + 0x04040404 * (i & 31), 0, 1]
            yield cand
