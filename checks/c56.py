"""
C56 -- the ILA captures exactly the samples following a trigger.

DUT: luna.gateware.debug.ila.IntegratedLogicAnalyzer (real), standalone, domain "sync".
Actor: literal input waveform (one value per cycle), literal trigger cycles, literal read-back operations.
Oracle: reference capture buffer.  The statement does not fix the absolute position of the first sample, so the
oracle accepts recorded[n] == inputs[T + c + n - pretrigger] for ONE offset c in {0,1,2} per run (T = cycle of the
accepted trigger); a trigger is "accepted" when the DUT's own `sampling` output is low in the trigger's cycle.
"""

import hashlib

from dsim.kernel import make_bench, cached_bench, Violations

PROPERTY = "C56"
ENGINE = "periph"
CLOCK_HZ = 60e6
RULES = {
    "C56.samples": "after completion, reading sample n returns inputs[T + c + n - pretrigger] for every n < sample_depth",
    "C56.no_disturb": "same as C56.samples/C56.complete for a capture during which further triggers were strobed",
    "C56.complete": "complete is low while a capture is in progress, rises within sample_depth+4 cycles of the trigger and "
                    "stays high until the next accepted trigger",
    "C56.sampling": "sampling is high after an accepted trigger and falls again within sample_depth+4 cycles; it is low when "
                    "no capture was triggered",
}
PROBES = ["depth_non_pow2", "depth_1", "pretrigger_0", "pretrigger_ge2", "trigger_during_capture", "trigger_last_capture_cycle",
          "retrigger_first_idle_cycle", "retrigger_before_readback", "captures_2plus", "full_readback", "read_right_after_complete",
          "reads_checked", "reads_cross_checked", "reads_skipped_not_complete", "multi_signal"]
META = {
    "components_real": ["luna.gateware.debug.ila.IntegratedLogicAnalyzer x2 (configured pretrigger + pretrigger 0; amaranth.lib.memory.Memory, FFSynchronizer)"],
    "components_stubbed": ["probed signals, trigger source and read-back master: literal per-cycle values from the scenario"],
    "assumptions": ["inputs and trigger change only on the clock",
                    "read-back: the sample number is held for 2-3 cycles and the value is checked in the last of them, and only "
                    "while complete has been high throughout (read latency is not part of the statement)",
                    "the position of sample 0 relative to the trigger is only fixed up to one consistent offset c in {0,1,2} per run",
                    "a trigger is accepted iff the DUT's `sampling` output is low in that cycle",
                    "'delayed by the configured pre-trigger count' is checked against a second real instance with "
                    "samples_pretrigger=0 fed with the same inputs: both must fit the same offset c"],
    "rule": "sample_depth 1..64 (incl. non powers of two), samples_pretrigger 0..5, 1-3 probed signals of total width 1..20, input "
            "changing (almost) every cycle; 1-4 captures each followed by read-back in random order; trigger storms during capture, "
            "held triggers, re-trigger in the first idle cycle, re-trigger before/while reading back",
}
TIERS = {"quick": {"runs": 6000, "wall": 70}, "thorough": {"runs": 70000, "wall": 900}}

OFFSETS = (0, 1, 2)
SLACK = 4


def gen(rng, tier, index):
    depth = rng.choice([1, 2, 3, 4, 5, 6, 7, 8, 9, 10, 12, 15, 16, 17, 24, 31, 32, 33, 48, 63, 64, rng.randint(1, 64)])
    pre = rng.choice([0, 1, 1, 1, 2, 2, 3, 4, 5])
    nsig = rng.choice([1, 1, 2, 3])
    widths = [rng.choice([1, 1, 2, 3, 4, 8]) for _ in range(nsig)]
    total_w = sum(widths)
    ops = []
    t = pre + rng.randint(1, 6)
    n_caps = rng.randint(1, 4 if tier == "quick" else 8)
    for c in range(n_caps):
        T = t
        style = rng.choice(["clean", "clean", "storm", "held", "last_cycle", "first_idle"])
        ops.append({"op": "trigger", "at": T, "len": 1})
        done = T + depth + 1                 # first cycle with complete high (reference timing)
        if style == "storm":
            for _ in range(rng.randint(1, 6)):
                ops.append({"op": "trigger", "at": T + 1 + rng.randrange(depth), "len": rng.choice([1, 1, 2])})
        elif style == "held":
            ops[-1]["len"] = rng.randint(2, depth + 3)
        elif style == "last_cycle":
            ops.append({"op": "trigger", "at": T + depth, "len": 1})
        t = done + rng.choice([0, 0, 1, 2, 5])
        if style == "first_idle" and c + 1 < n_caps:
            t = done
            continue
        if rng.random() < 0.15 and c + 1 < n_caps:
            continue                          # re-trigger before any read-back
        # read-back
        order = list(range(depth))
        rng.shuffle(order)
        if rng.random() < 0.5:
            order = order[:rng.randint(1, min(depth, 8))]
        elif rng.random() < 0.3:
            order = sorted(order)
        for n in order:
            hold = rng.choice([2, 2, 3])
            ops.append({"op": "read", "at": t, "n": n, "hold": hold})
            t += hold + rng.choice([0, 0, 0, 1])
        if rng.random() < 0.2 and c + 1 < n_caps:
            # re-trigger in the middle of the last read
            t -= 1
        else:
            t += rng.randint(0, 4)
    length = t + depth + 12
    wave = []
    prev = rng.getrandbits(total_w)
    for _ in range(length):
        v = rng.getrandbits(total_w)
        if v == prev:
            v ^= 1
        wave.append(v)
        prev = v
    return {"engine": ENGINE, "config": {"sample_depth": depth, "samples_pretrigger": pre, "widths": widths},
            "wave": wave, "ops": ops}


def _bench(cfg):
    from amaranth import Signal, Module, Elaboratable
    from luna.gateware.debug.ila import IntegratedLogicAnalyzer
    depth, pre, widths = cfg["sample_depth"], cfg["samples_pretrigger"], tuple(cfg["widths"])

    def factory():
        sigs = [Signal(w, name=f"probe{i}") for i, w in enumerate(widths)]
        dut = IntegratedLogicAnalyzer(signals=sigs, sample_depth=depth, samples_pretrigger=pre)
        # companion instance with samples_pretrigger=0 on the same inputs: "delayed by the configured pre-trigger count" is
        # checked as a relation between the two instances (both must fit the SAME offset c)
        ref = IntegratedLogicAnalyzer(signals=sigs, sample_depth=depth, samples_pretrigger=0)

        class Pair(Elaboratable):
            def elaborate(self, platform):
                m = Module()
                m.submodules.dut = dut
                m.submodules.ref = ref
                m.d.comb += [ref.trigger.eq(dut.trigger), ref.captured_sample_number.eq(dut.captured_sample_number)]
                return m
        ins = {f"p{i}": s for i, s in enumerate(sigs)}
        ins["trigger"] = dut.trigger
        ins["addr"] = dut.captured_sample_number
        outs = {"sample": dut.captured_sample, "complete": dut.complete, "sampling": dut.sampling,
                "sample0": ref.captured_sample, "complete0": ref.complete, "sampling0": ref.sampling}
        return make_bench(Pair(), clocks={"sync": 1 / 60e6}, main="sync", ins=ins, outs=outs)
    return cached_bench(("c56", depth, pre, widths), factory)


class _Actor:
    def __init__(self, scn, viol, probes):
        cfg = scn["config"]
        self.depth, self.pre, self.widths = cfg["sample_depth"], cfg["samples_pretrigger"], cfg["widths"]
        self.wave = scn["wave"]
        self.viol, self.probes = viol, probes
        self.trig = {}
        self.addr = {}
        self.checks = {}           # cycle -> (n, first cycle of the hold)
        end = 0
        for op in scn["ops"]:
            if op["op"] == "trigger":
                for c in range(op["at"], op["at"] + op["len"]):
                    self.trig[c] = 1
                end = max(end, op["at"] + op["len"])
            else:
                for c in range(op["at"], op["at"] + op["hold"]):
                    self.addr[c] = op["n"]
                self.checks[op["at"] + op["hold"] - 1] = (op["n"], op["at"])
                end = max(end, op["at"] + op["hold"])
        self.end = min(len(self.wave) - 1, end + self.depth + SLACK + 3)
        self.offsets = list(OFFSETS)
        self.T = None                  # cycle of the latest accepted trigger
        self.disturbed = False
        self.complete_seen = None      # cycle at which complete rose for the current capture
        self.sampling_fell = None
        self.complete_hist = []
        self.captures = 0
        self.read_set = set()
        self.stop = False
        self.classes = set()
        self.prev_sampling = 0
        self.T0 = None
        self.complete0_hist = []

    def _in(self, t):
        return self.wave[t] if 0 <= t < len(self.wave) else None

    def drive(self, t):
        v = self._in(t) or 0
        d = {"trigger": self.trig.get(t, 0), "addr": self.addr.get(t, 0)}
        sh = 0
        for i, w in enumerate(self.widths):
            d[f"p{i}"] = (v >> sh) & ((1 << w) - 1)
            sh += w
        return d

    def _fail(self, rule, t, msg, **shape):
        if self.disturbed and rule in ("C56.samples", "C56.complete", "C56.sampling"):
            rule = "C56.no_disturb"
        self.viol.add(rule, t, msg + f" [depth={self.depth}, pretrigger={self.pre}, trigger at {self.T}]",
                      depth_pow2=bool(self.depth & (self.depth - 1) == 0), pretrigger=self.pre, **shape)
        self.stop = True
        return True

    def observe(self, t, o):
        if self.stop:
            return True
        pr = self.probes
        depth = self.depth
        complete, sampling, trig = o["complete"], o["sampling"], self.trig.get(t, 0)
        self.complete_hist.append(complete)
        self.complete0_hist.append(o["complete0"])
        T = self.T
        # ---------------- status flags of the capture in progress ----------------
        if T is None:
            if complete:
                return self._fail("C56.complete", t, "complete is high although no capture was ever triggered", kind="early")
            if sampling:
                return self._fail("C56.sampling", t, "sampling is high although no capture was triggered", kind="spurious")
        else:
            dt = t - T
            if self.sampling_fell is None:
                if dt >= 2 and not sampling and self.prev_sampling:
                    self.sampling_fell = t
                elif dt >= 2 and not sampling and not self.prev_sampling and dt <= 2:
                    return self._fail("C56.sampling", t, "sampling did not go high after an accepted trigger", kind="never")
                elif dt > depth + SLACK:
                    return self._fail("C56.sampling", t, f"sampling still high {dt} cycles after the trigger", kind="stuck")
            else:
                if sampling:
                    return self._fail("C56.sampling", t, "sampling went high again without an accepted trigger", kind="spurious")
            if self.complete_seen is None:
                if complete and dt >= 2:
                    if sampling:
                        return self._fail("C56.complete", t, "complete is high while the capture is still in progress", kind="early")
                    self.complete_seen = t
                elif dt > depth + SLACK:
                    return self._fail("C56.complete", t, f"complete not raised {dt} cycles after the trigger", kind="never")
            else:
                if not complete:
                    return self._fail("C56.complete", t, f"complete (raised in cycle {self.complete_seen}) dropped without a new "
                                      "accepted trigger", kind="dropped")
        # ---------------- read-back check ----------------
        chk = self.checks.get(t)
        if chk is not None:
            n, first = chk
            ok_window = (T is not None and self.complete_seen is not None and self.complete_seen <= first
                         and all(self.complete_hist[first:t + 1]))
            if not ok_window or n >= depth:
                pr["reads_skipped_not_complete"] += 1
            else:
                got = o["sample"]
                keep = []
                exp_list = []
                for c in self.offsets:
                    exp = self._in(T + c + n - self.pre)
                    exp_list.append(exp)
                    if exp is None or exp == got:
                        keep.append(c)
                if not keep:
                    return self._fail("C56.samples", t, f"sample {n} reads 0x{got:x}; expected inputs[T+c+{n}-{self.pre}] = "
                                      f"{['0x%x' % e for e in exp_list]} for the offsets c={self.offsets} still consistent with "
                                      f"this run", kind="data", n_is_last=bool(n == depth - 1), n_is_first=bool(n == 0))
                self.offsets = keep
                T0 = self.T0
                if self.pre and T0 is not None and first >= T0 + 2 and all(self.complete0_hist[first:t + 1]):
                    got0 = o["sample0"]
                    keep0 = [c for c in keep if self._in(T0 + c + n) in (None, got0)]
                    if not keep0:
                        return self._fail("C56.samples", t, f"sample {n}: this instance (pretrigger {self.pre}) reads 0x{got:x} which "
                                          f"fits offsets c={keep}, but an instance with pretrigger 0 on the same inputs reads "
                                          f"0x{got0:x}, which fits none of them: the samples are not delayed by exactly the "
                                          f"configured pre-trigger count", kind="pretrigger_delay",
                                          n_is_last=bool(n == depth - 1), n_is_first=bool(n == 0))
                    self.offsets = keep0
                    pr["reads_cross_checked"] += 1
                pr["reads_checked"] += 1
                self.read_set.add(n)
                if first <= self.complete_seen + 1:
                    pr["read_right_after_complete"] += 1
                    self.classes.add("read_early")
                if len(self.read_set) == depth:
                    pr["full_readback"] += 1
                    self.read_set.add(-1)
        # ---------------- trigger acceptance (for the next cycles) ----------------
        if trig and not o["sampling0"]:
            self.T0 = t
        if trig:
            if not sampling:
                if T is not None and self.complete_seen is None:
                    # sampling low but not complete: only legal in the cycle right after the trigger (registered flag)
                    if t - T >= 2:
                        return self._fail("C56.complete", t, "capture ended (sampling low) without complete", kind="never")
                else:
                    if T is not None:
                        if t == self.complete_seen:
                            pr["retrigger_first_idle_cycle"] += 1
                            self.classes.add("first_idle")
                        if not self.read_set:
                            pr["retrigger_before_readback"] += 1
                    self.T = t
                    self.disturbed = False
                    self.complete_seen = None
                    self.sampling_fell = None
                    self.read_set = set()
                    self.captures += 1
            else:
                self.disturbed = True
                pr["trigger_during_capture"] += 1
                self.classes.add("storm")
                if T is not None and t == T + depth:
                    pr["trigger_last_capture_cycle"] += 1
                    self.classes.add("last_cycle")
        self.prev_sampling = sampling
        return t >= self.end


def run(scn):
    cfg = scn["config"]
    bench = _bench(cfg)
    viol = Violations()
    probes = {p: 0 for p in PROBES}
    actor = _Actor(scn, viol, probes)
    depth, pre = cfg["sample_depth"], cfg["samples_pretrigger"]
    log = bench.run([actor], max_cycles=actor.end + 2)
    if not actor.stop and log.cycles <= actor.end:
        raise RuntimeError("run ended early")
    if depth & (depth - 1):
        probes["depth_non_pow2"] += 1
    if depth == 1:
        probes["depth_1"] += 1
    if pre == 0:
        probes["pretrigger_0"] += 1
    if pre >= 2:
        probes["pretrigger_ge2"] += 1
    if actor.captures >= 2:
        probes["captures_2plus"] += 1
    if len(cfg["widths"]) > 1:
        probes["multi_signal"] += 1
    faults = {"trigger_storm": probes["trigger_during_capture"],
              "retrigger_at_boundary": probes["retrigger_first_idle_cycle"] + probes["trigger_last_capture_cycle"],
              "retrigger_before_readback": probes["retrigger_before_readback"]}
    sig = hashlib.blake2b(repr((depth, pre, sorted(actor.classes), min(actor.captures, 3))).encode(), digest_size=8).hexdigest()
    return {"violations": viol.items, "cycles": log.cycles, "faults": faults, "probes": probes, "sig": sig,
            "nontrivial": probes["reads_checked"] > 0, "digest": log.digest, "fsm": len(log.fsm_vectors)}


def shrink_candidates(scn):
    import copy
    for i, op in enumerate(scn["ops"]):
        if op["op"] == "trigger" and op["len"] > 1:
            cand = copy.deepcopy(scn)
            cand["ops"][i]["len"] = 1
            yield cand
