"""
C49 -- UART transmitters produce exact 8N1 frames.

DUT: luna.gateware.interface.uart.UARTTransmitter / UARTMultibyteTransmitter (real), standalone, domain "sync".
Actors: models.periph_uart.StreamSource (legal stream producer with literal gaps) and UARTSink (records the line
every cycle).  Oracle: the recorded line is decoded cycle-exactly against the bytes accepted at the stream.
"""

import hashlib

from dsim.kernel import make_bench, cached_bench, Violations
from models.periph_uart import StreamSource, UARTSink

PROPERTY = "C49"
ENGINE = "periph"
CLOCK_HZ = 60e6
RULES = {
    "C49.frame_exact": "every frame is start(0), 8 data bits, stop(1), each held exactly `divisor` cycles",
    "C49.bytes": "the frames carry exactly the accepted bytes, in order, LSB first (words little-endian), none lost or duplicated",
    "C49.idle_high": "the line is high whenever no frame is in progress",
    "C49.accept_point": "a byte/word is accepted only when it is the next to be framed: every earlier byte has started on the "
                        "line, and its own start bit follows within a bounded delay",
    "C49.accepts": "a presented byte/word is accepted within two frame (word) times (bounded liveness)",
}
PROBES = ["back_to_back_accept", "accept_from_idle", "valid_rises_in_last_stop_cycle", "valid_rises_one_cycle_after_stop",
          "divisor_1", "divisor_pow2", "divisor_ge_32", "multibyte", "byte_width_3plus", "idle_gap_between_frames",
          "mb_idle_flag_while_line_busy", "payload_00_or_ff"]
META = {
    "components_real": ["luna.gateware.interface.uart.UARTTransmitter", "luna.gateware.interface.uart.UARTMultibyteTransmitter"],
    "components_stubbed": ["stream producer (models.periph_uart.StreamSource)", "line receiver (models.periph_uart.UARTSink)"],
    "assumptions": ["the producer holds valid and payload until the transfer (valid & ready) happens",
                    "idle time between frames is unconstrained by the statement; only the 10 bit slots of a frame are cycle-exact",
                    "accept point, byte variant: accepted in cycle t => the previous byte's start bit began at or before t and "
                    "this byte's start bit begins in (t, t+1+2*divisor]",
                    "accept point, multi-byte variant: a word may be taken while the last byte of the previous word is being "
                    "handed to the framer (every earlier byte's start bit began by t+1); first start bit within t+2+12*divisor",
                    "the `idle`/`driving` outputs are not part of the statement and are only recorded as probes"],
    "rule": "divisor 1..40 (biased small, powers of two and neighbours), byte or multi-byte (width 1..4) transmitter, 2-14 items "
            "with literal gaps: back-to-back, 1-3 cycles, exactly around the end of the running frame/word (-2..+2), long idle",
}
TIERS = {"quick": {"runs": 12000, "wall": 70}, "thorough": {"runs": 45000, "wall": 900}}


def gen(rng, tier, index):
    divisor = rng.choice([1, 1, 2, 2, 3, 3, 4, 5, 6, 7, 8, 9, 10, 13, 15, 16, 17, 31, 32, 33, 40, rng.randint(1, 40)])
    multibyte = rng.random() < 0.45
    bw = rng.choice([1, 2, 2, 3, 4, 4]) if multibyte else 1
    frame = 10 * divisor
    word = frame * bw
    budget = 5000 if tier == "quick" else 20000
    n_max = max(2, min(14, budget // word))
    n = rng.randint(2, n_max)
    ops = []
    style = rng.choice(["mixed", "mixed", "b2b", "spaced", "edge"])
    for i in range(n):
        r = rng.random()
        if r < 0.1:
            v = rng.choice([0, (1 << (8 * bw)) - 1, 0x55555555 & ((1 << (8 * bw)) - 1), 0xAAAAAAAA & ((1 << (8 * bw)) - 1)])
        else:
            v = rng.getrandbits(8 * bw)
        k = style if style != "mixed" else rng.choice(["b2b", "spaced", "edge", "small", "long"])
        if k == "b2b":
            gap = 0
        elif k == "small":
            gap = rng.randint(1, 3)
        elif k == "spaced":
            gap = rng.randint(1, word + 2 * divisor + 4)
        elif k == "edge":
            base = rng.choice([word, word, frame, max(0, word - frame)])
            gap = max(0, base + rng.randint(-3, 3))
        else:
            gap = word + rng.randint(divisor, 3 * frame)
        ops.append({"data": v, "gap": gap})
    return {"engine": ENGINE, "config": {"kind": "multibyte" if multibyte else "byte", "divisor": divisor, "byte_width": bw},
            "ops": ops}


def _bench(cfg):
    from luna.gateware.interface.uart import UARTTransmitter, UARTMultibyteTransmitter
    kind, divisor, bw = cfg["kind"], cfg["divisor"], cfg["byte_width"]

    def factory():
        if kind == "byte":
            dut = UARTTransmitter(divisor=divisor)
        else:
            dut = UARTMultibyteTransmitter(byte_width=bw, divisor=divisor)
        ins = {"valid": dut.stream.valid, "payload": dut.stream.payload, "first": dut.stream.first, "last": dut.stream.last}
        outs = {"tx": dut.tx, "ready": dut.stream.ready, "idle": dut.idle}
        return make_bench(dut, clocks={"sync": 1 / 60e6}, main="sync", ins=ins, outs=outs)
    return cached_bench(("c49", kind, divisor, bw), factory)


class _Monitor:
    def __init__(self, src, limit):
        self.src = src
        self.limit = limit
        self.idle = []
        self.stall = None
        self.tail = None

    def observe(self, t, s):
        self.idle.append(s["idle"])
        src = self.src
        if src.done:
            if self.tail is None:
                self.tail = t + self.limit
            return t >= self.tail
        if src.presenting and src.first_presented and t - src.first_presented[-1] > self.limit:
            self.stall = t
            return True
        return False


def run(scn):
    cfg = scn["config"]
    kind, divisor, bw = cfg["kind"], cfg["divisor"], cfg["byte_width"]
    bench = _bench(cfg)
    viol = Violations()
    probes = {p: 0 for p in PROBES}
    frame = 10 * divisor
    word = frame * bw
    src = StreamSource([(op["data"], op["gap"]) for op in scn["ops"]])
    sink = UARTSink("tx")
    limit = 2 * word + 16
    mon = _Monitor(src, limit)
    max_cycles = sum(op["gap"] for op in scn["ops"]) + len(scn["ops"]) * (limit + 2) + limit + 16
    log = bench.run([src, sink, mon], max_cycles=max_cycles, init={"valid": 0})

    classes = set()
    if mon.stall is not None:
        viol.add("C49.accepts", mon.stall, f"item #{src.i} presented at cycle {src.first_presented[-1]} was not accepted within "
                 f"{limit} cycles", kind=kind)
    elif not src.done:
        raise RuntimeError("script did not finish")

    # expected byte sequence (little-endian per word)
    expected = []
    for (_t, v) in src.accepted:
        for i in range(bw):
            expected.append((v >> (8 * i)) & 0xFF)
    if not viol:
        frames, problem = sink.analyse(divisor, expected)
        if problem and problem[0] == "truncated":
            raise RuntimeError("recording ended inside a frame")
        if problem:
            pk, cyc, msg, extra = problem
            rule = {"frame": "C49.frame_exact", "bytes": "C49.bytes", "missing": "C49.bytes", "spurious": "C49.idle_high"}[pk]
            if pk == "spurious":
                seg = sink.line[cyc:cyc + divisor]
                if len(seg) == divisor and not any(seg):
                    rule, msg = "C49.bytes", msg + " (a whole extra start bit: duplicated or invented frame)"
            viol.add(rule, cyc, f"{msg} [divisor={divisor}, {kind}, byte_width={bw}]", kind=kind, problem=pk,
                     divisor_is_1=bool(divisor == 1), **extra)
        else:
            # accept-point rule
            for w, (t_acc, _v) in enumerate(src.accepted):
                first = frames[w * bw]
                prev = frames[w * bw - 1] if w > 0 else None
                if kind == "byte":
                    ok_prev = prev is None or prev <= t_acc
                    hi = t_acc + 1 + 2 * divisor
                else:
                    ok_prev = prev is None or prev <= t_acc + 1
                    hi = t_acc + 2 + 12 * divisor
                if not ok_prev:
                    viol.add("C49.accept_point", t_acc, f"item #{w} accepted in cycle {t_acc} although the previous byte's start bit "
                             f"only begins at cycle {prev}", kind=kind, problem="early")
                    break
                if not (t_acc < first <= hi):
                    viol.add("C49.accept_point", t_acc, f"item #{w} accepted in cycle {t_acc}; its start bit begins at cycle {first}, "
                             f"allowed window ({t_acc}, {hi}]", kind=kind, problem="late" if first > hi else "before_accept")
                    break
                # probes
                if prev is not None and first == prev + frame:
                    probes["back_to_back_accept"] += 1
                    classes.add("b2b")
                elif prev is not None:
                    probes["idle_gap_between_frames"] += 1
                    classes.add("gap")
                if first == t_acc + (1 if kind == "byte" else 2) and (prev is None or prev + frame <= t_acc):
                    probes["accept_from_idle"] += 1
                    classes.add("from_idle")
            # valid rising exactly at / right after the end of the previous stop bit (byte variant)
            if kind == "byte":
                for w in range(1, len(src.accepted)):
                    end_prev = frames[w - 1] + frame - 1          # last cycle of the previous stop bit
                    fp = src.first_presented[w]
                    if fp == end_prev:
                        probes["valid_rises_in_last_stop_cycle"] += 1
                        classes.add("edge0")
                    elif fp == end_prev + 1:
                        probes["valid_rises_one_cycle_after_stop"] += 1
                        classes.add("edge1")
            else:
                # observation only: the wrapper's idle flag while the line is still busy
                busy = set()
                for f in frames:
                    busy.update(range(f, f + frame))
                if any(mon.idle[t] for t in busy if t < len(mon.idle)):
                    probes["mb_idle_flag_while_line_busy"] += 1

    if divisor == 1:
        probes["divisor_1"] += 1
    if divisor & (divisor - 1) == 0 and divisor > 1:
        probes["divisor_pow2"] += 1
    if divisor >= 32:
        probes["divisor_ge_32"] += 1
    if kind == "multibyte":
        probes["multibyte"] += 1
        if bw >= 3:
            probes["byte_width_3plus"] += 1
    if any(b in (0, 0xFF) for b in expected):
        probes["payload_00_or_ff"] += 1
    faults = {"producer_gap": sum(1 for op in scn["ops"] if op["gap"] > 0),
              "back_to_back": sum(1 for op in scn["ops"] if op["gap"] == 0),
              "gap_at_frame_edge": probes["valid_rises_in_last_stop_cycle"] + probes["valid_rises_one_cycle_after_stop"]}
    sig = hashlib.blake2b(repr((kind, bw, divisor, sorted(classes), sorted(log.fsm_vectors))).encode(),
                          digest_size=8).hexdigest()
    return {"violations": viol.items, "cycles": log.cycles, "faults": faults, "probes": probes, "sig": sig,
            "nontrivial": len(src.accepted) >= 2, "digest": log.digest, "fsm": len(log.fsm_vectors)}


def shrink_candidates(scn):
    import copy
    for i, op in enumerate(scn["ops"]):
        if op["gap"]:
            cand = copy.deepcopy(scn)
            cand["ops"][i]["gap"] = 0
            yield cand
    for i, op in enumerate(scn["ops"]):
        if op["data"]:
            cand = copy.deepcopy(scn)
            cand["ops"][i]["data"] = 0
            yield cand
