"""
C10 -- unsupported / unclaimed control requests are STALLed, never answered.

DUT: the complete USBDevice (V1 / V2 timing) with the standard control endpoint (+ a passive spy request handler that never
claims, so class / vendor / reserved requests fall through to the multiplexer's fallback), a bulk IN endpoint (EP1) and the
spy endpoint.  Workload: 8-byte setup packets filtered to those the configuration does not implement, both directions,
wLength 0 and > 0; then data-stage / status-stage tokens in every order a host may use, unrelated EP1 traffic (whose ACKs the
control endpoint also sees), then the next request.  Optionally the device is first given a non-zero address / configuration
through clean SET_ADDRESS / SET_CONFIGURATION transfers so that "no state change" is observable.
"""

import hashlib

from dsim.kernel import Violations
from models.usb2_wire import gen_idle_data
from models import usb2
from models.usb2 import UTMIHost
from models.usb2_ctrl import Txn, StreamFeeder, setup_bytes, decode_setup, is_data
from engines.usb2_device import device_bench, IDLE_INIT

PROPERTY = "C10"
ENGINE = "usb2_device"
CLOCK_HZ = 60e6
RULES = {
    "C10.no_data": "an unsupported request is never answered with a (non-empty) data packet on EP0",
    "C10.no_ack_of_out_data": "OUT data / status packets of an unsupported request are never ACKed",
    "C10.no_zlp_status": "the status stage of an unsupported request is never completed with a zero-length packet",
    "C10.stall_at_first_opportunity": "the first data-stage IN token, or else the status stage, of an unsupported request is "
                                      "answered with STALL",
    "C10.no_state_change": "address, configuration and the clear-endpoint-halt strobe do not change from the SETUP of an "
                           "unsupported request until the next SETUP (whatever other endpoints do meanwhile)",
}
PROBES = ["std_unimplemented", "clear_feature_not_halt", "class_request", "vendor_request", "reserved_type", "out_data_stage",
          "in_data_stage", "no_data_stage", "status_out_without_data", "stray_ack_after_request", "second_in_after_stall",
          "nonzero_state", "clear_feature_with_data_stage", "two_unsupported_in_a_row"]
META = {
    "components_real": ["USBDevice", "USBControlEndpoint", "StandardRequestHandler", "USBRequestHandlerMultiplexer",
                        "StallOnlyRequestHandler", "USBSetupDecoder", "USBTokenDetector", "USBHandshakeDetector",
                        "USBHandshakeGenerator", "USBDataPacketReceiver", "USBDataPacketGenerator", "USBEndpointMultiplexer",
                        "USBStreamInEndpoint"],
    "components_stubbed": ["UTMI PHY + host (models.usb2.UTMIHost, models.usb2_ctrl.Txn)", "EP1 stream producer",
                           "passive spy endpoint / spy request handler (observation only, never claims)"],
    "assumptions": ["legal UTMI receive side; the host never transmits while the device transmits",
                    "'implemented' = standard-type requests with bRequest in {GET_STATUS, CLEAR_FEATURE, SET_ADDRESS, GET_DESCRIPTOR, "
                    "GET_CONFIGURATION, SET_CONFIGURATION}; of these only CLEAR_FEATURE with recipient != endpoint or "
                    "wValue != ENDPOINT_HALT is generated as unsupported, the other five request codes are never generated",
                    "full speed only: no PING tokens",
                    "the optional SET_ADDRESS/SET_CONFIGURATION prefix is played without interleaved traffic"],
    "rule": "optional clean SET_ADDRESS/SET_CONFIGURATION prefix, then 1-5 unsupported requests (standard unimplemented codes, "
            "CLEAR_FEATURE other than ENDPOINT_HALT-on-endpoint, class, vendor, reserved; IN/OUT; wLength 0/>0) each followed by "
            "0-5 stage operations (EP0 IN, EP0 OUT+data, EP1 IN with/without ACK, SOF, idle); timing knobs per run",
}
TIERS = {"quick": {"runs": 1800, "wall": 90}, "thorough": {"runs": 36000, "wall": 900}}

DEV_CFG = {v: {"variant": v, "ep0_mps": 64, "endpoints": [{"kind": "stream_in", "ep": 1, "mps": 8}]} for v in ("V1", "V2")}
SLACK = 8
HANDLED_STD = (0, 1, 5, 6, 8, 9)


def request_class(b):
    """ Classifies 8 setup bytes: one of the unsupported classes, or None if the device may implement it. """
    d = decode_setup(b)
    if d["type"] == 1:
        return "class"
    if d["type"] == 2:
        return "vendor"
    if d["type"] == 3:
        return "reserved"
    if d["request"] not in HANDLED_STD:
        return "std_unimplemented"
    if d["request"] == 1 and (d["recipient"] != 2 or d["value"] != 0):
        return "clear_feature"
    return None


def _unsupported_setup(rng):
    r = rng.random()
    direction = rng.choice([0x00, 0x80])
    recipient = rng.choice([0, 1, 2, 3, rng.randint(4, 31)])
    if r < 0.30:
        typ = 0
        req = rng.choice([2, 3, 4, 7, 10, 11, 12, rng.randint(13, 255)])
        value, index = rng.getrandbits(16), rng.getrandbits(16)
        if rng.random() < 0.4:                       # looks like an ENDPOINT_HALT clear, but with another request code
            recipient, value, index = 2, 0, rng.choice([0x81, 0x01, 0x00])
    elif r < 0.55:
        typ, req = 0, 1
        if rng.random() < 0.5:
            recipient = rng.choice([0, 1, 3])
            value = rng.choice([0, 1, 2])
        else:
            recipient = 2
            value = rng.choice([1, 2, rng.getrandbits(16) | 1])
        index = rng.choice([0, 0x81, 0x01, rng.getrandbits(16)])
    else:
        typ = rng.choice([1, 1, 2, 2, 3])
        req = rng.choice([0, 1, 5, 6, 8, 9, rng.getrandbits(8)])
        value, index = rng.getrandbits(16), rng.getrandbits(16)
        if rng.random() < 0.3:
            recipient, value = 2, 0
    length = rng.choice([0, 0, 0, 1, 2, 8, 18, 64, 255, rng.getrandbits(16)])
    if typ == 0 and req == 1 and rng.random() < 0.9:
        length = 0
    b = setup_bytes(direction | (typ << 5) | recipient, req, value, index, length)
    assert request_class(b) is not None
    return b


def gen(rng, tier, index):
    cfg = {
        "variant": rng.choice(["V1", "V2"]),
        "byte_period": rng.choice([1, 1, 2, 3]),
        "pre": rng.choice([1, 1, 2]),
        "post": rng.choice([0, 0, 1]),
        "txready": rng.choice(["always", "always", "always", ["every", 2], ["every", 3]]),
        "tok_gap": rng.choice([1, 2, 3, 6]),
        "turn": rng.choice([1, 2, 3, 5, 9]),
        "rest": rng.choice([2, 4, 8, 20]),
    }
    ops = []
    if rng.random() < 0.5:
        ops.append({"op": "prefix", "addr": rng.randint(1, 127) if rng.random() < 0.8 else 0,
                    "cfg": rng.randint(1, 255) if rng.random() < 0.8 else 0})
    for _ in range(rng.randint(1, 4 if tier == "quick" else 8)):
        b = _unsupported_setup(rng)
        d = decode_setup(b)
        ops.append({"op": "setup", "data": b.hex()})
        n = rng.choice([1, 1, 2, 2, 3, 4, 5])
        for k in range(n):
            r = rng.random()
            # bias the first stage op towards what a real host does next
            if k == 0 and r < 0.6:
                if d["length"] and not d["is_in"]:
                    ops.append({"op": "out0", "pid": "DATA1", "len": min(d["length"], rng.choice([1, 8, 64]))})
                else:
                    ops.append({"op": "in0"})
                continue
            if r < 0.35:
                ops.append({"op": "in0"})
            elif r < 0.55:
                ln = 0 if (d["is_in"] or not d["length"]) and rng.random() < 0.8 else rng.choice([1, 2, 8, 33, 64])
                ops.append({"op": "out0", "pid": rng.choice(["DATA1", "DATA1", "DATA0"]), "len": ln})
            elif r < 0.85:
                ops.append({"op": "in1", "ack": rng.random() < 0.85})
            elif r < 0.92:
                ops.append({"op": "sof", "frame": rng.getrandbits(11)})
            else:
                ops.append({"op": "idle", "n": rng.randint(1, 60)})
    ops.append({"op": "in1", "ack": True})
    ops.append({"op": "get_config"})
    cfg["idle_data"] = gen_idle_data(rng)
    return {"engine": ENGINE, "config": cfg, "ops": ops}


# ------------------------------------------------------------------------------------------------
class _Monitor:
    """ Per-cycle: address / configuration stay at the expected values; clear-halt strobe stays low while armed. """

    def __init__(self, viol, ctx, info):
        self.viol = viol
        self.ctx = ctx              # callable -> shape dict
        self.info = info            # callable -> context text for messages
        self.exp = None             # (address, config) once frozen
        self.armed = False          # inside the lifetime of an unsupported request
        self.dead = False

    def observe(self, t, o):
        if self.dead:
            return True
        if self.exp is not None:
            got = (o["spy_address"], o["spy_config"])
            if got != self.exp:
                self.viol.add("C10.no_state_change", t, f"(address, configuration) changed {self.exp} -> {got} "
                              f"{'during' if self.armed else 'outside'} an unsupported request {self.info()}", **self.ctx(), what="addr_cfg")
                self.dead = True
        if self.armed and (o["halt_enable"] or o["spy_halt_enable"]):
            self.viol.add("C10.no_state_change", t, f"clear_endpoint_halt strobed (direction {o['halt_direction']}, endpoint "
                          f"{o['halt_number']}) during an unsupported request {self.info()}", **self.ctx(), what="clear_halt")
            self.dead = True
        return self.dead


def run(scn):
    cfg = scn["config"]
    variant = cfg["variant"]
    bench = device_bench(DEV_CFG[variant])
    init = dict(IDLE_INIT)
    init["full_speed_only"] = 1
    viol = Violations()
    probes = {p: 0 for p in PROBES}
    faults = {}
    ops = scn["ops"]
    outcomes = set()
    st = {"addr": 0, "cfg": 0, "req": None, "prev": "none", "stage": "idle", "seen_cf": 0, "cf_now": 0}

    def fault(kind):
        faults[kind] = faults.get(kind, 0) + 1

    def shape():
        """ deliberately coarse (variant, direction, wLength, previous request are in the message): request class, the stage
            at which it went wrong, and whether an earlier unsupported CLEAR_FEATURE of this run precedes the request """
        r = st["req"]
        if r is None:
            return {"req_class": "none", "stage": st["stage"], "earlier_clear_feature": "n/a"}
        return {"req_class": r["cls"], "stage": st["stage"],
                "earlier_clear_feature": "n/a" if r["cls"] == "clear_feature" else bool(st["seen_cf"])}

    def ctx():
        r = st["req"]
        if r is None:
            return f"[{variant}]"
        return (f"[{variant}; {'IN' if r['is_in'] else 'OUT'} request, wLength {r['length']}, previous request class {st['prev']}, "
                f"already stalled: {r['stalled']}, EP1 ACK seen since its SETUP: {r['stray_ack']}]")

    mon = _Monitor(viol, shape, lambda: ctx())

    def bad(rule, t, msg):
        viol.add(rule, t, msg + " " + ctx(), **shape())
        mon.dead = True

    def script(h):
        x = Txn(h, variant, tok_gap=cfg["tok_gap"], turn=cfg["turn"], rest=cfg["rest"])
        yield from h.idle(4)
        for op in ops:
            if mon.dead:
                return
            kind = op["op"]
            req = st["req"]
            if kind == "idle":
                yield from h.idle(op["n"])
            elif kind == "sof":
                yield from h.send(usb2.sof_packet(op["frame"]), info="sof")
                yield from h.idle(cfg["rest"])
            elif kind == "prefix":
                # clean SET_ADDRESS / SET_CONFIGURATION (supported requests; not under test here)
                mon.armed = False
                st["req"] = None
                ok = True
                for code, val in ((5, op["addr"]), (9, op["cfg"])):
                    r = yield from x.setup(st["addr"], 0, setup_bytes(0x00, code, val, 0, 0))
                    ok = ok and r["kind"] == "ACK"
                    r = yield from x.in_(st["addr"], 0)
                    ok = ok and is_data(r) and r["payload"] == b""
                    if not ok:
                        break
                    yield from x.handshake("ACK")
                    yield from h.idle(SLACK + 4)
                    if code == 5:
                        st["addr"] = val & 0x7F
                    else:
                        st["cfg"] = val & 0xFF
                if not ok or (h.sample["spy_address"], h.sample["spy_config"]) != (st["addr"], st["cfg"]):
                    raise RuntimeError("the clean SET_ADDRESS/SET_CONFIGURATION prefix did not take effect (not a C10 matter)")
                if st["addr"] or st["cfg"]:
                    probes["nonzero_state"] += 1
                st["prev"] = "supported"
            elif kind == "setup":
                b = bytes.fromhex(op["data"])
                cls = request_class(b)
                d = decode_setup(b)
                mon.armed = False
                if req is not None:
                    st["prev"] = req["cls"]
                st["seen_cf"] += st["cf_now"]
                st["cf_now"] = 0
                st["stage"] = "setup"
                if mon.exp is None:
                    mon.exp = (st["addr"], st["cfg"])
                r = yield from x.setup(st["addr"], 0, b)
                if r["kind"] != "ACK" or cls is None:
                    st["req"] = None              # not seen by the device / not an unsupported request: no expectations
                    outcomes.add("setup_" + r["kind"])
                    continue
                st["req"] = {"cls": cls, "is_in": d["is_in"], "length": d["length"], "stalled": False, "stray_ack": False,
                             "in_seen": 0, "bytes": b}
                mon.armed = True
                st["cf_now"] = 1 if cls == "clear_feature" else 0
                probes[{"std_unimplemented": "std_unimplemented", "clear_feature": "clear_feature_not_halt", "class": "class_request",
                        "vendor": "vendor_request", "reserved": "reserved_type"}[cls]] += 1
                if cls == "clear_feature" and d["length"]:
                    probes["clear_feature_with_data_stage"] += 1
                if st["prev"] not in ("none", "supported"):
                    probes["two_unsupported_in_a_row"] += 1
                if not d["length"]:
                    probes["no_data_stage"] += 1
            elif kind == "in0":
                if req is None:
                    continue
                data_stage = bool(req["is_in"] and req["length"])
                st["stage"] = ("data_in" if data_stage else "status_in")
                if req["stalled"]:
                    probes["second_in_after_stall"] += 1
                r = yield from x.in_(st["addr"], 0)
                outcomes.add(st["stage"] + "_" + r["kind"])
                what = f"{req['cls']} request {req['bytes'].hex()} ({st['stage']} IN token, previous request class {st['prev']})"
                if is_data(r):
                    yield from h.idle(cfg["rest"])
                    if r["payload"] == b"" and not data_stage:
                        bad("C10.no_zlp_status", r["start"], f"status stage of {what} answered with a zero-length {r['kind']}")
                    else:
                        bad("C10.no_data", r["start"], f"{what} answered with {r['kind']} payload {r['payload'].hex()}")
                    return
                if r["kind"] == "ACK":
                    bad("C10.no_ack_of_out_data", r["start"], f"{what} answered with an ACK handshake")
                    return
                if r["kind"] == "BAD":
                    bad("C10.no_data", r["start"], f"{what} answered with a malformed packet {r['raw'].hex()}")
                    return
                if r["kind"] == "STALL":
                    req["stalled"] = True
                elif not req["stalled"]:
                    bad("C10.stall_at_first_opportunity", h.t, f"{what} answered {r['kind']} instead of STALL")
                    return
                if data_stage:
                    probes["in_data_stage"] += 1
            elif kind == "out0":
                if req is None:
                    continue
                status = bool(req["is_in"] and req["length"])          # OUT is the status direction of an IN transfer with data
                data_stage = bool(not req["is_in"] and req["length"])
                st["stage"] = "status_out" if status else ("data_out" if data_stage else "wrong_dir_out")
                payload = bytes((i * 7 + 3) & 0xFF for i in range(op["len"]))
                if st["stage"] == "wrong_dir_out":
                    fault("wrong_direction_token")
                elif status and req["in_seen"] == 0:
                    fault("skipped_data_stage")
                r = yield from x.out(st["addr"], 0, op["pid"], payload)
                outcomes.add(st["stage"] + "_" + r["kind"])
                what = (f"{req['cls']} request {req['bytes'].hex()} ({st['stage']} OUT + {op['pid']} of {op['len']} bytes, previous "
                        f"request class {st['prev']})")
                if r["kind"] in ("ACK", "NYET"):
                    bad("C10.no_ack_of_out_data", r["start"], f"{what} answered {r['kind']}")
                    return
                if is_data(r) or r["kind"] == "BAD":
                    bad("C10.no_data", r["start"], f"{what} answered with a data packet {r['raw'].hex()}")
                    return
                if r["kind"] == "STALL":
                    req["stalled"] = True
                elif status and op["len"] == 0 and op["pid"] == "DATA1" and not req["stalled"] and not req["in_seen"]:
                    bad("C10.stall_at_first_opportunity", h.t, f"{what} answered {r['kind']} instead of STALL")
                    return
                if status and not req["in_seen"]:
                    probes["status_out_without_data"] += 1
                if data_stage:
                    probes["out_data_stage"] += 1
            elif kind == "in1":
                if req is not None:
                    st["stage"] = "other_ep_in"
                r = yield from x.in_(st["addr"], 1)
                if is_data(r):
                    if op["ack"]:
                        if req is not None:
                            fault("interleave_other_ep")
                            probes["stray_ack_after_request"] += 1
                            req["stray_ack"] = True
                        yield from x.handshake("ACK")
                        yield from h.idle(4)
                    else:
                        yield from h.idle(cfg["rest"] + cfg["turn"])
            elif kind == "get_config":
                # a supported request afterwards: black-box read-back of the configuration (only its value is judged here)
                mon.armed = False
                if req is not None:
                    st["prev"] = req["cls"]
                st["req"] = None
                st["stage"] = "readback"
                r = yield from x.setup(st["addr"], 0, setup_bytes(0x80, 8, 0, 0, 1))
                if r["kind"] != "ACK":
                    continue
                r = yield from x.in_(st["addr"], 0)
                if is_data(r):
                    if len(r["payload"]) >= 1 and r["payload"] != bytes([st["cfg"]]):
                        bad("C10.no_state_change", r["start"], f"GET_CONFIGURATION afterwards returned {r['payload'].hex()}; "
                            f"configuration was {st['cfg']}")
                        return
                    yield from x.handshake("ACK")
                    r2 = yield from x.out(st["addr"], 0, "DATA1", b"")
                    outcomes.add("readback_" + r2["kind"])
                else:
                    outcomes.add("readback_nodata_" + r["kind"])
            else:
                raise ValueError(kind)
            if kind == "in0" and st["req"] is not None:
                st["req"]["in_seen"] += 1
        yield from h.idle(SLACK + 4)

    host = UTMIHost(script, idle_data=cfg.get("idle_data"), byte_period=cfg["byte_period"], pre=cfg["pre"], post=cfg["post"],
                    txready=(cfg["txready"] if cfg["txready"] == "always" else tuple(cfg["txready"])))
    feeder = StreamFeeder("in1_", seed=len(ops))
    per_op = (80 + 16) * (cfg["byte_period"] + 1) + 8 * 100 + 4 * cfg["rest"] + 60
    max_cycles = 600 + sum(per_op + op.get("n", 0) for op in ops)
    log = bench.run([host, feeder, mon], max_cycles, init=init)
    if not host._done and not viol:
        raise RuntimeError("host script did not finish within the cycle cap")

    sig = hashlib.blake2b(repr((variant, sorted(log.fsm_vectors), sorted(faults), sorted(outcomes))).encode(),
                          digest_size=8).hexdigest()
    nontrivial = any(o.endswith("_STALL") for o in outcomes) and len(outcomes) >= 2
    return {"violations": viol.items, "cycles": log.cycles, "faults": faults, "probes": probes, "sig": sig,
            "nontrivial": nontrivial, "digest": log.digest, "fsm": len(log.fsm_vectors)}
