"""
C23 -- ULPI transmit translation delivers the UTMI packet unchanged.

DUT: the real UTMITranslator on a ULPI record.  A UTMI transmitter (engines.ulpi.UTMITx: holds every byte until
tx_ready, drops tx_valid after the last one) sends packets of 1-70 bytes in op modes NORMAL (0) and
DISABLE_BITSTUFF (2); the PHY model accepts the TXCMD after a literal delay and the data bytes following a literal
NXT throttle pattern, and takes the bus over with DIR (receive packets / RxCmd updates) before the TXCMD is accepted
or between packets.  Op-mode changes happen only while no transmission is pending (their interplay is C24).

Oracle: what the PHY accepted (TXCMD, bytes, STP cycle and STP data) versus what the UTMI side handed over.
"""

import hashlib

from dsim.kernel import Violations
from engines.ulpi import run_history, IDX, CTRL_RESET

PROPERTY = "C23"
ENGINE = "ulpi"
CLOCK_HZ = 60e6
RULES = {
    "C23.bytes": "each UTMI transmission reaches the PHY as exactly one TXCMD (40h|PID in normal mode, 40h NOPID in mode 2) followed by the remaining bytes in order",
    "C23.stp": "STP is high exactly in the cycle after the last accepted byte, with data 00h (normal) / FFh (bit-stuffing disabled), and in no other transmit cycle",
    "C23.ready_iff_accepted": "while tx_valid is high, tx_ready is high exactly in the cycles where the PHY accepted a UTMI byte",
    "C23.no_drive_on_dir": "data.oe is never high while DIR is high",
}
PROBES = ["nopid_packets", "pid_packets", "single_byte_packet", "long_packet", "dir_interrupt_before_txcmd_accept",
          "nxt_throttled_bytes", "nxt_high_in_stp_cycle", "tx_requested_during_rx", "tx_requested_during_regwrite",
          "opmode_changes"]
META = {
    "components_real": ["UTMITranslator", "ULPITransmitTranslator", "ULPIRegisterWindow", "ULPIControlTranslator", "ULPIRxEventDecoder"],
    "components_stubbed": ["ULPI PHY (models.ulpi_phy.ULPIPhy)", "UTMI transmitter (engines.ulpi.UTMITx)"],
    "assumptions": ["UTMI transmitter holds tx_valid/tx_data until tx_ready and leaves >= 2 idle cycles between packets",
                    "the PHY asserts NXT (DIR low) only in response to a command on the bus, and does not assert DIR between "
                    "accepting a TXCMD and the STP (a PHY-aborted transmission is outside the statement)",
                    "control inputs change only while no transmission is pending and change one register at a time; "
                    "a transmission may be requested while that register write is still in flight",
                    "tx_ready while tx_valid is low is not interpreted (UTMI gives it no meaning)"],
    "rule": "3-10 UTMI packets (1-70 bytes; first byte = PID-like or arbitrary) per run, op mode 0/2 changing between packets, "
            "per-run NXT accept delays (0-6) and throttle patterns, DIR take-overs triggered k cycles after the TXCMD appears",
}
TIERS = {"quick": {"runs": 16000, "wall": 70}, "thorough": {"runs": 20000, "wall": 900}}

PIDS = [0xD2, 0x5A, 0x1E, 0xC3, 0x4B, 0x69, 0xE1, 0x2D, 0xA5, 0x96]


def _rx_interrupt(rng, trigger, wait):
    status = rng.randrange(4) | (3 << 2)
    if rng.random() < 0.5:
        op = {"op": "rx", "wait": wait, "start": "none", "ta": rng.getrandbits(8), "status": status,
              "pre": [rng.randrange(4) | (3 << 2) for _ in range(rng.randint(1, 3))]}
    else:
        n = rng.choice([1, 3, 3, 8])
        op = {"op": "rx", "wait": wait, "start": rng.choice(["nxt", "rxcmd"]), "ta": rng.getrandbits(8), "status": status,
              "pre": [status], "start_cmds": rng.choice([1, 2]), "data": bytes(rng.getrandbits(8) for _ in range(n)).hex(),
              "gaps": [rng.choice([0, 0, 1, 2])], "mid": [status], "end": rng.choice(["rxcmd", "dir"]), "post": [status]}
    if trigger:
        op["trigger"] = trigger
    return op


def gen(rng, tier, index):
    fault_free = rng.random() < 0.15
    thr_kind = rng.choice(["ones", "ones", "random", "sparse", "alt"])
    if fault_free or thr_kind == "ones":
        thr = [1]
    elif thr_kind == "random":
        thr = [rng.getrandbits(1) for _ in range(rng.randint(2, 9))]
    elif thr_kind == "sparse":
        thr = [1] + [0] * rng.randint(1, 4)
    else:
        thr = [1, 0]
    phy = {"nxt_delays": [0] if fault_free else [rng.choice([0, 0, 1, 1, 2, 3, 6]) for _ in range(rng.randint(1, 4))],
           "tx_throttle": thr, "nxt_in_stp": rng.getrandbits(1), "stp_dir_commits": bool(rng.getrandbits(1)), "patience": 60}
    ctrl = dict(CTRL_RESET)
    mode = rng.choice([0, 0, 2])
    ctrl.update({"xcvr_select": rng.randrange(4), "term_select": rng.getrandbits(1), "op_mode": mode})
    cfg = {"rst": False, "start_at": 2, "tail": 10, "phy": phy, "ctrl": ctrl, "tx_gap": rng.choice([2, 2, 3, 5, 12])}
    ops = [{"op": "sync", "what": "regs", "max": 400, "wait": 0}]
    npk = rng.randint(3, 7 if tier == "quick" else 10)
    interrupts = not fault_free and rng.random() < 0.7
    for _ in range(npk):
        if not fault_free and rng.random() < 0.3:
            mode = 2 if mode == 0 else 0
            ops.append({"op": "sync", "what": "tx", "max": 6000, "wait": 0})
            ops.append({"op": "ctrl", "wait": rng.choice([0, 1, 4]), "set": {"op_mode": mode}})
            if rng.random() < 0.5:
                ops.append({"op": "sync", "what": "regs", "max": 800, "wait": 0})
        n = rng.choice([1, 1, 2, 3, 4, 9, 12, 35, 64, 67, 70] if tier != "quick" else [1, 1, 2, 3, 4, 9, 12, 12, 35, 67])
        body = bytes(rng.getrandbits(8) for _ in range(n))
        r = rng.random()
        if r < 0.5:
            body = bytes([rng.choice(PIDS)]) + body[1:]
        elif r < 0.6:
            body = bytes([0xFF] * n)
        elif r < 0.7:
            body = bytes([0x00] * n)             # looks like an idle bus
        if interrupts and rng.random() < 0.5:
            trig = ["txcmd", rng.choice([0, 0, 1, 2, 4])] if rng.random() < 0.7 else None
            ops.append(_rx_interrupt(rng, trig, rng.choice([0, 1, 3, 10])))
        ops.append({"op": "tx", "wait": rng.choice([1, 1, 2, 3, 6, 20]), "data": body.hex()})
        if interrupts and rng.random() < 0.25:
            ops.append(_rx_interrupt(rng, None, rng.choice([0, 2, 5, 11, 30])))
    ops.append({"op": "sync", "what": "all", "max": 6000, "wait": 0})
    return {"engine": ENGINE, "config": cfg, "ops": ops}


class _Hang:
    """ bounded liveness for 'reaches the PHY': a transmission requested with the bus quiet must start within 300 cycles """

    def __init__(self, phy, utmi, director):
        self.phy, self.utmi, self.director = phy, utmi, director
        self.n = 0
        self.hit = None

    def observe(self, t, s):
        cur = self.utmi.cur
        if cur is not None and not cur["acc"] and self.phy.cur[0] == 0 and self.phy.state in ("IDLE", "CMD_WAIT") \
                and self.phy.phase[0] not in ("regcmd",):
            self.n += 1
            if self.n > 300 and self.hit is None:
                self.hit = t
                self.director.stop_request = True
        else:
            self.n = 0
        return False


def run(scn):
    hang = []

    def monitors(phy, utmi, director):
        hang.append(_Hang(phy, utmi, director))
        return hang

    log, director, phy, utmi, trace = run_history(scn, monitors)
    hang = hang[0]
    viol = Violations()
    probes = {p: 0 for p in PROBES}
    rows = trace.rows
    n = len(rows)
    i_dir, i_oe, i_stp, i_tv, i_tr, i_nxt = IDX["dir"], IDX["data_oe"], IDX["stp"], IDX["tx_valid"], IDX["tx_ready"], IDX["nxt"]

    def mode_at(t):
        m = 0
        for tc, c in director.ctrl_log:
            if tc <= t:
                m = c["op_mode"]
        return m

    if hang.hit is not None:
        cur = utmi.cur
        viol.add("C23.bytes", hang.hit, f"UTMI transmission requested at cycle {cur['t_valid']} ({len(cur['data'])} bytes) was not "
                 f"started on the ULPI bus within 300 cycles of a quiet PHY (DIR low, no register write on the bus)",
                 kind="never_started", mode=mode_at(cur["t_valid"]))
    elif not director.finished or director.sync_failed:
        raise RuntimeError(f"scenario did not finish: cycles={log.cycles} sync_failed={director.sync_failed} phy={phy.state}")

    # ---- per-cycle rules -----------------------------------------------------------------------------
    accepted = {}
    for t, kind, b in phy.accepts:
        if kind == "txdata":
            accepted[t] = True
        elif kind == "txcmd":
            accepted[t] = "cmd"
    reg_stp_ok = set(t + 1 for t, kind, b in phy.accepts if kind == "regdata")
    tx_stp = {p["t_stp"]: p for p in phy.tx_packets}
    pk_by_time = sorted(utmi.packets + ([utmi.cur] if utmi.cur else []), key=lambda p: p["t_valid"])

    def pkt_mode(t):
        for p in reversed(pk_by_time):
            if p["t_valid"] <= t:
                return mode_at(p["t_valid"])
        return mode_at(t)

    for t in range(n):
        if viol:
            break
        row = rows[t]
        if row[i_dir] and row[i_oe]:
            viol.add("C23.no_drive_on_dir", t, f"data.oe high while DIR high at cycle {t}", kind="oe")
            break
        if row[i_tv]:
            a = accepted.get(t)
            m = pkt_mode(t)
            exp = 1 if (a is True or (a == "cmd" and m != 2)) else 0
            if row[i_tr] != exp:
                viol.add("C23.ready_iff_accepted", t, f"tx_ready={row[i_tr]} at cycle {t} (tx_valid high); the PHY "
                         f"{'accepted' if exp else 'did not accept'} a UTMI byte in this cycle (NXT={row[i_nxt]}, DIR={row[i_dir]}, "
                         f"op_mode={m})", mode=m, expected=exp, dir=row[i_dir])
                break
        if row[i_stp] and not row[i_dir] and t not in tx_stp and t not in reg_stp_ok:
            viol.add("C23.stp", t, f"STP high at cycle {t} outside the cycle after the last accepted byte of a transmission / "
                     f"register write", kind="spurious", mode=mode_at(t))
            break

    # ---- per-packet rules ----------------------------------------------------------------------------
    if not viol:
        done = utmi.packets
        for k, up in enumerate(done):
            m = mode_at(up["t_valid"])
            data = up["data"]
            if m == 2:
                probes["nopid_packets"] += 1
                exp_cmd, exp_bytes = 0x40, list(data)
            else:
                probes["pid_packets"] += 1
                exp_cmd, exp_bytes = 0x40 | (data[0] & 0xF), list(data[1:])
            if len(data) == 1:
                probes["single_byte_packet"] += 1
            if len(data) >= 35:
                probes["long_packet"] += 1
            if k >= len(phy.tx_packets):
                viol.add("C23.bytes", up["t_valid"], f"UTMI packet #{k} ({data.hex()}) was accepted via tx_ready but the PHY received "
                         f"only {len(phy.tx_packets)} transmissions", kind="missing_packet", mode=m)
                break
            pp = phy.tx_packets[k]
            got = [b for _, b in pp["bytes"]]
            if pp["cmd"] != exp_cmd:
                viol.add("C23.bytes", pp["t_acc"], f"TXCMD {pp['cmd']:#04x} accepted at cycle {pp['t_acc']}, expected {exp_cmd:#04x} "
                         f"(op_mode {m}, first UTMI byte {data[0]:#04x})", kind="txcmd", mode=m)
                break
            if got != exp_bytes:
                viol.add("C23.bytes", pp["t_acc"], f"PHY accepted bytes {bytes(got).hex()} after the TXCMD, expected {bytes(exp_bytes).hex()} "
                         f"(op_mode {m})", kind="data", mode=m)
                break
            last = pp["bytes"][-1][0] if pp["bytes"] else pp["t_acc"]
            if pp["t_stp"] != last + 1:
                viol.add("C23.stp", pp["t_stp"], f"STP at cycle {pp['t_stp']}, last byte accepted at cycle {last} (expected STP at {last + 1})",
                         kind="late" if pp["t_stp"] > last + 1 else "early", mode=m)
                break
            want = 0xFF if m == 2 else 0x00
            if pp["stp_data"] != want:
                viol.add("C23.stp", pp["t_stp"], f"data {pp['stp_data']:#04x} driven with STP, expected {want:#04x} (op_mode {m})",
                         kind="stp_data", mode=m)
                break
            if pp["nxt_in_stp"]:
                probes["nxt_high_in_stp_cycle"] += 1
            if pp["t_acc"] - pp["t_first"] > 0 and any(a[0] > up["t_valid"] and a[0] <= pp["t_acc"] for a in phy.aborts):
                probes["dir_interrupt_before_txcmd_accept"] += 1
            if rows[up["t_valid"]][i_dir]:
                probes["tx_requested_during_rx"] += 1
            if phy_reg_busy(phy, up["t_valid"]):
                probes["tx_requested_during_regwrite"] += 1
        if not viol and len(phy.tx_packets) > len(done) + (1 if utmi.cur else 0):
            pp = phy.tx_packets[len(done)]
            viol.add("C23.bytes", pp["t_acc"], f"the PHY received {len(phy.tx_packets)} transmissions for {len(done)} UTMI packets",
                     kind="extra_packet", mode=mode_at(pp["t_acc"]))
        if not viol:
            for t, what, b in phy.anomalies:
                if what == "bad_cmd_accepted" and any(p["t_valid"] <= t and (p["t_end"] or n) >= t for p in pk_by_time):
                    viol.add("C23.bytes", t, f"while a UTMI transmission was pending the PHY accepted {b!r} as a command (not a TXCMD)",
                             kind="txcmd_withdrawn", mode=mode_at(t))
                    break
    probes["nxt_throttled_bytes"] = phy.fired.get("nxt_throttle", 0)
    probes["opmode_changes"] = len(director.ctrl_log) - 1

    faults = {k: v for k, v in phy.fired.items() if v}
    if probes["opmode_changes"]:
        faults["opmode_change"] = probes["opmode_changes"]
    if probes["tx_requested_during_rx"]:
        faults["tx_requested_during_rx"] = probes["tx_requested_during_rx"]
    cls = (sorted(k for k, v in probes.items() if v), len(scn["config"]["phy"]["tx_throttle"]) > 1)
    sig = hashlib.blake2b(repr((cls, sorted(log.fsm_vectors), sorted(faults))).encode(), digest_size=8).hexdigest()
    return {"violations": viol.items, "cycles": log.cycles, "faults": faults, "probes": probes, "sig": sig,
            "nontrivial": len(utmi.packets) > 0 and bool(faults), "digest": log.digest, "fsm": len(log.fsm_vectors)}


def phy_reg_busy(phy, t):
    return any(w["t_first"] <= t <= w["t_stp"] for w in phy.reg_writes)
