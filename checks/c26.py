"""
C26 -- stream arbiters forward whole bursts without loss.

DUT: luna.gateware.stream.arbiter.StreamArbiter (1..4 inputs, several payload widths),
     luna.gateware.usb.usb3.link.header.HeaderQueueArbiter (2..3 producers, full 128-bit header records),
     luna.gateware.usb.stream.SuperSpeedStreamArbiter (data+ctrl words) -- all real, standalone.
Actors: one scripted producer per input (holds valid+word until accepted; bursts separated by gaps; an
optional "withdraw" fault drops valid before acceptance), one sink with a literal ready pattern.
Oracle: black-box over ports only.  Words carry the producer number in their top payload bits, so every
delivered word identifies its origin; everything else (payload rest, first/last/ctrl/header fields) must be
forwarded unchanged.
"""

import hashlib

from dsim.kernel import make_bench, cached_bench, Violations

PROPERTY = "C26"
ENGINE = "streams"
CLOCK_HZ = 125e6
RULES = {
    "C26.exactly_once": "every word accepted from an input (valid&ready) is delivered at the source exactly once, unchanged, "
                        "in per-input order; nothing else is delivered",
    "C26.no_interleave": "delivered words of one burst (continuous valid) of an input are contiguous in the output",
    "C26.no_switch_while_valid": "once an input is selected (its word shown / its ready passed) no other input is selected "
                                 "while its valid stays high",
    "C26.priority": "a newly selected input is the lowest-index input waiting (at the decision cycle or, for a combinational "
                    "arbiter, the same cycle); a waiting input is served within a few cycles when the selected one is idle",
    "C26.ready_only_selected": "at most one input sees ready; only while the sink is ready; never an input other than the one shown",
    "C26.idle_iff_none_valid": "idle == (no input has valid) in every cycle",
}
PROBES = ["simultaneous_requests", "higher_priority_raises_mid_burst", "backpressure_mid_burst", "selection_changes",
          "lowest_priority_served", "all_inputs_waiting", "withdraw_fired", "held_selection_reused",
          "single_input_runs", "four_input_runs", "header_queue_runs"]
META = {
    "components_real": ["luna.gateware.stream.arbiter.StreamArbiter", "luna.gateware.usb.usb3.link.header.HeaderQueueArbiter",
                        "luna.gateware.usb.stream.SuperSpeedStreamArbiter"],
    "components_stubbed": ["producers (scripted bursts)", "sink (literal ready pattern)"],
    "assumptions": ["producers hold valid and the word until accepted (except in runs with the 'withdraw' fault, where the "
                    "priority/liveness rule is switched off from the first withdrawal on)",
                    "inputs change only on the clock"],
    "rule": "1-4 producers emit bursts (1-12 words) with gaps 0-20, sink ready pattern from always/dense/sparse/long-stall "
            "families, payload width 8/10/16/32, StreamInterface / HeaderQueue / SuperSpeed stream types; 20% of runs "
            "contain withdraw faults",
}
TIERS = {"quick": {"runs": 12000, "wall": 70}, "thorough": {"runs": 40000, "wall": 900}}

HEADER_FIELDS = [("dw0", 32), ("dw1", 32), ("dw2", 32), ("crc16", 16), ("sequence_number", 3), ("dw3_reserved", 3),
                 ("hub_depth", 3), ("delayed", 1), ("deferred", 1), ("crc5", 5)]


# ------------------------------------------------------------------------------------------------
def gen(rng, tier, index):
    kind = rng.choice(["stream", "stream", "stream", "stream", "header", "header", "ss"])
    if kind == "stream":
        n = rng.choice([1, 2, 2, 3, 3, 4, 4])
        width = rng.choice([8, 8, 10, 16, 32])
    elif kind == "header":
        n = rng.choice([2, 3, 3])
        width = 32
    else:
        n = rng.choice([2, 3, 4])
        width = 32
    fam = rng.choice(["always", "dense", "half", "sparse", "stall"])
    ln = rng.randint(3, 40)
    if fam == "always":
        ready = [1]
    elif fam == "stall":
        ready = [1] * rng.randint(1, 10) + [0] * rng.randint(3, 25) + [1] * rng.randint(1, 6)
    else:
        p = {"dense": 0.85, "half": 0.5, "sparse": 0.2}[fam]
        ready = [int(rng.random() < p) for _ in range(ln)]
        if not any(ready):
            ready[rng.randrange(len(ready))] = 1
    withdraw_run = rng.random() < 0.2
    target = rng.randint(80, 500 if tier == "quick" else 1500)
    style = rng.choice(["mixed", "busy", "sparse", "synchronised"])
    ops = []
    for p in range(n):
        t = 0
        seq = rng.getrandbits(8)
        while t < target:
            if style == "busy":
                gap = rng.choice([0, 1, 1, 1, 2, 3])
            elif style == "sparse":
                gap = rng.randint(5, 40)
            elif style == "synchronised":
                gap = rng.choice([1, 4, 8, 8, 8, 16])     # many producers raise valid in the same cycle
            else:
                gap = rng.choice([0, 1, 1, 2, 3, 5, 8, 13, 20])
            nw = rng.choice([1, 1, 2, 3, 4, 4, 6, 8, 12])
            op = {"p": p, "gap": gap, "n": nw, "base": seq, "step": rng.choice([1, 1, 3, 7, 0x55]),
                  "flags": rng.getrandbits(2 * nw)}
            if withdraw_run and rng.random() < 0.3:
                op["fault"] = {"kind": "withdraw", "after": rng.randint(0, 4), "off": rng.randint(1, 5)}
            ops.append(op)
            seq += nw * 7 + 1
            t += gap + nw * (2 if fam in ("half", "sparse", "stall") else 1) * n
    return {"engine": ENGINE, "config": {"kind": kind, "inputs": n, "width": width, "ready": ready}, "ops": ops}


# ------------------------------------------------------------------------------------------------
def _fields(kind, width):
    if kind == "header":
        return list(HEADER_FIELDS)
    if kind == "ss":
        return [("payload", 32), ("ctrl", 4), ("first", 1), ("last", 1)]
    return [("payload", width), ("first", 1), ("last", 1)]


def _bench(kind, n, width):
    def factory():
        if kind == "header":
            from luna.gateware.usb.usb3.link.header import HeaderQueueArbiter, HeaderQueue
            dut = HeaderQueueArbiter()
            sinks = [HeaderQueue() for _ in range(n)]
            for s in sinks:
                dut.add_producer(s)
            domain = "ss"
            get = lambda rec, f: getattr(rec.header, f)
        elif kind == "ss":
            from luna.gateware.usb.stream import SuperSpeedStreamArbiter, USBRawSuperSpeedStream
            dut = SuperSpeedStreamArbiter()
            sinks = [USBRawSuperSpeedStream() for _ in range(n)]
            for s in sinks:
                dut.add_stream(s)
            domain = "ss"
            get = lambda rec, f: getattr(rec, f)
        else:
            from luna.gateware.stream.arbiter import StreamArbiter
            from luna.gateware.stream import StreamInterface
            dut = StreamArbiter(stream_type=lambda: StreamInterface(payload_width=width))
            sinks = [StreamInterface(payload_width=width) for _ in range(n)]
            for s in sinks:
                dut.add_stream(s)
            domain = "sync"
            get = lambda rec, f: getattr(rec, f)
        ins, outs = {}, {}
        for i, s in enumerate(sinks):
            ins[f"v{i}"] = s.valid
            for f, _w in _fields(kind, width):
                ins[f"w{i}_{f}"] = get(s, f)
            outs[f"r{i}"] = s.ready
        ins["rdy"] = dut.source.ready
        outs["sv"] = dut.source.valid
        for f, _w in _fields(kind, width):
            outs[f"s_{f}"] = get(dut.source, f)
        outs["idle"] = dut.idle
        return make_bench(dut, clocks={domain: 1 / 125e6}, main=domain, ins=ins, outs=outs)
    return cached_bench(("c26", kind, n, width), factory)


def _mix(x, k):
    """ deterministic filler bits (no Python hash()) """
    x = (x * 0x9E3779B1 + k * 0x85EBCA6B + 0x27D4EB2F) & 0xFFFFFFFF
    x ^= x >> 15
    x = (x * 0x2C1B3C6D) & 0xFFFFFFFF
    x ^= x >> 12
    return x


def _word(kind, width, p, op, k):
    """ k-th word of a burst op -> tuple of field values (field 0 carries the producer tag in its top 2 bits) """
    seq = (op["base"] + k * op["step"]) & 0xFFFFFFFF
    fl = (op["flags"] >> (2 * k)) & 3
    fields = _fields(kind, width)
    w0 = fields[0][1]
    low = (seq if w0 <= 10 else _mix(seq, 1) ^ seq) & ((1 << (w0 - 2)) - 1)
    vals = [(p << (w0 - 2)) | low]
    for j, (f, w) in enumerate(fields[1:], start=2):
        if f == "first":
            vals.append(fl & 1)
        elif f == "last":
            vals.append((fl >> 1) & 1)
        else:
            vals.append(_mix(seq, j) & ((1 << w) - 1))
    return tuple(vals)


class _Producer:
    """ scripted, contract-abiding producer (plus the withdraw fault) """

    def __init__(self, p, ops, kind, width):
        self.p, self.kind, self.width = p, kind, width
        self.ops = ops
        self.i = 0            # current op
        self.k = 0            # word within op
        self.gap_left = ops[0]["gap"] if ops else 0
        self.waited = 0       # cycles the current word has been offered without acceptance
        self.off_left = 0     # withdraw: cycles of forced valid=0
        self.withdrawn = False
        self.valid = 0
        self.word = None
        self.withdraw_fired = 0

    @property
    def done(self):
        return self.i >= len(self.ops)

    def decide(self):
        """ valid/word for the coming cycle """
        if self.done:
            self.valid, self.word = 0, None
        elif self.gap_left > 0 or self.off_left > 0:
            self.valid, self.word = 0, None
        else:
            op = self.ops[self.i]
            self.valid, self.word = 1, _word(self.kind, self.width, self.p, op, self.k)
        return self.valid, self.word

    def step(self, accepted):
        """ consume the outcome of the cycle just simulated """
        if self.done:
            return
        if self.gap_left > 0:
            self.gap_left -= 1
            return
        if self.off_left > 0:
            self.off_left -= 1
            return
        op = self.ops[self.i]
        if accepted:
            self.k += 1
            self.waited = 0
            self.withdrawn = False
            if self.k >= op["n"]:
                self.i += 1
                self.k = 0
                if not self.done:
                    self.gap_left = self.ops[self.i]["gap"]
        else:
            self.waited += 1
            f = op.get("fault")
            if f and not self.withdrawn and self.waited > f["after"]:
                self.withdrawn = True
                self.off_left = f["off"]
                self.waited = 0
                self.withdraw_fired += 1


class _Actor:
    def __init__(self, scn, viol, probes):
        cfg = scn["config"]
        self.kind, self.n, self.width = cfg["kind"], cfg["inputs"], cfg["width"]
        self.ready_pat = cfg["ready"] or [1]
        self.fields = [f for f, _ in _fields(self.kind, self.width)]
        self.tag_shift = _fields(self.kind, self.width)[0][1] - 2
        self.prods = [_Producer(p, [o for o in scn["ops"] if o["p"] == p], self.kind, self.width) for p in range(self.n)]
        self.viol, self.probes = viol, probes
        self.queues = [[] for _ in range(self.n)]   # accepted, not yet delivered: (word, burst_id)
        self.burst_no = [0] * self.n
        self.prev_valid = [0] * self.n
        self.closed = set()
        self.last_burst = None
        self.held_sel = None
        self.last_sel = None
        self.starve = 0
        self.priority_on = True
        self.classes = set()
        self.dead = False
        self.tail = 0
        self.cur_valid = [0] * self.n
        self.cur_word = [None] * self.n
        self.cur_rdy = 0
        self.delivered = 0
        self.since_accept = [0] * self.n
        self.prev_waiting = []
        self.prev_sv_transfer = False
        self.last_sel_idle_gap = False

    # ---------------------------------------------------------------------------------------
    def drive(self, t):
        d = {}
        for p, pr in enumerate(self.prods):
            v, w = pr.decide()
            self.cur_valid[p], self.cur_word[p] = v, w
            d[f"v{p}"] = v
            if w is not None:
                for f, val in zip(self.fields, w):
                    d[f"w{p}_{f}"] = val
        self.cur_rdy = self.ready_pat[t % len(self.ready_pat)]
        d["rdy"] = self.cur_rdy
        return d

    def _fail(self, rule, t, msg, **shape):
        self.viol.add(rule, t, msg, kind=self.kind, inputs=self.n, **shape)
        self.dead = True

    def observe(self, t, o):
        if self.dead:
            return True
        n, valid, rdy = self.n, self.cur_valid, self.cur_rdy
        pr = self.probes
        waiting = [p for p in range(n) if valid[p]]
        readies = [p for p in range(n) if o[f"r{p}"]]
        sv = o["sv"]
        sword = tuple(o[f"s_{f}"] for f in self.fields)
        stag = (sword[0] >> self.tag_shift) & 3

        # ---- idle ---------------------------------------------------------------------------
        if o["idle"] != int(not waiting):
            return self._fail("C26.idle_iff_none_valid", t, f"idle={o['idle']} while inputs with valid={waiting}",
                              idle=o["idle"]) or True

        # ---- burst bookkeeping --------------------------------------------------------------
        for p in range(n):
            if valid[p] and not self.prev_valid[p]:
                self.burst_no[p] += 1

        # ---- ready routing ------------------------------------------------------------------
        if len(readies) > 1:
            return self._fail("C26.ready_only_selected", t, f"ready passed to several inputs {readies}", what="multiple") or True
        if readies and not rdy:
            return self._fail("C26.ready_only_selected", t, f"input {readies[0]} sees ready while the sink is not ready",
                              what="ready_without_sink_ready") or True
        if sv and readies and (stag >= n or readies[0] != stag):
            return self._fail("C26.ready_only_selected", t, f"source shows a word of input {stag} but ready goes to {readies[0]}",
                              what="ready_to_other") or True

        # ---- selection evidence ---------------------------------------------------------------
        sel = None
        if sv:
            sel = stag if stag < n else -1
        elif readies:
            sel = readies[0]
        # release the hold when the held input dropped valid
        if self.held_sel is not None and not valid[self.held_sel]:
            self.held_sel = None
        if sel is not None:
            if self.held_sel is not None and sel != self.held_sel:
                return self._fail("C26.no_switch_while_valid", t,
                                  f"selection moved from input {self.held_sel} (valid still high) to {sel}") or True
            if sel != self.last_sel:
                pr["selection_changes"] += 1
                if self.priority_on and sv and (waiting or self.prev_waiting):
                    ok = set()
                    if self.prev_waiting:
                        ok.add(self.prev_waiting[0])
                    if waiting:
                        ok.add(waiting[0])
                    if sel not in ok:
                        return self._fail("C26.priority", t, f"input {sel} newly selected; waiting at decision cycle "
                                          f"{self.prev_waiting}, now {waiting}", what="wrong_choice") or True
                    if len(self.prev_waiting) > 1:
                        pr["simultaneous_requests"] += 1
                    if sel == n - 1 and n > 1:
                        pr["lowest_priority_served"] += 1
            elif sv and self.last_sel_idle_gap and len(waiting) > 1 and waiting[0] != sel:
                pr["held_selection_reused"] += 1
            self.last_sel = sel
            self.held_sel = sel if (0 <= sel < n and valid[sel]) else None
        self.last_sel_idle_gap = not sv

        # ---- liveness part of the priority rule ------------------------------------------------
        if waiting and not sv:
            self.starve += 1
            if self.priority_on and self.starve > 3:
                return self._fail("C26.priority", t, f"inputs {waiting} waiting for {self.starve} cycles, source idle",
                                  what="not_served") or True
        else:
            self.starve = 0

        # ---- transfers ----------------------------------------------------------------------------
        accepted = [False] * n
        for p in readies:
            if valid[p]:
                accepted[p] = True
                self.queues[p].append((self.cur_word[p], (p, self.burst_no[p])))
        if sv and rdy:
            self.delivered += 1
            if stag >= n or not self.queues[stag]:
                return self._fail("C26.exactly_once", t, f"delivered word {sword} (tag {stag}) was not accepted from any input "
                                  f"(duplicate or spurious)", what="spurious") or True
            exp, burst = self.queues[stag].pop(0)
            if exp != sword:
                return self._fail("C26.exactly_once", t, f"delivered {sword}, expected next word of input {stag}: {exp}",
                                  what="wrong_word") or True
            if burst in self.closed:
                return self._fail("C26.no_interleave", t, f"burst {burst} resumed after words of another burst were delivered") or True
            if self.last_burst is not None and self.last_burst != burst:
                self.closed.add(self.last_burst)
            self.last_burst = burst
        for p in range(n):
            if self.queues[p]:
                self.since_accept[p] += 1
                if self.since_accept[p] > 8:
                    return self._fail("C26.exactly_once", t, f"word {self.queues[p][0][0]} accepted from input {p} was never "
                                      f"delivered", what="lost") or True
            else:
                self.since_accept[p] = 0

        # ---- probes / classes ---------------------------------------------------------------------
        if sv and 0 <= stag < n:
            for p in range(stag):
                if valid[p] and not self.prev_valid[p]:
                    pr["higher_priority_raises_mid_burst"] += 1
            if not rdy and self.prev_sv_transfer:
                pr["backpressure_mid_burst"] += 1
        self.prev_sv_transfer = bool(sv and rdy)
        if len(waiting) == n and n > 1:
            pr["all_inputs_waiting"] += 1
        self.classes.add((tuple(valid), sel if sel is not None else 9, rdy, sv))

        # ---- advance the producers -----------------------------------------------------------------
        for p, prod in enumerate(self.prods):
            before = prod.withdraw_fired
            prod.step(accepted[p])
            if prod.withdraw_fired != before:
                self.priority_on = False
                pr["withdraw_fired"] += 1
        self.prev_valid = list(valid)
        self.prev_waiting = waiting
        if all(p.done for p in self.prods):
            self.tail += 1
            return self.tail > 12
        return False


def run(scn):
    cfg = scn["config"]
    bench = _bench(cfg["kind"], cfg["inputs"], cfg["width"])
    viol = Violations()
    probes = {p: 0 for p in PROBES}
    actor = _Actor(scn, viol, probes)
    total_words = sum(o["n"] for o in scn["ops"])
    total_gap = sum(o["gap"] + (o.get("fault", {}).get("off", 0)) for o in scn["ops"])
    dens = max(1, sum(cfg["ready"])) / len(cfg["ready"])
    max_cycles = int((total_words + 4 * len(scn["ops"])) / dens * 1.5 + total_gap + 8 * len(cfg["ready"]) + 200)
    log = bench.run([actor], max_cycles=max_cycles)
    if not viol and not all(p.done for p in actor.prods):
        raise RuntimeError(f"script did not finish in {max_cycles} cycles")
    if cfg["inputs"] == 1:
        probes["single_input_runs"] += 1
    if cfg["inputs"] == 4:
        probes["four_input_runs"] += 1
    if cfg["kind"] == "header":
        probes["header_queue_runs"] += 1
    faults = {"backpressure": probes["backpressure_mid_burst"], "valid_withdrawn": probes["withdraw_fired"],
              "contending_request": probes["higher_priority_raises_mid_burst"]}
    sig = hashlib.blake2b(repr((cfg["kind"], cfg["inputs"], sorted(actor.classes), sorted(log.fsm_vectors))).encode(),
                          digest_size=8).hexdigest()
    nontrivial = bool(actor.delivered > 3 and (probes["selection_changes"] > 1 or cfg["inputs"] == 1))
    return {"violations": viol.items, "cycles": log.cycles, "faults": faults, "probes": probes, "sig": sig,
            "nontrivial": nontrivial, "digest": log.digest, "fsm": len(log.fsm_vectors)}


def shrink_candidates(scn):
    import copy
    if scn["config"]["ready"] != [1]:
        cand = copy.deepcopy(scn)
        cand["config"]["ready"] = [1]
        yield cand
    for i, op in enumerate(scn["ops"]):
        if op["n"] > 1:
            cand = copy.deepcopy(scn)
            cand["ops"][i]["n"] = 1
            yield cand
        if op["gap"] > 1:
            cand = copy.deepcopy(scn)
            cand["ops"][i]["gap"] = 1
            yield cand
