"""
C33 -- transmit CTC inserts SKPs only in place of idle, and often enough.

DUT (a) luna.gateware.usb.usb3.physical.ctc.CTCSkipInserter standalone (source.ready tied high, sink.valid tied high, as
        wired), observing source and sending_skip;
    (b) the TX path of the real luna.gateware.usb.usb3.physical.layer.USB3PhysicalLayer (Scrambler -> CTCSkipInserter ->
        phy.tx_data/tx_datak, scrambler.hold = sending_skip) built on a signal-only PIPE stub object; the RX side idles.
Actors: a link-layer word source: bursts (packet / link-command like words, zero words inside packets, COM words)
separated by logical-idle filler (0x00000000, ctrl 0) during which can_send_skp is asserted.
Oracle: sequence based (no latency assumed): transmitted word k == accepted word k (through the reference scrambler for
(b)) or an all-SKP word iff word k was filler offered with can_send_skp; SKP rate bounds with a tolerance of 8 symbols.
"""

import hashlib

from dsim.kernel import make_bench, cached_bench, Violations
from models import usb3

PROPERTY = "C33"
ENGINE = "usb3_phys"
CLOCK_HZ = 125e6
RULES = {
    "C33.only_idle_replaced": "transmitted word k == link-layer word k, or an all-SKP word if word k was logical-idle filler "
                              "offered with can_send_skp; nothing dropped, duplicated, reordered or altered",
    "C33.scrambler_held": "(b) transmitted non-SKP words == reference scrambling of the link-layer words with the keystream not "
                          "advancing over replaced filler words; (a) sending_skip is high exactly in the slots that are replaced",
    "C33.rate": "a replaceable slot is replaced once two SKP ordered sets are due (non-SKP symbols sent >= 354*(sets+2) + 8) and "
                "never while fewer than one is due (all symbols sent < 354*(sets+1) - 8)",
}
PROBES = ["skp_words_sent", "postponed_by_burst", "two_pairs_back_to_back", "three_or_more_sets_pending", "zero_word_inside_burst",
          "idle_gap_of_zero_words", "single_filler_slot_used", "com_word_in_burst", "layer_runs", "scrambling_enabled_runs",
          "long_runs_over_3000_words", "reset_cycle_phantom_word",
          "link_layer_runs", "link_layer_skp_permitted_cycles", "link_layer_non_idle_words", "scrambling_enabled_late_runs"]
META = {
    "components_real": ["luna.gateware.usb.usb3.physical.ctc.CTCSkipInserter",
                        "luna.gateware.usb.usb3.physical.layer.USB3PhysicalLayer (TX path: Scrambler, CTCSkipInserter; the rest elaborated "
                        "and idle)"],
    "components_stubbed": ["PIPE PHY: signal-only stub object", "link layer: literal word source with can_send_skp == filler offered"],
    "assumptions": ["downstream (PHY) takes a word every cycle; tx_electrical_idle low",
                    "the word present in reset cycle 0, when the inserter's registered ready is still low, may appear on the wire "
                    "although it is not accepted (treated as an optional phantom word; it is idle filler in the design)",
                    "bursts are at most 300 words (longest USB3 packet is 266 words); except in 8% 'overload' runs the idle time offered keeps "
                    "fewer than 7 SKP sets pending (the inserter's design comment promises at most 4); scrambling enable is constant "
                    "per run",
                    "rate: both symbol-counting conventions (with / without the SKP symbols themselves) are admitted"],
    "rule": "link-layer stream of 150-1200 words (5% of runs 3000-9000): bursts 1-300 words, idle gaps 0-600 words, "
            "can_send_skp high exactly on filler; 10% of runs withhold can_send_skp on some idle stretches",
}
TIERS = {"quick": {"runs": 640, "wall": 70}, "thorough": {"runs": 20000, "wall": 900}}

TOL = 8
INTERVAL = usb3.SKP_SYMBOL_INTERVAL


# ------------------------------------------------------------------------------------------------
LINK_EVERY = 40         # every 40th run (index % 40 == 11): the permission signal as the complete link layer generates it


def gen(rng, tier, index):
    if index % LINK_EVERY == 11:
        # Link-layer clause ("SKPs only in place of idle filler"): the complete USB3LinkLayer (LTSSM, training sets, link
        # commands, header transmitter, arbiter) is brought up and exercised by the C38 link-partner actor; this check only
        # adds a passive monitor on what the link layer hands the physical layer.
        from checks import c38
        scn = c38.gen_link_layer(rng, "quick", 2)
        scn["config"]["c33_link_layer"] = True
        return scn
    kind = rng.choice(["inserter", "layer", "layer"])
    scramble = 1 if (kind == "layer" and rng.random() < 0.75) else 0
    long_run = rng.random() < 0.05
    n = rng.randint(3000, 9000) if long_run else rng.randint(150, 1200 if tier == "quick" else 4000)
    style = rng.choice(["mixed", "busy", "idle_heavy", "tight"])
    withhold = rng.random() < 0.1
    overload = rng.random() < 0.08        # sustained load with too little idle: more than 7 SKP sets become pending
    ops = []
    total = 0                             # words so far
    sent = 0                              # SKP sets the reference expects to have been sent (generator-side estimate)
    while total < n:
        # ---- burst length first, so that the idle stretch before it can be made long enough ------------------------
        if style == "busy":
            b = rng.choice([5, 20, 60, 100, 177, 200, 266, 300])
            g = rng.choice([0, 0, 1, 1, 2, 3, 5])
        elif style == "tight":
            b = rng.choice([170, 176, 177, 178, 180, 266, 271])
            g = rng.choice([0, 1, 1, 1, 2])
        elif style == "idle_heavy":
            b = rng.choice([1, 2, 3, 5, 5, 8, 20, 60, 150, 271])
            g = rng.randint(50, 600)
        else:
            b = rng.choice([1, 2, 3, 5, 5, 8, 20, 60, 150, 271])
            g = rng.choice([0, 1, 2, 3, 8, 20, 60, 177, 180, 350, 600])
        can = 0 if (withhold and rng.random() < 0.3) else 1
        if not overload:
            # keep the number of pending sets below 7 (the design comment promises at most 4): add idle slots until the
            # coming burst cannot push it further
            while (4 * (total + g + b)) // INTERVAL - (sent + (2 * g if can else 0)) >= 7:
                g += 1
                can = 1
        if g:
            op = {"op": "idle", "n": g}
            if not can:
                op["can"] = 0                     # filler without permission: must not be replaced
            ops.append(op)
            for _ in range(g):
                if can and (4 * total) // INTERVAL - sent >= 2:
                    sent += 2
                total += 1
        shape = rng.choice(["packet", "lcmd", "data", "zeros", "ts"])
        ops.append({"op": "burst", "n": b, "shape": shape, "seed": rng.getrandbits(32)})
        total += b
    cfg = {"dut": kind, "scramble": scramble}
    if kind == "layer" and scramble and rng.random() < 0.12:
        # scrambling is switched on late: the run starts with this many words of pure logical idle (SKPs permitted) sent
        # unscrambled, then enable_scrambling rises -- without a COM in between, so the keystream position matters
        cfg["scramble_from"] = rng.randint(100, 420)
    return {"engine": ENGINE, "config": cfg, "ops": ops}


def _mix(x):
    x = (x * 0x9E3779B1 + 0x7F4A7C15) & 0xFFFFFFFF
    x ^= x >> 16
    x = (x * 0x85EBCA6B) & 0xFFFFFFFF
    x ^= x >> 13
    return x


def _burst_words(op):
    """ deterministic expansion of a burst op into [(data, ctrl)] """
    n, shape, x = op["n"], op["shape"], op["seed"]
    out = []
    for i in range(n):
        x = _mix(x + i)
        if shape == "zeros":
            w = (0, 0) if i % 3 else (x, 0)                       # zero words inside a packet: look like filler, are not
        elif shape == "lcmd" and i % 2 == 0:
            w = usb3.pack_word([(usb3.SLC, 1)] * 3 + [(usb3.EPF, 1)])
        elif shape == "ts" and i % 4 == 0:
            w = usb3.COM_WORD
        elif shape == "packet" and i == 0:
            w = usb3.pack_word([(usb3.SHP, 1)] * 3 + [(usb3.EPF, 1)])
        elif shape == "packet" and i == n - 1 and n > 1:
            w = usb3.pack_word([(x & 0xFF, 0), ((x >> 8) & 0xFF, 0), (usb3.END, 1), (usb3.END, 1)])
        else:
            w = (x, 0)
        out.append(w)
    return out


# ------------------------------------------------------------------------------------------------
class _PipeStub:
    """ signal-only PIPE PHY stand-in (names and widths as luna.gateware.interface.pipe.PIPEInterface(width=4)) """

    def __init__(self):
        from amaranth import Signal
        for name, width in [("reset", 1), ("clk", 1), ("pclk", 1), ("tx_data", 32), ("tx_datak", 4), ("rx_data", 32), ("rx_datak", 4),
                            ("phy_mode", 2), ("elas_buf_mode", 1), ("rate", 1), ("power_down", 2), ("tx_deemph", 2), ("tx_margin", 3),
                            ("tx_swing", 1), ("tx_detrx_lpbk", 1), ("tx_elec_idle", 1), ("tx_compliance", 1), ("tx_ones_zeros", 1),
                            ("rx_polarity", 1), ("rx_eq_training", 1), ("rx_termination", 1), ("phy_status", 1), ("rx_valid", 1),
                            ("rx_status", 3), ("rx_elec_idle", 1), ("power_present", 1)]:
            setattr(self, name, Signal(width, name=f"pipe_{name}"))


def _bench(kind):
    def factory():
        if kind == "inserter":
            from luna.gateware.usb.usb3.physical.ctc import CTCSkipInserter
            dut = CTCSkipInserter()
            ins = {"data": dut.sink.data, "ctrl": dut.sink.ctrl, "valid": dut.sink.valid, "can": dut.can_send_skip,
                   "src_ready": dut.source.ready}
            outs = {"ready": dut.sink.ready, "o_valid": dut.source.valid, "o_data": dut.source.data, "o_ctrl": dut.source.ctrl,
                    "sending": dut.sending_skip}
            return make_bench(dut, clocks={"ss": 1 / 125e6}, main="ss", ins=ins, outs=outs)
        from luna.gateware.usb.usb3.physical.layer import USB3PhysicalLayer
        phy = _PipeStub()
        dut = USB3PhysicalLayer(phy=phy, sync_frequency=1e6)
        ins = {"data": dut.sink.data, "ctrl": dut.sink.ctrl, "valid": dut.sink.valid, "can": dut.can_send_skp,
               "scramble": dut.enable_scrambling, "tx_idle": dut.tx_electrical_idle,
               "rx_elec_idle": phy.rx_elec_idle, "phy_status": phy.phy_status, "rx_data": phy.rx_data, "rx_datak": phy.rx_datak}
        outs = {"ready": dut.sink.ready, "o_data": phy.tx_data, "o_ctrl": phy.tx_datak}
        return make_bench(dut, clocks={"ss": 1 / 125e6, "sync": 1 / 1e6}, main="ss", ins=ins, outs=outs)
    return cached_bench(("c33", kind), factory)


FILLER = (0, 0)


class _Actor:
    DRAIN = 6

    def __init__(self, scn, viol, probes):
        self.kind = scn["config"]["dut"]
        self.scramble = scn["config"]["scramble"]
        self.viol, self.pr = viol, probes
        # flatten the script: (data, ctrl, can, in_burst)
        self.script = []
        for op in scn["ops"]:
            if op["op"] == "idle":
                self.script.extend([(0, 0, op.get("can", 1), False)] * op["n"])
            else:
                self.script.extend((d, c, 0, True) for d, c in _burst_words(op))
        self.scramble_from = scn["config"].get("scramble_from", 0)
        if self.scramble_from:
            self.script = [(0, 0, 1, False)] * self.scramble_from + self.script
        # (whether the LFSR runs on or stands still while scrambling is disabled is not specified: both are accepted until the
        # first scrambled word shows which one the design does; it never advances over slots replaced by SKPs)
        self.ref_frozen = usb3.ScramblerRef() if self.scramble_from else None
        self.pos = 0
        self.A = []                  # accepted, not yet matched: dicts
        self.k = 0                   # words matched so far (== symbols/4 transmitted before the next word)
        self.skp_words = 0
        self.ref = usb3.ScramblerRef()
        self.dead = False
        self.cur = None
        self.finished = False
        self.tail = 0
        self.sending_slots = []      # (a): slots for which sending_skip was high
        self.slot_no = 0
        self.classes = set()
        self.last_was_skp = False
        self.burst_since_due = False
        self.fill_run = 0

    def drive(self, t):
        if self.pos < len(self.script):
            d, c, can, inb = self.script[self.pos]
        else:
            d, c, can, inb = 0, 0, 0, False            # drain: filler without permission
            self.finished = True
        self.cur = (d, c, can, inb)
        pins = {"data": d, "ctrl": c, "valid": 1, "can": can}
        if self.kind == "inserter":
            pins["src_ready"] = 1
        else:
            self.en_now = int(bool(self.scramble) and self.pos >= self.scramble_from)
            pins.update({"scramble": self.en_now, "tx_idle": 0, "rx_elec_idle": 1})
        return pins

    def _fail(self, rule, t, msg, **shape):
        self.viol.add(rule, t, f"[{self.kind}] " + msg, **shape)
        self.dead = True
        return True

    def observe(self, t, o):
        if self.dead:
            return True
        pr = self.pr
        d, c, can, inb = self.cur
        # ---- input slot ------------------------------------------------------------------------------------------
        if o["ready"]:
            e = {"d": d, "c": c, "rep": bool(can) and (d, c) == FILLER, "burst": inb, "opt": False, "t": t,
                 "sending": o.get("sending", None), "en": getattr(self, "en_now", 1)}
            self.A.append(e)
            if self.pos < len(self.script):
                self.pos += 1
                if inb and (d, c) == FILLER:
                    pr["zero_word_inside_burst"] += 1
                if inb and (c & 1) and (d & 0xFF) == usb3.COM:
                    pr["com_word_in_burst"] += 1
        elif t == 0:
            # registered ready still low in the reset cycle: the word may leak onto the wire once
            self.A.append({"d": d, "c": c, "rep": False, "burst": inb, "opt": True, "t": t, "sending": None, "en": getattr(self, "en_now", 1)})
        else:
            return self._fail("C33.only_idle_replaced", t, "sink.ready low after the reset cycle although the PHY takes a word "
                              "every cycle", what="stalled")
        if self.kind == "inserter" and o["sending"] and not (o["ready"] and can and (d, c) == FILLER):
            return self._fail("C33.scrambler_held", t, "sending_skip high in a slot that is not replaceable filler",
                              what="sending_skip_on_data")
        # ---- output word -----------------------------------------------------------------------------------------
        has_out = o["o_valid"] if self.kind == "inserter" else (t > 0)
        if has_out:
            out = (o["o_data"], o["o_ctrl"])
            while True:
                if not self.A:
                    if self.kind == "layer" and self.k == 0:
                        return False              # pipeline not yet filled: the PHY bus shows reset values
                    return self._fail("C33.only_idle_replaced", t, f"word {out[0]:#010x}/{out[1]:#x} transmitted that the link "
                                      f"layer never offered (duplicate / spurious)", what="spurious")
                e = self.A[0]
                r = self._match(t, e, out)
                if r == "skip":
                    self.A.pop(0)
                    continue
                if r is True:
                    return True
                break
        if len(self.A) > 4:
            return self._fail("C33.only_idle_replaced", t, f"{len(self.A)} accepted words not transmitted", what="dropped_or_delayed")
        if self.finished:
            self.tail += 1
            if self.tail > self.DRAIN:
                if self.k < len(self.script):
                    return self._fail("C33.only_idle_replaced", t, f"only {self.k} of {len(self.script)} accepted words were "
                                      f"transmitted", what="dropped")
                return True
        return False

    def _match(self, t, e, out):
        pr = self.pr
        is_skp = out == usb3.SKP_WORD
        sym_all = 4 * self.k
        sets = 2 * self.skp_words
        sym_nonskp = sym_all - 2 * sets
        due_lower = sym_nonskp >= INTERVAL * (sets + 2) + TOL
        # ---- expected plain word -------------------------------------------------------------------------------
        if self.kind == "layer" and self.scramble:
            ref2 = self.ref.copy()
            exp_d = usb3.scramble_word(ref2, e["d"], e["c"])
            if not e["en"]:
                exp_d = e["d"]                                   # sent unscrambled; ref2 = "the LFSR runs on while disabled"
            elif self.ref_frozen is not None:
                # first scrambled word after the late enable: decide between the two admissible keystream positions
                alt = self.ref_frozen.copy()
                alt_d = usb3.scramble_word(alt, e["d"], e["c"])
                if out != (exp_d, e["c"]) and out == (alt_d, e["c"]):
                    ref2, exp_d = alt, alt_d
                if out != usb3.SKP_WORD:
                    self.ref_frozen = None
                    pr["scrambling_enabled_late_runs"] += 1
        else:
            ref2 = None
            exp_d = e["d"]
        plain_ok = out == (exp_d, e["c"])
        if e["opt"]:
            # phantom word of reset cycle 0 (never replaceable, keystream not advanced): either it shows up or it does not
            if plain_ok and not is_skp:
                pr["reset_cycle_phantom_word"] += 1
                self.A.pop(0)
                return False
            return "skip"
        if is_skp and (e["rep"] or not plain_ok):
            if not e["rep"]:
                return self._fail("C33.only_idle_replaced", t, f"link-layer word {e['d']:#010x}/{e['c']:#x} "
                                  f"({'inside a burst' if e['burst'] else 'filler without can_send_skp'}) was replaced by SKPs",
                                  what="data_replaced", in_burst=e["burst"])
            if sym_all < INTERVAL * (sets + 1) - TOL:
                return self._fail("C33.rate", t, f"SKP word sent after {sym_all} symbols with {sets} sets already sent: fewer than "
                                  f"one set is due", what="too_many")
            if e["sending"] == 0:
                return self._fail("C33.scrambler_held", t, "slot replaced by SKPs but sending_skip was low", what="sending_skip_low")
            self.skp_words += 1
            pr["skp_words_sent"] += 1
            if self.last_was_skp:
                pr["two_pairs_back_to_back"] += 1
            if self.burst_since_due:
                pr["postponed_by_burst"] += 1
            if self.fill_run == 0:
                pr["single_filler_slot_used"] += 1
            self.classes.add(("skp", self.burst_since_due, self.last_was_skp, min(4, (sym_nonskp - INTERVAL * sets) // INTERVAL)))
            self.last_was_skp = True
            self.burst_since_due = False
        else:
            if not plain_ok:
                # diagnose for the scrambler rule
                if ref2 is not None and out[1] == e["c"]:
                    mask = 0
                    for i in range(4):
                        if not (e["c"] >> i) & 1:
                            mask |= 0xFF << (8 * i)
                    r3 = self.ref.copy()
                    for n in range(1, 4):
                        r3.next_word_key()
                        r4 = r3.copy()
                        if mask and (out[0] ^ e["d"]) & mask == r4.next_word_key() & mask and not (out[0] ^ e["d"]) & ~mask & 0xFFFFFFFF:
                            return self._fail("C33.scrambler_held", t, f"keystream is {n} word(s) ahead after {self.skp_words} inserted "
                                              f"SKP word(s): got {out[0]:#010x}, expected {exp_d:#010x}", what="advanced_over_skp")
                    return self._fail("C33.scrambler_held", t, f"transmitted {out[0]:#010x}/{out[1]:#x}, expected scrambled "
                                      f"{exp_d:#010x}/{e['c']:#x} (plain {e['d']:#010x})", what="wrong_scrambling")
                return self._fail("C33.only_idle_replaced", t, f"transmitted {out[0]:#010x}/{out[1]:#x}, expected {exp_d:#010x}/{e['c']:#x}"
                                  f" (link-layer word {self.k})", what="altered_or_reordered")
            if e["sending"]:
                return self._fail("C33.scrambler_held", t, "sending_skip was high for a slot that was transmitted unchanged",
                                  what="sending_skip_high")
            if e["rep"] and due_lower:
                return self._fail("C33.rate", t, f"replaceable filler not replaced although {sym_nonskp} non-SKP symbols were sent "
                                  f"with only {sets} sets: two sets are due", what="not_inserted_when_due",
                                  pending_sets_ge_8=sym_nonskp >= INTERVAL * (sets + 8))
            if sym_nonskp >= INTERVAL * (sets + 2):
                if e["burst"]:
                    self.burst_since_due = True
                if sym_nonskp >= INTERVAL * (sets + 3):
                    pr["three_or_more_sets_pending"] += 1
            if ref2 is not None:
                self.ref = ref2
                if (e["c"] & 1) and (e["d"] & 0xFF) == usb3.COM:
                    self.ref.reset()
            self.last_was_skp = False
        self.fill_run = self.fill_run + 1 if e["rep"] else 0
        self.A.pop(0)
        self.k += 1
        return False


def _run_link_layer(scn):
    from checks import c38
    from engines import usb3_link_layer as LL
    bench = LL.link_layer_bench()
    viol = Violations()
    probes = {p: 0 for p in PROBES}
    sub_viol = Violations()                       # the partner actor's own (C38) verdicts are not this check's business
    sub_probes = {p: 0 for p in c38.PROBES}
    host = LL.LinkLayerHost(scn, sub_viol, sub_probes, {}, c38.RULEMAP)

    class SkipPermissionMonitor:
        def __init__(self):
            self.allowed = self.busy_words = 0

        def observe(self, t, o):
            idle_word = bool(o["tx_valid"]) and o["tx_data"] == 0 and o["tx_ctrl"] == 0
            if o["can_send_skp"]:
                self.allowed += 1
                if not idle_word and not viol:
                    viol.add("C33.only_idle_replaced", t, f"link layer: can_send_skp is high in cycle {t} while it presents the word "
                             f"{o['tx_data']:08x}/{o['tx_ctrl']:x} (valid={o['tx_valid']}) to the physical layer: that is not "
                             f"logical-idle filler, so the transmit CTC may replace packet / command / training data by SKPs",
                             dut="link_layer", word="ctrl" if o["tx_ctrl"] else "data")
            elif o["tx_valid"] and not idle_word:
                self.busy_words += 1
            return False

    mon = SkipPermissionMonitor()
    cap = c38.ll_max_cycles(scn)
    log = bench.run([host, mon], cap, init=dict(LL.INIT_PINS))
    if not host.done and not host.dead and not viol:
        raise RuntimeError(f"link-partner script did not finish within {cap} cycles (phase {host.phase})")
    probes["link_layer_runs"] = 1
    probes["link_layer_skp_permitted_cycles"] = mon.allowed
    probes["link_layer_non_idle_words"] = mon.busy_words
    sig = hashlib.blake2b(repr(("link_layer", sorted(log.fsm_vectors), host.exits)).encode(), digest_size=8).hexdigest()
    return {"violations": viol.items, "cycles": log.cycles, "faults": {"link_exit": len(host.exits)}, "probes": probes, "sig": sig,
            "nontrivial": mon.allowed > 0 and mon.busy_words > 0, "digest": log.digest, "fsm": len(log.fsm_vectors)}


def run(scn):
    if scn["config"].get("c33_link_layer"):
        return _run_link_layer(scn)
    kind = scn["config"]["dut"]
    bench = _bench(kind)
    viol = Violations()
    probes = {p: 0 for p in PROBES}
    actor = _Actor(scn, viol, probes)
    total = len(actor.script)
    log = bench.run([actor], max_cycles=total + 40, init={"rx_elec_idle": 1} if kind == "layer" else None)
    if not viol and not (actor.finished and actor.tail > actor.DRAIN):
        raise RuntimeError("script did not finish")
    if kind == "layer":
        probes["layer_runs"] += 1
        if scn["config"]["scramble"]:
            probes["scrambling_enabled_runs"] += 1
    if total >= 3000:
        probes["long_runs_over_3000_words"] += 1
    probes["idle_gap_of_zero_words"] += sum(1 for a, b in zip(scn["ops"], scn["ops"][1:]) if a["op"] == "burst" and b["op"] == "burst")
    faults = {"long_burst_postpones_skp": probes["postponed_by_burst"],
              "filler_without_permission": sum(op["n"] for op in scn["ops"] if op["op"] == "idle" and op.get("can") == 0),
              "zero_word_inside_burst": probes["zero_word_inside_burst"]}
    opclasses = sorted(set((op["op"], op.get("can", 1), min(op["n"], 400) // 20) for op in scn["ops"]))
    sig = hashlib.blake2b(repr((kind, scn["config"]["scramble"], sorted(actor.classes), opclasses)).encode(),
                          digest_size=8).hexdigest()
    return {"violations": viol.items, "cycles": log.cycles, "faults": faults, "probes": probes, "sig": sig,
            "nontrivial": probes["skp_words_sent"] > 0, "digest": log.digest, "fsm": len(log.fsm_vectors)}


def shrink_candidates(scn):
    import copy
    for i, op in enumerate(scn["ops"]):
        if op["n"] > 1:
            for n in (op["n"] // 2, op["n"] - 1):
                cand = copy.deepcopy(scn)
                cand["ops"][i]["n"] = n
                yield cand
