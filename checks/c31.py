"""
C31 -- SuperSpeed scrambling uses the USB3 LFSR and descrambling inverts it.

DUT: luna.gateware.usb.usb3.physical.scrambling.Scrambler(initial_value=0xffff) / Descrambler() standalone, and a chain
     scrambler -> descrambler (words the scrambler is "held" on are withheld from the descrambler, as the SKP that
     replaces them on the wire is removed by the receiver's CTC stage).
Actors: a word producer (invalid gaps with garbage, per-word enable / hold), a consumer (per-word stall count).
Oracle: models.usb3 bit-serial LFSR run over the history of *transferred* words.
"""

import hashlib

from dsim.kernel import make_bench, cached_bench, Violations
from models import usb3

PROPERTY = "C31"
ENGINE = "usb3_phys"
CLOCK_HZ = 125e6
RULES = {
    "C31.keystream": "transferred word: data symbols == input XOR the next four bytes of the x^16+x^5+x^4+x^3+1 sequence "
                     "(seed 0xFFFF), control symbols and the ctrl mask unchanged; enable low: word passed through",
    "C31.advance_only_on_transfer": "the keystream advances by exactly one word per transferred, non-held word: not while "
                                    "stalled (valid, not ready), not over invalid words, not while held",
    "C31.com_restart": "the word following a transferred word with COM (K28.5) in symbol 0 starts the sequence again; the COM "
                       "word itself, COMs in other symbols, 0xBC data bytes and invalid words do not restart anything early",
    "C31.roundtrip": "descrambler(scrambler(stream)) == stream for the same enable/stall history",
    "C31.rx_path": "USB3PhysicalLayer receive glue (PIPE rx -> SKP remover -> aligner -> Descrambler -> source): the words at "
                   "`source` are the link partner's plain words, SKP ordered sets removed, when the wire carries their "
                   "scrambled form (every 8th run)",
}
PROBES = ["com_word_transferred", "com_word_with_data_symbols", "com_word_stalled", "com_in_other_symbol", "com_as_data_sym0",
          "invalid_com_lookalike", "hold_cycles", "stalled_words", "disabled_words", "clear_pulses", "mixed_data_ctrl_words",
          "long_run_over_2000_words", "chain_runs", "descrambler_runs", "disabled_advance_policy_resolved",
          "rx_path_runs", "rx_path_skp_words", "rx_path_skp_before_data", "rx_path_words_compared"]
META = {
    "components_real": ["luna.gateware.usb.usb3.physical.scrambling.Scrambler", "luna.gateware.usb.usb3.physical.scrambling.Descrambler", "luna.gateware.usb.usb3.physical.scrambling.ScramblerLFSR",
                        "luna.gateware.usb.usb3.physical.layer.USB3PhysicalLayer (receive path, every 8th run)"],
    "components_stubbed": ["word producer / consumer (literal per-word stall, gap, enable, hold)",
                           "chain bench: 3 lines of glue (descrambler.sink.valid = scrambler.source.valid & ~hold)"],
    "assumptions": ["held words are filler words without COM in symbol 0 (in the design hold == SKP insertion over logical idle); "
                    "their output is not checked", "clear is pulsed only in cycles without a valid word",
                    "whether the keystream advances over words transferred while enable is low is left open: both policies are "
                    "tracked and the DUT must follow one of them consistently",
                    "producer holds valid+word until accepted"],
    "rule": "40-400 words (5% of runs 2000-6000) in segments: data, mixed data/K, COM words (COMx4, COM+data, COM in symbols 1-3, "
            "0xBC data), enable on/off per segment, hold on filler words, per-word stall 0-4, invalid gaps with COM look-alikes, "
            "clear pulses in gaps; DUT kind scrambler/descrambler/chain",
}
TIERS = {"quick": {"runs": 4800, "wall": 70}, "thorough": {"runs": 40000, "wall": 900}}

COMW = usb3.COM


def _word(rng, kind):
    if kind == "data":
        return rng.getrandbits(32), 0
    if kind == "zeros":
        return 0, 0
    if kind == "mixed":
        c = rng.randrange(1, 16)
        syms = [((rng.choice(usb3.K_SYMBOLS_NO_SKP_COM), 1) if (c >> i) & 1 else (rng.getrandbits(8), 0)) for i in range(4)]
        return usb3.pack_word(syms)
    if kind == "com4":
        return usb3.COM_WORD
    if kind == "com_data":                      # COM in symbol 0 followed by data (TSEQ-like)
        syms = [usb3.COM_SYM] + [(rng.getrandbits(8), 0) if rng.random() < 0.8 else (rng.choice(usb3.K_SYMBOLS), 1)
                                 for _ in range(3)]
        return usb3.pack_word(syms)
    if kind == "com_other":                     # COM as K symbol in symbols 1..3 only
        pos = rng.randrange(1, 4)
        syms = [(rng.getrandbits(8), 0) for _ in range(4)]
        syms[pos] = usb3.COM_SYM
        if syms[0][0] == COMW:
            syms[0] = (0x11, 0)
        return usb3.pack_word(syms)
    if kind == "com_as_data":                   # 0xBC data byte in symbol 0: not a comma
        syms = [(COMW, 0)] + [(rng.getrandbits(8), 0) for _ in range(3)]
        return usb3.pack_word(syms)
    raise ValueError(kind)


RX_EVERY = 8


def _gen_rx(rng, tier):
    """ plain words of a link partner (after one all-COM word that aligns the receiver and restarts the keystream); SKP words
        (two ordered sets) are dropped in on the wire between them without advancing the partner's LFSR """
    n = rng.randint(30, 200 if tier == "quick" else 800)
    skp_rate = rng.choice([0.0, 0.02, 0.06, 0.15])
    ops = []
    while len(ops) < n:
        seg = rng.choice(["data", "data", "zeros", "mixed", "com"])
        for _ in range(rng.randint(1, 25)):
            if rng.random() < skp_rate:
                ops.append({"skp": rng.choice([1, 1, 1, 2])})
            kind = seg if seg != "mixed" else rng.choice(["data", "zeros"])
            if kind == "com":
                # on a real link COM only ever leads an ordered set as COM x4 (TS1/TS2); the word aligner keys on that
                kind = rng.choice(["com4", "data", "data"])
            if kind == "com4":
                ops.append({"d": usb3.COM_WORD[0], "c": 0xF})
            elif kind == "zeros":
                ops.append({"d": 0, "c": 0})
            else:
                ops.append({"d": rng.getrandbits(32), "c": 0})
    return {"engine": ENGINE, "config": {"dut": "rx_path", "scramble": 0 if rng.random() < 0.1 else 1}, "ops": ops}


def gen(rng, tier, index):
    if index % RX_EVERY == 5:
        return _gen_rx(rng, tier)
    dut = rng.choice(["scrambler", "scrambler", "descrambler", "chain", "chain"])
    long_run = rng.random() < 0.05
    n = rng.randint(2000, 6000) if long_run else rng.randint(40, 400 if tier == "quick" else 1500)
    fault_free = rng.random() < 0.15 or long_run
    stall_com_data = rng.random() < 0.25      # only some runs stall COM words that also carry data symbols (see com_restart)
    ops = []
    en = 1
    off_left = 0
    while len(ops) < n:
        seg = rng.choice(["data", "data", "data", "mixed", "com", "toggle", "hold", "zeros"])
        ln = rng.randint(1, 30) if not long_run else rng.randint(100, 900)
        if en == 0:
            off_left -= 1
            if off_left < 0:
                seg = "toggle"
        if seg == "toggle":
            en ^= 1
            off_left = rng.randint(0, 2)
            # re-synchronise after changing enable so that the run keeps checking real keystream bytes
            if rng.random() < 0.7:
                ops.append({"d": usb3.COM_WORD[0], "c": 0xF, "en": en})
            continue
        for _ in range(ln):
            if seg == "com":
                kind = rng.choice(["com4", "com4", "com_data", "com_data", "com_other", "com_as_data", "data"])
            elif seg == "hold":
                kind = rng.choice(["zeros", "data"])
            else:
                kind = seg
            d, c = _word(rng, kind)
            op = {"d": d, "c": c, "en": en}
            if seg == "hold" and rng.random() < 0.4 and not ((c & 1) and (d & 0xFF) == COMW):
                op["hold"] = 1
            if not fault_free:
                r = rng.random()
                if r < 0.15 and (stall_com_data or kind != "com_data"):
                    op["stall"] = rng.randint(1, 4)
                r = rng.random()
                if r < 0.10:
                    g = {"n": rng.randint(1, 3)}
                    k = rng.random()
                    if k < 0.4:
                        g["d"], g["c"] = usb3.COM_WORD[0], rng.choice([0xF, 0x1])     # invalid word that looks like a comma
                    else:
                        g["d"], g["c"] = rng.getrandbits(32), rng.getrandbits(4)
                    if rng.random() < 0.1:
                        g["clear"] = 1
                    op["gap"] = g
            ops.append(op)
    # starting state of the LFSR (constructor parameter; also the state a COM restarts it from): the link's 0xFFFF mostly,
    # else the Scrambler class default or an arbitrary state
    iv = rng.choice([0xFFFF, 0xFFFF, 0xFFFF, 0x7DBD, rng.getrandbits(16) or 1])
    return {"engine": ENGINE, "config": {"dut": dut, "iv": iv}, "ops": ops[:n]}


def _bench(kind, iv=0xFFFF):
    def factory():
        from amaranth import Module, Elaboratable
        from luna.gateware.usb.usb3.physical.scrambling import Scrambler, Descrambler
        if kind == "chain":
            class Chain(Elaboratable):
                def __init__(self):
                    self.scr = Scrambler(initial_value=iv)
                    self.des = Descrambler(initial_value=iv)

                def elaborate(self, platform):
                    m = Module()
                    m.submodules.scr = scr = self.scr
                    m.submodules.des = des = self.des
                    m.d.comb += [
                        des.sink.data.eq(scr.source.data), des.sink.ctrl.eq(scr.source.ctrl),
                        des.sink.valid.eq(scr.source.valid & ~scr.hold),
                        scr.source.ready.eq(des.sink.ready),
                    ]
                    return m
            dut = Chain()
            first, last = dut.scr, dut.des
            ins = {"en2": last.enable, "clear2": last.clear}
            outs = {"m_valid": first.source.valid, "m_data": first.source.data, "m_ctrl": first.source.ctrl}
        else:
            dut = Scrambler(initial_value=iv) if kind == "scrambler" else Descrambler(initial_value=iv)
            first = last = dut
            ins, outs = {}, {}
        ins.update({"data": first.sink.data, "ctrl": first.sink.ctrl, "valid": first.sink.valid, "en": first.enable,
                    "hold": first.hold, "clear": first.clear, "ready": last.source.ready})
        outs.update({"s_ready": first.sink.ready, "o_valid": last.source.valid, "o_data": last.source.data,
                     "o_ctrl": last.source.ctrl})
        return make_bench(dut, clocks={"ss": 1 / 125e6}, main="ss", ins=ins, outs=outs)
    return cached_bench(("c31", kind, iv), factory)


def _datamask(ctrl):
    m = 0
    for i in range(4):
        if not (ctrl >> i) & 1:
            m |= 0xFF << (8 * i)
    return m


def _adv(state):
    r = usb3.ScramblerRef(state)
    key = r.next_word_key()
    return r.state, key


class _Policy:
    """ one deterministic reference: adv_when_disabled in {True, False} """

    def __init__(self, adv_when_disabled, seed):
        self.adv_dis = adv_when_disabled
        self.state = seed
        self.alive = True


class _Actor:
    def __init__(self, scn, viol, probes):
        self.ops = scn["ops"]
        self.kind = scn["config"]["dut"]
        self.viol, self.pr = viol, probes
        self.i = 0
        self.phase = None
        self.dead = False
        self.finished = False
        self.tail = 0
        self.seed = scn["config"].get("iv", usb3.LFSR_SEED)
        self.policies = [_Policy(True, self.seed), _Policy(False, self.seed)]
        self.prev_com = False            # previous transferred, non-held word had COM in symbol 0
        self.since = {"stall": 0, "gap": 0, "hold": 0}    # events since the last checked transfer
        self.queue = []                  # chain: words that must come out of the descrambler
        self.classes = set()
        self.words = 0
        self._load()

    def _load(self):
        if self.i >= len(self.ops):
            self.finished = True
            return
        op = self.ops[self.i]
        g = op.get("gap")
        self.gap_left = g["n"] if g else 0
        self.stall_left = op.get("stall", 0)
        self.stalled = 0

    def drive(self, t):
        if self.finished:
            self.cur = None
            return {"valid": 0, "ready": 1, "hold": 0, "clear": 0, "clear2": 0} if self.kind == "chain" else \
                {"valid": 0, "ready": 1, "hold": 0, "clear": 0}
        op = self.ops[self.i]
        if self.gap_left > 0:
            g = op["gap"]
            self.cur = ("gap", g)
            d = {"valid": 0, "data": g["d"], "ctrl": g["c"], "hold": 0, "clear": g.get("clear", 0) if self.gap_left == 1 else 0,
                 "ready": 1, "en": op["en"]}
        else:
            rdy = 0 if self.stall_left > 0 else 1
            self.cur = ("word", op, rdy)
            d = {"valid": 1, "data": op["d"], "ctrl": op["c"], "hold": op.get("hold", 0), "clear": 0, "ready": rdy, "en": op["en"]}
        if self.kind == "chain":
            d["en2"] = d["en"]
            d["clear2"] = d["clear"]
        return d

    def _fail(self, rule, t, msg, **shape):
        self.viol.add(rule, t, f"[{self.kind}] " + msg, **shape)
        self.dead = True
        return True

    # ---- reference check of one transferred word at the (de)scrambler output --------------------------------
    def _check_word(self, t, op, out_d, out_c):
        d, c, en = op["d"], op["c"], op["en"]
        pr = self.pr
        is_com = bool(c & 1) and (d & 0xFF) == COMW
        if out_c != c:
            return self._fail("C31.keystream", t, f"ctrl mask changed: in {c:#x} out {out_c:#x}", what="ctrl_changed")
        mask = _datamask(c)
        if (out_d ^ d) & ~mask & 0xFFFFFFFF:
            return self._fail("C31.keystream", t, f"control symbol altered: in {d:#010x}/{c:#x} out {out_d:#010x}", what="k_symbol_altered")
        if op.get("hold"):
            pr["hold_cycles"] += 1
            self.since["hold"] += 1
            return False
        self.words += 1
        if not en:
            pr["disabled_words"] += 1
            if out_d != d:
                return self._fail("C31.keystream", t, f"enable low but word altered: in {d:#010x} out {out_d:#010x}", what="not_passthrough")
        diff = (out_d ^ d) & mask
        survivors = []
        for p in self.policies:
            if not p.alive:
                continue
            nstate, key = _adv(p.state)
            if not en or diff == (key & mask):
                survivors.append(p)
        if en and not survivors:
            # ---- classify ----------------------------------------------------------------------------------
            p = next(q for q in self.policies if q.alive)
            ctx = dict(stalled=self.stalled > 0, com_word=is_com)
            _, seed_key = _adv(self.seed)
            exp_key = _adv(p.state)[1]
            info = (f"in {d:#010x}/{c:#x} out {out_d:#010x}: key used {diff:#010x} (data lanes), expected {exp_key & mask:#010x}; "
                    f"stalled {self.stalled} cycles, {self.since} since the previous word")
            if mask and diff == (seed_key & mask) and exp_key & mask != seed_key & mask:
                if is_com:
                    return self._fail("C31.com_restart", t, "COM word itself scrambled with the restarted keystream: " + info,
                                      what="restart_before_com_word_transferred", **ctx)
                return self._fail("C31.com_restart", t, "keystream restarted without a transferred COM in symbol 0: " + info,
                                  what="spurious_restart", **ctx)
            if self.prev_com:
                return self._fail("C31.com_restart", t, "word after a COM word does not start the sequence again: " + info,
                                  what="no_restart", **ctx)
            # extra / missing advances?
            s = p.state
            for n in range(1, 6):
                s, _k = _adv(s)
                if diff == (_adv(s)[1] & mask) and mask:
                    return self._fail("C31.advance_only_on_transfer", t, f"keystream is {n} word(s) ahead: " + info,
                                      what="extra_advance", **ctx)
            return self._fail("C31.keystream", t, "wrong keystream: " + info, what="wrong_key", **ctx)
        for p in self.policies:
            if p.alive and p not in survivors:
                p.alive = False
                pr["disabled_advance_policy_resolved"] += 1
        # ---- advance the references ----------------------------------------------------------------------------
        for p in self.policies:
            if not p.alive:
                continue
            if is_com:
                p.state = self.seed
            elif en or p.adv_dis:
                p.state = _adv(p.state)[0]
        # ---- probes ------------------------------------------------------------------------------------------
        if is_com:
            pr["com_word_transferred"] += 1
            if mask:
                pr["com_word_with_data_symbols"] += 1
            if self.stalled:
                pr["com_word_stalled"] += 1
        elif any(((c >> i) & 1) and ((d >> (8 * i)) & 0xFF) == COMW for i in range(1, 4)):
            pr["com_in_other_symbol"] += 1
        elif (d & 0xFF) == COMW:
            pr["com_as_data_sym0"] += 1
        if c not in (0, 0xF):
            pr["mixed_data_ctrl_words"] += 1
        if self.stalled:
            pr["stalled_words"] += 1
        self.classes.add((is_com, c not in (0, 0xF), en, self.stalled > 0, self.since["gap"] > 0, self.since["hold"] > 0, self.prev_com))
        self.prev_com = is_com
        self.since = {"stall": 0, "gap": 0, "hold": 0}
        return False

    def observe(self, t, o):
        if self.dead:
            return True
        pr = self.pr
        cur = self.cur
        chain = self.kind == "chain"
        if cur is None:
            if o["o_valid"]:
                return self._fail("C31.keystream", t, "output valid without input", what="spurious_valid")
            self.tail += 1
            if self.tail > 3:
                if self.queue:
                    return self._fail("C31.roundtrip", t, f"{len(self.queue)} word(s) never left the descrambler", what="lost")
                return True
            return False
        if cur[0] == "gap":
            g = cur[1]
            if o["o_valid"]:
                return self._fail("C31.keystream", t, "output valid while the input is invalid", what="spurious_valid")
            if (g["c"] & 1) and (g["d"] & 0xFF) == COMW:
                pr["invalid_com_lookalike"] += 1
            if g.get("clear") and self.gap_left == 1:
                pr["clear_pulses"] += 1
                for p in self.policies:
                    p.state = self.seed
                self.prev_com = False
            self.since["gap"] += 1
            self.gap_left -= 1
            return False
        _, op, rdy = cur
        mid_valid = o["m_valid"] if chain else o["o_valid"]
        if not mid_valid:
            return self._fail("C31.keystream", t, "source.valid low although a valid word is offered", what="valid_dropped")
        if not (rdy and o["s_ready"]):
            if rdy and not o["s_ready"]:
                return self._fail("C31.keystream", t, "sink.ready low although the consumer is ready", what="ready_dropped")
            self.stall_left -= 1
            self.stalled += 1
            self.since["stall"] += 1
            return False
        # ---- the word is transferred in this cycle ---------------------------------------------------------------
        if chain:
            if self._check_word(t, op, o["m_data"], o["m_ctrl"]):
                return True
            if not op.get("hold"):
                if not o["o_valid"]:
                    return self._fail("C31.roundtrip", t, "descrambler output not valid for a transferred word", what="lost")
                if (o["o_data"], o["o_ctrl"]) != (op["d"], op["c"]):
                    return self._fail("C31.roundtrip", t, f"descrambled {o['o_data']:#010x}/{o['o_ctrl']:#x} != original "
                                      f"{op['d']:#010x}/{op['c']:#x}", what="mismatch", enable=op["en"], stalled=self.stalled > 0)
            elif o["o_valid"]:
                return self._fail("C31.roundtrip", t, "harness: held word reached the descrambler output", what="harness")
        else:
            if self._check_word(t, op, o["o_data"], o["o_ctrl"]):
                return True
        self.i += 1
        self._load()
        return False


class _PipeStub:
    """ signal-only PIPE PHY stand-in (names and widths as luna.gateware.interface.pipe.PIPEInterface(width=4)) """

    def __init__(self):
        from amaranth import Signal
        for name, width in [("reset", 1), ("clk", 1), ("pclk", 1), ("tx_data", 32), ("tx_datak", 4), ("rx_data", 32), ("rx_datak", 4),
                            ("phy_mode", 2), ("elas_buf_mode", 1), ("rate", 1), ("power_down", 2), ("tx_deemph", 2), ("tx_margin", 3),
                            ("tx_swing", 1), ("tx_detrx_lpbk", 1), ("tx_elec_idle", 1), ("tx_compliance", 1), ("tx_ones_zeros", 1),
                            ("rx_polarity", 1), ("rx_eq_training", 1), ("rx_termination", 1), ("phy_status", 1), ("rx_valid", 1),
                            ("rx_status", 3), ("rx_elec_idle", 1), ("power_present", 1)]:
            setattr(self, name, Signal(width, name=f"pipe_{name}"))


def _rx_bench():
    def factory():
        from luna.gateware.usb.usb3.physical.layer import USB3PhysicalLayer
        phy = _PipeStub()
        dut = USB3PhysicalLayer(phy=phy, sync_frequency=1e6)
        ins = {"rx_data": phy.rx_data, "rx_datak": phy.rx_datak, "scramble": dut.enable_scrambling, "ready": dut.source.ready,
               "rx_elec_idle": phy.rx_elec_idle}
        outs = {"o_valid": dut.source.valid, "o_data": dut.source.data, "o_ctrl": dut.source.ctrl}
        return make_bench(dut, clocks={"ss": 1 / 125e6, "sync": 1 / 1e6}, main="ss", ins=ins, outs=outs)
    return cached_bench(("c31", "rx_path"), factory)


SKP_WORD = (0x3C3C3C3C, 0xF)
RX_LEAD = 4         # filler words before the aligning all-COM word
RX_TAIL = 14        # scrambled idle words behind the script (pipeline drain; not compared)


class _RxActor:
    """ the link partner's transmitter on the PIPE receive pins of the real physical layer """

    def __init__(self, scn, viol, probes):
        self.viol, self.pr = viol, probes
        self.scramble = scn["config"]["scramble"]
        ref = usb3.ScramblerRef()
        self.wire, self.want = [(0, 0)] * RX_LEAD, []
        plain = [{"d": usb3.COM_WORD[0], "c": 0xF}] + list(scn["ops"]) + [{"d": 0, "c": 0}] * RX_TAIL
        self.core = 1 + sum(1 for op in scn["ops"] if "skp" not in op)
        prev_skp = False
        for op in plain:
            if "skp" in op:
                self.wire.extend([SKP_WORD] * op["skp"])
                probes["rx_path_skp_words"] += op["skp"]
                prev_skp = True
                continue
            d, c = op["d"], op["c"]
            is_com = bool(c & 1) and (d & 0xFF) == COMW
            w = usb3.scramble_word(ref, d, c) if self.scramble else d
            if is_com:
                ref.reset()
            elif prev_skp and c == 0 and self.scramble:
                probes["rx_path_skp_before_data"] += 1
            prev_skp = False
            self.wire.append((w, c))
            self.want.append((d, c))
        self.i = 0
        self.got = 0
        self.synced = False
        self.finished = False
        self.words = 0

    def drive(self, t):
        d, c = self.wire[self.i] if self.i < len(self.wire) else (0, 0)
        return {"rx_data": d, "rx_datak": c, "scramble": self.scramble, "ready": 1, "rx_elec_idle": 0}

    def observe(self, t, o):
        self.i += 1
        if o["o_valid"]:
            w = (o["o_data"], o["o_ctrl"])
            if not self.synced and w == self.want[0]:
                self.synced = True
            if self.synced and self.got < len(self.want):
                exp = self.want[self.got]
                if w != exp and self.got < self.core:
                    what = "skp_leaked" if w == SKP_WORD else "mismatch"
                    self.viol.add("C31.rx_path", t, f"[rx_path] word #{self.got} behind the aligning COM word is {w[0]:#010x}/{w[1]:#x}, "
                                  f"the link partner sent {exp[0]:#010x}/{exp[1]:#x}", what=what, scramble=self.scramble)
                    return True
                self.got += 1
                self.words += 1
                self.pr["rx_path_words_compared"] += 1
        if self.i >= len(self.wire) + 4:
            self.finished = True
            if self.got < self.core:
                self.viol.add("C31.rx_path", t, f"[rx_path] only {self.got} of {self.core} words reached `source`", what="lost",
                              scramble=self.scramble)
            return True
        return False


def _run_rx(scn):
    bench = _rx_bench()
    viol = Violations()
    probes = {p: 0 for p in PROBES}
    actor = _RxActor(scn, viol, probes)
    log = bench.run([actor], max_cycles=len(actor.wire) + 10)
    if not viol and not actor.finished:
        raise RuntimeError("script did not finish")
    probes["rx_path_runs"] += 1
    faults = {"ready_stall": 0, "invalid_word_gap": 0, "hold": 0, "clear": 0, "skp_word_in_rx_stream": probes["rx_path_skp_words"]}
    sig = hashlib.blake2b(repr(("rx_path", scn["config"]["scramble"], min(probes["rx_path_skp_words"], 4),
                                min(probes["rx_path_skp_before_data"], 3))).encode(), digest_size=8).hexdigest()
    return {"violations": viol.items, "cycles": log.cycles, "faults": faults, "probes": probes, "sig": sig,
            "nontrivial": actor.words > 8, "digest": log.digest, "fsm": len(log.fsm_vectors)}


def run(scn):
    kind = scn["config"]["dut"]
    if kind == "rx_path":
        return _run_rx(scn)
    bench = _bench(kind, scn["config"].get("iv", 0xFFFF))
    viol = Violations()
    probes = {p: 0 for p in PROBES}
    actor = _Actor(scn, viol, probes)
    bound = 20 + sum(1 + op.get("stall", 0) + (op["gap"]["n"] if "gap" in op else 0) for op in scn["ops"])
    log = bench.run([actor], max_cycles=bound)
    if not viol and not actor.finished:
        raise RuntimeError("script did not finish")
    if kind == "chain":
        probes["chain_runs"] += 1
    if kind == "descrambler":
        probes["descrambler_runs"] += 1
    if len(scn["ops"]) >= 2000:
        probes["long_run_over_2000_words"] += 1
    faults = {"ready_stall": probes["stalled_words"], "invalid_word_gap": sum(1 for op in scn["ops"] if "gap" in op),
              "hold": probes["hold_cycles"], "clear": probes["clear_pulses"]}
    sig = hashlib.blake2b(repr((kind, sorted(actor.classes))).encode(), digest_size=8).hexdigest()
    return {"violations": viol.items, "cycles": log.cycles, "faults": faults, "probes": probes, "sig": sig,
            "nontrivial": actor.words > 8, "digest": log.digest, "fsm": len(log.fsm_vectors)}


def shrink_candidates(scn):
    import copy
    ops = scn["ops"]
    if scn["config"]["dut"] == "rx_path":
        return
    for i, op in enumerate(ops):
        for k in ("gap", "stall", "hold"):
            if k in op:
                cand = copy.deepcopy(scn)
                del cand["ops"][i][k]
                yield cand
