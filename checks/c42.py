"""
C42 -- LFPS patterns are detected exactly within their timing windows; the generator produces typical bursts.

DUT: luna.gateware.usb.usb3.physical.lfps.LFPSDetector for the polling, reset and ping patterns and LFPSGenerator for the
     polling pattern, real, standalone, at scaled clock frequencies (the windows are ceil(f*t): polling at 25-125 MHz,
     reset at 10-20 kHz, ping only in "never reports" scenarios because its 160-240 ms repeat cannot be simulated
     non-degenerately).
Actors: an envelope player (signaling_received as a literal list of (burst, gap) durations in cycles); for the generator a
requester holding `generate`.
Oracle: computed from the envelope literal: every duration is drawn at least 3 cycles inside or outside of its window, so
membership is unambiguous.  Windows come from the USB 3.2 table 6-30 numbers re-stated here.
"""

import math
import hashlib

from dsim.kernel import make_bench, cached_bench, Violations

PROPERTY = "C42"
ENGINE = "usb3_phys"
CLOCK_HZ = 125e6
RULES = {
    "C42.detect_only_inside": "a detect strobe is preceded by in-window signalling: periodic patterns: the two most recent completed "
                              "bursts and the period(s) between/after them are inside their windows; reset: a just-completed burst "
                              "inside the window",
    "C42.detect_when_inside": "three consecutive in-window polling cycles produce at least one detect strobe; every in-window reset "
                              "burst produces a strobe within 8 cycles of its end",
    "C42.never_outside": "an envelope without any in-window burst/period combination (all outside, or polling-like signalling fed "
                         "to the ping detector) is never reported",
    "C42.generator": "while generate is high: bursts of ceil(f*1us) +-1 cycles every ceil(f*10us) +-1 cycles, first burst within 3 "
                     "cycles; drive_electrical_idle high throughout",
}
PROBES = ["polling_detects", "reset_detects", "burst_too_short", "burst_too_long", "repeat_too_short", "repeat_too_long",
          "good_after_bad", "bad_between_good", "line_glitch", "ping_detector_runs", "generator_runs", "alternating_in_out",
          "generator_cycles_checked", "generate_dropped_mid_cycle", "transceiver_runs", "transceiver_runs_while_sending"]
META = {
    "components_real": ["luna.gateware.usb.usb3.physical.lfps.LFPSDetector", "luna.gateware.usb.usb3.physical.lfps.LFPSGenerator"],
    "components_stubbed": ["PHY LFPS envelope (signaling_received) as literal durations", "LTSSM request (generate)"],
    "assumptions": ["burst and period durations are at least 3 cycles away from every window edge (no boundary cases)",
                    "the envelope is synchronous to the ss clock (the detector's own 2-FF synchroniser is part of the DUT)",
                    "ping: only negative scenarios (stated limit)", "after an injected line glitch a detection may be refused: the "
                    "fragments of a glitched burst are exempt from detect_when_inside (never from detect_only_inside)", "gaps shorter than 9 cycles are not used to judge a late strobe"],
    "rule": "envelopes of 3-14 (burst, gap) pairs drawn inside / below / above the burst and repeat windows, alternating, with line "
            "glitches (1-3 cycle drop-outs inside a burst); detector kind polling/reset/ping and clock frequency per run; generator "
            "runs with generate held for 2-5 periods",
}
TIERS = {"quick": {"runs": 2400, "wall": 70}, "thorough": {"runs": 15000, "wall": 900}}

# USB 3.2 table 6-30 (seconds)
POLLING = {"burst": (0.6e-6, 1.4e-6), "repeat": (6e-6, 14e-6), "typ": (1.0e-6, 10e-6)}
RESET = {"burst": (80e-3, 120e-3), "repeat": None}
PING = {"burst": (40e-9, 160e-9), "repeat": (160e-3, 240e-3)}
MARGIN = 3


def _win(f, lo, hi):
    """ cycles clearly inside: [a, b]; clearly outside: <= below or >= above """
    a = math.ceil(f * lo) + MARGIN
    b = math.floor(f * hi) - MARGIN
    below = math.floor(f * lo) - MARGIN
    above = math.ceil(f * hi) + MARGIN
    return a, b, below, above


# ------------------------------------------------------------------------------------------------
def gen(rng, tier, index):
    kind = rng.choice(["polling", "polling", "polling", "reset", "reset", "ping", "generator"])
    if kind == "generator":
        f = rng.choice([20e6, 25e6, 50e6, 62.5e6, 125e6])
        ops = []
        for _ in range(rng.randint(1, 3)):
            periods = rng.randint(2, 4)
            hold = int(f * 10e-6 * periods) + rng.randint(0, int(f * 10e-6))
            ops.append({"op": "generate", "hold": hold, "idle": rng.randint(int(f * 11e-6), int(f * 14e-6))})
        return {"engine": ENGINE, "config": {"dut": kind, "f": f}, "ops": ops}
    if kind == "reset":
        f = rng.choice([10e3, 10e3, 12.5e3])
        a, b, below, above = _win(f, *RESET["burst"])
        ops = [{"op": "lead", "n": rng.randint(1, 20)}]
        for _ in range(rng.randint(2, 5)):
            r = rng.random()
            if r < 0.5:
                h, cls = rng.randint(a, b), "in"
            elif r < 0.75:
                h, cls = rng.randint(max(1, below // 4), below), "short"
            else:
                h, cls = rng.randint(above, above + (above // 3)), "long"
            ops.append({"op": "burst", "high": h, "low": rng.randint(12, 300), "cls": cls})
            if rng.random() < 0.2 and h > 40:
                ops[-1]["glitch"] = [rng.randint(5, h - 5), rng.randint(1, 3)]
        return {"engine": ENGINE, "config": {"dut": kind, "f": f}, "ops": ops}
    # polling-like envelopes (also fed to the ping detector)
    f = rng.choice([25e6, 50e6, 50e6, 62.5e6, 125e6]) if kind == "polling" else rng.choice([25e6, 50e6])
    ba, bb, bbelow, babove = _win(f, *POLLING["burst"])
    ra, rb, rbelow, rabove = _win(f, *POLLING["repeat"])
    style = rng.choice(["mostly_good", "mostly_good", "alternating", "mostly_bad", "all_bad"])
    n = rng.randint(3, 9 if tier == "quick" else 14)
    ops = [{"op": "lead", "n": rng.randint(1, 20)}]
    for j in range(n):
        if style == "mostly_good":
            bad = rng.random() < 0.2
        elif style == "alternating":
            bad = (j % 3) == 2 if rng.random() < 0.8 else rng.random() < 0.5
        elif style == "mostly_bad":
            bad = rng.random() < 0.7
        else:
            bad = True
        bcls = pcls = "in"
        if bad:
            which = rng.choice(["burst_short", "burst_long", "repeat_short", "repeat_long", "both"])
            if which in ("burst_short", "both"):
                bcls = "short"
            elif which == "burst_long":
                bcls = "long"
            if which == "repeat_short":
                pcls = "short"
            elif which in ("repeat_long", "both"):
                pcls = "long"
        if kind == "ping" and rng.random() < 0.5:
            # bursts inside the *ping* burst window (2-8 cycles at 50 MHz) but with microsecond periods: never a ping
            h = rng.randint(max(1, math.ceil(f * 40e-9)), max(1, math.floor(f * 160e-9)))
            bcls = "ping_like"
        elif bcls == "in":
            h = rng.randint(ba, bb)
        elif bcls == "short":
            h = rng.randint(max(1, bbelow // 3), bbelow)
        else:
            h = rng.randint(babove, babove + babove // 2)
        if pcls == "in":
            p = rng.randint(max(ra, h + 9), rb)
        elif pcls == "short":
            p = rng.randint(h + 9, max(h + 9, rbelow)) if h + 9 <= rbelow else rng.randint(rabove, rabove + rabove // 3)
            pcls = "short" if p <= rbelow else "long"
        else:
            p = rng.randint(max(rabove, h + 9), max(rabove, h + 9) + rabove // 3)
        op = {"op": "burst", "high": h, "low": p - h, "cls": bcls, "pcls": pcls}
        if rng.random() < 0.08 and h > 12:
            op["glitch"] = [rng.randint(4, h - 4), rng.randint(1, 3)]
        ops.append(op)
    cfg = {"dut": kind, "f": f}
    if kind == "polling" and rng.random() < 0.35:
        # the same detector as it sits inside LFPSTransceiver, with our own polling generator running or not (both partners
        # signal during Polling.LFPS): what we send must not change what we report about the partner's signalling
        cfg["via"] = "transceiver"
        cfg["send_polling"] = rng.choice([1, 1, 0, [rng.randint(20, 400), rng.randint(20, 400)]])
    return {"engine": ENGINE, "config": cfg, "ops": ops}


# ------------------------------------------------------------------------------------------------
def _bench(kind, f, via=None):
    def factory():
        from luna.gateware.usb.usb3.physical import lfps
        if via == "transceiver":
            dut = lfps.LFPSTransceiver(ss_clk_freq=f)
            ins = {"rx": dut.signaling_received, "send_polling": dut.send_polling}
            outs = {"detect": dut.polling_detected, "reset_detect": dut.reset_detected, "send": dut.send_signaling}
            return make_bench(dut, clocks={"ss": 1 / 125e6}, main="ss", ins=ins, outs=outs)
        if kind == "generator":
            dut = lfps.LFPSGenerator(lfps._PollingLFPS, f)
            ins = {"generate": dut.generate}
            outs = {"send": dut.send_signaling, "idle": dut.drive_electrical_idle, "completed": dut.completed}
        else:
            pat = {"polling": lfps._PollingLFPS, "reset": lfps._ResetLFPS, "ping": lfps._PingLFPS}[kind]
            dut = lfps.LFPSDetector(pat, f)
            ins = {"rx": dut.signaling_received}
            outs = {"detect": dut.detect}
        return make_bench(dut, clocks={"ss": 1 / 125e6}, main="ss", ins=ins, outs=outs)
    return cached_bench(("c42", kind, f, via), factory)


def _expand(ops):
    """ envelope ops -> (waveform segments [(level, n)], bursts [(start, length)]) with glitches applied """
    segs = []
    t = 0
    bursts = []
    tainted = []          # indices of bursts that are fragments of a glitched burst (fault: detection may be refused)
    for op in ops:
        if op["op"] == "lead":
            segs.append((0, op["n"]))
            t += op["n"]
            continue
        h, low = op["high"], op["low"]
        g = op.get("glitch")
        if g and 0 < g[0] and g[0] + g[1] < h:
            a, w = g
            segs += [(1, a), (0, w), (1, h - a - w), (0, low)]
            tainted += [len(bursts), len(bursts) + 1]
            bursts += [(t, a), (t + a + w, h - a - w)]
        else:
            segs += [(1, h), (0, low)]
            bursts.append((t, h))
        t += h + low
    return segs, bursts, t, tainted


LAT = 8        # cycles a strobe may trail the event it reports


class _DetectorOracle:
    def __init__(self, kind, f, bursts, total, viol, probes, tainted=()):
        self.tainted = set(tainted)
        self.kind, self.f, self.bursts, self.total = kind, f, bursts, total
        self.viol, self.pr = viol, probes
        pat = {"polling": POLLING, "reset": RESET, "ping": PING}[kind]
        self.bwin = (f * pat["burst"][0], f * pat["burst"][1])
        self.rwin = (f * pat["repeat"][0], f * pat["repeat"][1]) if pat["repeat"] else None
        n = len(bursts)
        self.start = [b[0] for b in bursts]
        self.end = [b[0] + b[1] for b in bursts]                 # first low cycle
        self.b_ok = [self._inside(b[1], self.bwin) for b in bursts]
        self.p_ok = [self._inside(self.start[j + 1] - self.start[j], self.rwin) if (self.rwin and j + 1 < n) else None for j in range(n)]
        self.strobes = []

    @staticmethod
    def _inside(x, win):
        lo, hi = win
        if lo + MARGIN <= x <= hi - MARGIN:
            return True
        if x <= lo - MARGIN or x >= hi + MARGIN:
            return False
        return None                                             # boundary: undecided (glitch fragments may land here)

    def any_positive_possible(self):
        if self.rwin is None:
            return any(ok is not False for ok in self.b_ok)
        n = len(self.bursts)
        return any(self.b_ok[j] is not False and self.b_ok[j + 1] is not False and self.p_ok[j] is not False for j in range(n - 1))

    def strobe(self, t):
        """ checks one detect strobe; returns (rule, msg, shape) or None """
        self.strobes.append(t)
        n = len(self.bursts)
        completed = [j for j in range(n) if self.end[j] <= t]
        if not self.any_positive_possible():
            return ("C42.never_outside", f"detect at cycle {t} although no burst/period of the envelope is inside the windows",
                    {"kind": self.kind})
        if not completed:
            return ("C42.detect_only_inside", f"detect at cycle {t} before any burst completed", {"kind": self.kind, "what": "early"})
        last = completed[-1]
        cands = [last]
        if t - self.end[last] <= LAT and last >= 1:
            cands.append(last - 1)
        why = []
        for c in cands:
            if self.rwin is None:
                if t - self.end[c] > LAT:
                    why.append(f"burst {c} ended {t - self.end[c]} cycles ago")
                    continue
                if self.b_ok[c] is False:
                    why.append(f"burst {c} length {self.bursts[c][1]} outside the window")
                    continue
                return None
            if c < 1:
                why.append("only one burst completed")
                continue
            if self.b_ok[c] is False or self.b_ok[c - 1] is False:
                why.append(f"bursts {c - 1},{c} lengths {self.bursts[c - 1][1]},{self.bursts[c][1]} not both inside")
                continue
            if self.p_ok[c - 1] is False:
                why.append(f"period {self.start[c] - self.start[c - 1]} between bursts {c - 1},{c} outside the window")
                continue
            if c + 1 < n and self.start[c + 1] <= t and self.start[c + 1] - self.end[c] >= 9 and self.p_ok[c] is False:
                why.append(f"period {self.start[c + 1] - self.start[c]} after burst {c} outside the window")
                continue
            return None
        return ("C42.detect_only_inside", f"detect at cycle {t}: " + "; ".join(why), {"kind": self.kind, "what": "not_preceded_by_good"})

    def finish(self):
        """ liveness part, evaluated after the run """
        n = len(self.bursts)
        if self.kind == "reset":
            for j in range(n):
                if self.b_ok[j] is True and self.end[j] + LAT < self.total and j not in self.tainted:
                    if not any(self.end[j] <= s <= self.end[j] + LAT for s in self.strobes):
                        return ("C42.detect_when_inside", self.end[j] + LAT, f"reset burst {j} of {self.bursts[j][1]} cycles (window "
                                f"{self.bwin[0]:.0f}..{self.bwin[1]:.0f}) ended at {self.end[j]} without a detect strobe", {"kind": self.kind})
                    self.pr["reset_detects"] += 1
        elif self.kind == "polling":
            for j in range(n - 3):
                if all(self.b_ok[j + k] is True for k in range(3)) and all(self.p_ok[j + k] is True for k in range(3)) and \
                        not any(j + k in self.tainted for k in range(-1, 4)):
                    lo, hi = self.start[j], self.start[j + 3] + LAT
                    if hi < self.total and not any(lo <= s <= hi for s in self.strobes):
                        return ("C42.detect_when_inside", hi, f"polling cycles {j}..{j + 2} (bursts {[b[1] for b in self.bursts[j:j + 3]]}, "
                                f"periods {[self.start[j + k + 1] - self.start[j + k] for k in range(3)]}) are all inside the windows "
                                f"but no detect strobe in [{lo},{hi}]", {"kind": self.kind})
                    self.pr["polling_detects"] += 1
        return None


class _EnvelopeActor:
    def __init__(self, scn, viol, probes):
        cfg = scn["config"]
        self.kind, self.f = cfg["dut"], cfg["f"]
        self.segs, self.bursts, self.total, tainted = _expand(scn["ops"])
        self.total += 40
        self.viol, self.pr = viol, probes
        self.oracle = _DetectorOracle(self.kind, self.f, self.bursts, self.total, viol, probes, tainted)
        # waveform as change list: cycle -> level
        self.changes = {}
        t = 0
        for lvl, n in self.segs:
            if n > 0:
                self.changes[t] = lvl
                t += n
        self.changes[t] = 0
        self.dead = False
        self.send_polling = cfg.get("send_polling") if cfg.get("via") == "transceiver" else None
        self.own_bursts = 0

    def drive(self, t):
        lvl = self.changes.get(t)
        pins = {} if lvl is None else {"rx": lvl}
        sp = self.send_polling
        if sp is not None:
            if isinstance(sp, list):
                on, off = sp
                pins["send_polling"] = 1 if (t % (on + off)) < on else 0
            elif t == 0:
                pins["send_polling"] = sp
        return pins or None

    def observe(self, t, o):
        if self.dead:
            return True
        if o.get("send"):
            self.own_bursts += 1
        if o["detect"]:
            r = self.oracle.strobe(t)
            if r:
                self.viol.add(r[0], t, f"[{self.kind} detector @ {self.f:g} Hz] " + r[1], **r[2])
                self.dead = True
                return True
        return t >= self.total - 1


class _GeneratorActor:
    def __init__(self, scn, viol, probes):
        self.f = scn["config"]["f"]
        self.ops = scn["ops"]
        self.viol, self.pr = viol, probes
        self.burst = math.ceil(self.f * POLLING["typ"][0])
        self.period = math.ceil(self.f * POLLING["typ"][1])
        # schedule of generate
        self.sched = []
        t = 3
        for op in self.ops:
            self.sched.append((t, t + op["hold"]))
            t += op["hold"] + op["idle"] + self.period + 10
        self.total = t
        self.gen = 0
        self.prev_send = 0
        self.burst_start = None
        self.last_burst_start = None
        self.gen_since = None
        self.dead = False
        self.first_seen = False
        self.started_enabled = False

    def drive(self, t):
        g = int(any(a <= t < b for a, b in self.sched))
        self.gen = g
        return {"generate": g}

    def _fail(self, t, msg, **shape):
        self.viol.add("C42.generator", t, f"[generator @ {self.f:g} Hz] " + msg, **shape)
        self.dead = True
        return True

    def observe(self, t, o):
        if self.dead:
            return True
        pr = self.pr
        g = self.gen
        if g and self.gen_since is None:
            self.gen_since = t
            self.first_seen = False
            self.last_burst_start = None
        if not g and self.gen_since is not None:
            if self.burst_start is not None or (self.last_burst_start is not None and t - self.last_burst_start < self.period - 2):
                pr["generate_dropped_mid_cycle"] += 1
            self.gen_since = None
        send = o["send"]
        if g:
            if not o["idle"]:
                return self._fail(t, "drive_electrical_idle low while generate is high", what="electrical_idle")
            if not self.first_seen and not send and t - self.gen_since > 3:
                return self._fail(t, "no burst within 3 cycles of generate rising", what="late_start")
        if send and not o["idle"]:
            return self._fail(t, "send_signaling without drive_electrical_idle", what="electrical_idle")
        if send and not self.prev_send:
            if g and self.last_burst_start is not None:
                p = t - self.last_burst_start
                if abs(p - self.period) > 1:
                    return self._fail(t, f"burst period {p} cycles, expected {self.period} +-1", what="period")
                pr["generator_cycles_checked"] += 1
            self.burst_start = t
            self.last_burst_start = t
            self.first_seen = True
            self.started_enabled = bool(g)
        if not send and self.prev_send and self.burst_start is not None:
            length = t - self.burst_start
            if self.started_enabled and abs(length - self.burst) > 1:
                return self._fail(t, f"burst of {length} cycles, expected {self.burst} +-1", what="burst_length")
            self.burst_start = None
        if g and self.last_burst_start is not None and not send and t - self.last_burst_start > self.period + 1:
            return self._fail(t, f"no new burst {t - self.last_burst_start} cycles after the previous one (period {self.period})",
                              what="period")
        if not g:
            self.started_enabled = False          # only bursts produced entirely while enabled are measured
        self.prev_send = send
        return t >= self.total - 1


def run(scn):
    cfg = scn["config"]
    kind, f = cfg["dut"], cfg["f"]
    bench = _bench(kind, f, cfg.get("via"))
    viol = Violations()
    probes = {p: 0 for p in PROBES}
    if kind == "generator":
        actor = _GeneratorActor(scn, viol, probes)
        log = bench.run([actor], max_cycles=actor.total + 2)
        probes["generator_runs"] += 1
        classes = (kind, f, len(scn["ops"]))
        faults = {"generate_dropped_mid_cycle": probes["generate_dropped_mid_cycle"]}
        nontrivial = probes["generator_cycles_checked"] > 0
    else:
        actor = _EnvelopeActor(scn, viol, probes)
        log = bench.run([actor], max_cycles=actor.total + 2, init={"rx": 0})
        if not viol:
            r = actor.oracle.finish()
            if r:
                viol.add(r[0], r[1], f"[{kind} detector @ {f:g} Hz] " + r[2], **r[3])
        ops = [op for op in scn["ops"] if op["op"] == "burst"]
        for op in ops:
            if op["cls"] == "short":
                probes["burst_too_short"] += 1
            if op["cls"] == "long":
                probes["burst_too_long"] += 1
            if op.get("pcls") == "short":
                probes["repeat_too_short"] += 1
            if op.get("pcls") == "long":
                probes["repeat_too_long"] += 1
            if "glitch" in op:
                probes["line_glitch"] += 1
        good = [op["cls"] == "in" and op.get("pcls", "in") == "in" for op in ops]
        for a, b in zip(good, good[1:]):
            if not a and b:
                probes["good_after_bad"] += 1
        for a, b, c in zip(good, good[1:], good[2:]):
            if a and not b and c:
                probes["bad_between_good"] += 1
                probes["alternating_in_out"] += 1
        if kind == "ping":
            probes["ping_detector_runs"] += 1
        if cfg.get("via") == "transceiver":
            probes["transceiver_runs"] += 1
            if actor.own_bursts:
                probes["transceiver_runs_while_sending"] += 1
        classes = (kind, f, tuple((op["cls"], op.get("pcls"), "glitch" in op) for op in ops), len(actor.oracle.strobes))
        faults = {"line_glitch": probes["line_glitch"], "out_of_window_burst": probes["burst_too_short"] + probes["burst_too_long"],
                  "out_of_window_repeat": probes["repeat_too_short"] + probes["repeat_too_long"]}
        nontrivial = len(ops) >= 2
    if not viol and log.cycles < actor.total - 1:
        raise RuntimeError("run ended early")
    sig = hashlib.blake2b(repr(classes).encode(), digest_size=8).hexdigest()
    return {"violations": viol.items, "cycles": log.cycles, "faults": faults, "probes": probes, "sig": sig,
            "nontrivial": nontrivial, "digest": log.digest, "fsm": len(log.fsm_vectors)}


def shrink_candidates(scn):
    import copy
    for i, op in enumerate(scn["ops"]):
        if "glitch" in op:
            cand = copy.deepcopy(scn)
            del cand["ops"][i]["glitch"]
            yield cand
