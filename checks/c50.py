"""
C50 -- the SPI device exchanges whole words for every word size.

DUT: luna.gateware.interface.spi.SPIDeviceInterface (real), standalone, domain "sync".
Actor: models.periph_spi.SPIController playing an open-loop waveform (literal half-periods, CS setup/hold/gap, bits,
word_out values).  Oracle: from the bits the controller drove at the sample edges while CS was active, predict every
completed word; from the word_out values, predict SDO at every sample edge (CPHA=1 only).
"""

import hashlib

from dsim.kernel import make_bench, cached_bench, Violations
from models.periph_spi import SPIWaveform, SPIController, word_from_bits, bits_from_word

PROPERTY = "C50"
ENGINE = "periph"
CLOCK_HZ = 60e6
RULES = {
    "C50.words_in": "every word_size consecutive sample edges while CS is active yield exactly one word_complete strobe with "
                    "word_in equal to the sampled bits in the configured bit order",
    "C50.words_out": "with CPHA=1 (data changes on the leading edge) SDO carries, at every sample edge, the bits of the word "
                     "presented on word_out when the previous word completed (or while CS was inactive), first bit first",
    "C50.abort_resyncs": "after CS was de-asserted in the middle of a word, the next transaction starts on a word boundary",
}
PROBES = ["non_pow2_two_or_more_words", "pow2_two_or_more_words", "abort_mid_word", "abort_mid_clock", "txn_after_abort",
          "half_period_1", "jittered_clock", "cs_idles_high", "lsb_first", "gap_1", "word_out_changed_mid_word", "cpha1_runs",
          "word_size_gt_32", "sdo_bits_checked", "words_checked"]
META = {
    "components_real": ["luna.gateware.interface.spi.SPIDeviceInterface"],
    "components_stubbed": ["SPI controller (models.periph_spi.SPIController): open-loop pin waveform", "word_out source: literal values"],
    "assumptions": ["SPI pins change synchronously to the system clock (external synchronisers are not part of the DUT)",
                    "every SCK level lasts >= 1 system cycle; CS changes >= 1 cycle away from any SCK edge; CS inactive >= 1 cycle",
                    "SDI is stable from the output edge (or CS assertion) to the sample edge",
                    "word_out is kept stable from 3 cycles before to 3 cycles after every word-final sample edge and while CS is "
                    "inactive (the exact latch instant is not part of the statement)",
                    "word_complete may follow the word's last sample edge by 1..8 cycles (latency is not part of the statement)",
                    "msb_first=False: SDO may carry the word LSB first (configured order) or MSB first (literal statement), "
                    "consistently within a run"],
    "rule": "word_size 2..40 incl. non powers of two, CPOL/CPHA, bit order, CS polarity per run; 1-5 transactions of 0-6 words "
            "plus optional partial word (cs_abort mid-word, also in the middle of a clock period), literal half-periods 1..9 "
            "(uniform or jittered), CS setup 1..6, hold 0..6 after the last clock phase (CS may be released one cycle after the last edge), gap 1..6, word_out changing between words",
}
TIERS = {"quick": {"runs": 12000, "wall": 70}, "thorough": {"runs": 45000, "wall": 900}}

STROBE_BOUND = 8


def gen(rng, tier, index):
    ws = rng.choice([2, 3, 4, 5, 6, 7, 8, 8, 9, 10, 12, 12, 13, 16, 16, 17, 20, 24, 31, 32, 33, 40, rng.randint(2, 40)])
    cfg = {"word_size": ws, "cpol": rng.randint(0, 1), "cpha": rng.choice([0, 1, 1]), "msb_first": rng.random() < 0.75,
           "cs_idles_high": rng.random() < 0.25}
    ops = []
    n_txn = rng.randint(1, 4 if tier == "quick" else 8)
    bit_budget = 260 if tier == "quick" else 900
    clock_style = rng.choice(["uniform", "uniform", "jitter", "jitter", "fast"])
    for _ in range(n_txn):
        n_words = rng.choice([0, 1, 1, 2, 2, 2, 3, 3, 4, 6])
        partial = rng.randrange(ws) if rng.random() < 0.35 else 0
        n_bits = min(n_words * ws + partial, bit_budget)
        if n_bits == 0:
            n_bits, partial = max(1, ws // 2), max(1, ws // 2)
        bits = [rng.getrandbits(1) for _ in range(n_bits)]
        if clock_style == "uniform":
            h = rng.randint(1, 6)
            halves = [[h, h]]
        elif clock_style == "fast":
            halves = [[rng.choice([1, 1, 2]), rng.choice([1, 1, 2])] for _ in range(n_bits)]
        else:
            halves = [[rng.randint(1, 9), rng.randint(1, 9)] for _ in range(n_bits)]
        op = {"gap": rng.choice([1, 1, 2, 3, 4, 6]), "setup": rng.choice([1, 1, 2, 3, 6]), "hold": rng.choice([0, 0, 1, 1, 2, 3, 6]),
              "bits": bits, "halves": [list(x) for x in halves],
              "wout": [rng.getrandbits(ws) for _ in range(n_bits // ws + 1)],
              "wout_frac": [round(rng.random(), 3) for _ in range(n_bits // ws + 1)]}
        if n_bits % ws and rng.random() < 0.4:
            op["abort_mid_clock"] = rng.randint(1, 4)
        ops.append(op)
    return {"engine": ENGINE, "config": cfg, "ops": ops}


def _bench(cfg):
    from luna.gateware.interface.spi import SPIDeviceInterface
    key = (cfg["word_size"], cfg["cpol"], cfg["cpha"], cfg["msb_first"], cfg["cs_idles_high"])

    def factory():
        dut = SPIDeviceInterface(word_size=key[0], clock_polarity=key[1], clock_phase=key[2], msb_first=key[3], cs_idles_high=key[4])
        ins = {"sck": dut.spi.sck, "sdi": dut.spi.sdi, "cs": dut.spi.cs, "word_out": dut.word_out}
        outs = {"sdo": dut.spi.sdo, "word_in": dut.word_in, "word_complete": dut.word_complete}
        return make_bench(dut, clocks={"sync": 1 / 60e6}, main="sync", ins=ins, outs=outs)
    return cached_bench(("c50",) + key, factory)


def build(scn):
    """ waveform + expectations """
    cfg = scn["config"]
    ws, cpha = cfg["word_size"], cfg["cpha"]
    cs_active = 0 if cfg["cs_idles_high"] else 1
    w = SPIWaveform(cpol=cfg["cpol"], cpha=cpha, cs_active=cs_active, extra_init={"word_out": 0})
    w.emit(2)
    for op in scn["ops"]:
        bits = op["bits"]
        txn = w.begin(op["gap"], op["setup"], first_bit=bits[0] if bits else 0)
        for i, b in enumerate(bits):
            h1, h2 = op["halves"][i % len(op["halves"])]
            w.bit(b, h1, h2, next_bit=bits[i + 1] if i + 1 < len(bits) else 0)
        amc = op.get("abort_mid_clock")
        if amc and cpha == 1:
            w.half_bit(0, amc)              # an output edge only: no further sample
            w.end(0)
        elif amc and len(bits) % ws != ws - 1:
            w.half_bit(1, amc)              # CPHA=0: the leading edge is one more sample
            w.end(0)
        else:
            w.end(op["hold"])
        txn["op"] = op
    w.finish(STROBE_BOUND + 6)
    # ---- word_out schedule: W0 from the start of the gap; W(j+1) somewhere strictly inside word j ----
    changes = []        # (cycle, value)
    tx_words = []       # per txn: list of the word_out value in effect for word j
    prev_end = 0
    for txn in w.txns:
        op = txn["op"]
        wout = op["wout"]
        samples = txn["samples"]
        changes.append((prev_end, wout[0]))
        cur = wout[0]
        eff = [cur]
        n_words = len(samples) // ws
        for j in range(n_words):
            lo = (samples[j * ws - 1] if j > 0 else txn["start"]) + 4
            hi = samples[(j + 1) * ws - 1] - 4
            nxt = wout[(j + 1) % len(wout)]
            if lo <= hi:
                c = lo + int(op["wout_frac"][j % len(op["wout_frac"])] * (hi - lo))
                changes.append((c, nxt))
                cur = nxt
            eff.append(cur)
        tx_words.append(eff)
        prev_end = txn["end"]
    changes.sort(key=lambda x: x[0])
    ci, cur = 0, 0
    for c, pins in enumerate(w.pins):
        while ci < len(changes) and changes[ci][0] <= c:
            cur = changes[ci][1]
            ci += 1
        pins["word_out"] = cur
    return w, tx_words, len([1 for c in changes[1:] if True])


def run(scn):
    cfg = scn["config"]
    ws, cpha, msb = cfg["word_size"], cfg["cpha"], cfg["msb_first"]
    bench = _bench(cfg)
    viol = Violations()
    probes = {p: 0 for p in PROBES}
    w, tx_words, _ = build(scn)
    ctl = SPIController(w)
    init = dict(w.pins[0])
    log = bench.run([ctl], max_cycles=len(w.pins) + 2, init=init)
    rec = ctl.rec
    if len(rec) < len(w.pins):
        raise RuntimeError("waveform was not played completely")
    pow2 = ws & (ws - 1) == 0
    classes = set()

    # ---------------- expected received words ----------------
    expected = []       # (final sample cycle, value, txn index, word index, first-after-abort)
    prev_aborted = False
    for txn in w.txns:
        s, b = txn["samples"], txn["bits"]
        for j in range(len(s) // ws):
            expected.append((s[(j + 1) * ws - 1], word_from_bits(b[j * ws:(j + 1) * ws], msb), txn["index"], j,
                             prev_aborted and j == 0))
        if len(s) // ws >= 2:
            probes["pow2_two_or_more_words" if pow2 else "non_pow2_two_or_more_words"] += 1
            classes.add("multiword")
        if prev_aborted:
            probes["txn_after_abort"] += 1
            classes.add("after_abort")
        prev_aborted = len(s) % ws != 0
        if prev_aborted:
            probes["abort_mid_word"] += 1
            if txn["op"].get("abort_mid_clock"):
                probes["abort_mid_clock"] += 1
                classes.add("abort_mid_clock")
    strobes = [(t, r["word_in"]) for t, r in enumerate(rec) if r["word_complete"]]
    problems = []       # (cycle, rule, msg, shape)

    def shape(kind, j, after_abort):
        return {"kind": kind, "word_size_pow2": pow2, "word_index": min(j, 2), "after_abort": bool(after_abort), "cpha": cpha,
                "non_pow2_beyond_first_word": bool(not pow2 and j >= 1)}
    i = 0
    for (e, val, ti, j, aa) in expected:
        rule = "C50.abort_resyncs" if aa else "C50.words_in"
        if i < len(strobes) and strobes[i][0] <= e:
            t, got = strobes[i]
            problems.append((t, rule, f"word_complete strobes in cycle {t} (word_in=0x{got:x}) although only "
                             f"{sum(1 for x in w.txns[ti]['samples'] if x <= t) % ws} bits of word {j} of transaction {ti} "
                             f"have been sampled", shape("spurious", j, aa)))
            break
        if i < len(strobes) and strobes[i][0] <= e + STROBE_BOUND:
            t, got = strobes[i]
            i += 1
            if got != val:
                problems.append((t, rule, f"word {j} of transaction {ti}: word_in=0x{got:x}, the {ws} bits sampled up to cycle "
                                 f"{e} are 0x{val:x}", shape("value", j, aa)))
                break
            probes["words_checked"] += 1
        else:
            problems.append((e + STROBE_BOUND, rule, f"word {j} of transaction {ti} (0x{val:x}) was completed by the sample edge "
                             f"in cycle {e} but no word_complete strobe followed within {STROBE_BOUND} cycles",
                             shape("missing", j, aa)))
            break
    else:
        if i < len(strobes):
            t, got = strobes[i]
            jj = 0
            for txn in w.txns:
                if txn["start"] <= t:
                    jj = sum(1 for x in txn["samples"] if x < t) // ws
            problems.append((t, "C50.words_in", f"word_complete strobes in cycle {t} (word_in=0x{got:x}) without a completed word",
                             shape("spurious", jj, False)))

    # ---------------- SDO (CPHA = 1) ----------------
    if cpha == 1:
        probes["cpha1_runs"] += 1
        orders = [True] if msb else [False, True]
        died = {}
        for txn, eff in zip(w.txns, tx_words):
            for k, c in enumerate(txn["samples"]):
                j, b = divmod(k, ws)
                got = rec[c]["sdo"]
                for o in list(orders):
                    exp = bits_from_word(eff[j], ws, o)[b]
                    if exp != got:
                        orders.remove(o)
                        died[o] = (c, txn["index"], j, b, exp, got, eff[j])
                if not orders:
                    break
                probes["sdo_bits_checked"] += 1
            if not orders:
                break
        if not orders:
            o = msb if msb in died else max(died, key=lambda k: died[k][0])
            c, ti, j, b, exp, got, wv = died[o]
            aa = ti > 0 and len(w.txns[ti - 1]["samples"]) % ws != 0
            problems.append((c, "C50.words_out", f"SDO={got} at the sample edge in cycle {c}: bit {b} of word {j} of transaction {ti} "
                             f"should be {exp} (word_out=0x{wv:x}, {'MSB' if o else 'LSB'} first)", shape("sdo", j, aa)))
    if problems:
        c, rule, msg, shp = min(problems, key=lambda p: p[0])
        viol.add(rule, c, f"{msg} [word_size={ws}, cpol={cfg['cpol']}, cpha={cpha}, msb_first={msb}]", **shp)

    # ---------------- probes ----------------
    for op in scn["ops"]:
        hs = [h for pair in op["halves"] for h in pair]
        if 1 in hs:
            probes["half_period_1"] += 1
        if len(set(hs)) > 1:
            probes["jittered_clock"] += 1
        if op["gap"] == 1:
            probes["gap_1"] += 1
    if cfg["cs_idles_high"]:
        probes["cs_idles_high"] += 1
    if not msb:
        probes["lsb_first"] += 1
    if ws > 32:
        probes["word_size_gt_32"] += 1
    probes["word_out_changed_mid_word"] += sum(1 for eff in tx_words for a, b in zip(eff, eff[1:]) if a != b)
    faults = {"cs_abort": probes["abort_mid_word"], "sck_jitter": probes["jittered_clock"],
              "cs_abort_mid_clock": probes["abort_mid_clock"]}
    sig = hashlib.blake2b(repr((ws, cfg["cpol"], cpha, msb, cfg["cs_idles_high"], sorted(classes))).encode(),
                          digest_size=8).hexdigest()
    return {"violations": viol.items, "cycles": log.cycles, "faults": faults, "probes": probes, "sig": sig,
            "nontrivial": len(expected) >= 1, "digest": log.digest, "fsm": len(log.fsm_vectors)}


def shrink_candidates(scn):
    import copy
    for i, op in enumerate(scn["ops"]):
        ws = scn["config"]["word_size"]
        if len(op["bits"]) > ws:
            cand = copy.deepcopy(scn)
            cand["ops"][i]["bits"] = op["bits"][:len(op["bits"]) - ws]
            yield cand
        if any(h != [2, 2] for h in op["halves"]):
            cand = copy.deepcopy(scn)
            cand["ops"][i]["halves"] = [[2, 2]]
            yield cand
        if op.get("abort_mid_clock"):
            cand = copy.deepcopy(scn)
            del cand["ops"][i]["abort_mid_clock"]
            yield cand
        if any(op["bits"]):
            cand = copy.deepcopy(scn)
            cand["ops"][i]["bits"] = [0] * len(op["bits"])
            yield cand
