"""
C54 -- PHY reset controllers produce the configured pulses and always finish.

DUT: luna.gateware.architecture.car.PHYResetController (real), standalone, clock domain "sync".
Actor: one literal trigger waveform (list of [start_cycle, length] pulses) + the domain reset that is held for
the first cycles of every run (so that the power-on pulse is observed from its very first cycle).
Oracle: reference pulse generator.  The statement fixes the pulse lengths but not the trigger-to-reset latency,
so candidates with latency 1, 2 and 3 cycles are run in parallel; the DUT must agree with one of them on every
cycle (a single consistent latency per run).
"""

import hashlib

from dsim.kernel import make_bench, cached_bench, Violations

PROPERTY = "C54"
ENGINE = "periph"
CLOCK_HZ = 60e6
RULES = {
    "C54.reset_exact": "phy_reset is asserted for exactly ceil(reset_length*f) cycles per power-on/triggered pulse",
    "C54.stop_exact": "phy_stop is asserted during the reset and for exactly ceil(stop_length*f) cycles afterwards, then released",
    "C54.returns_idle": "after the pulse the controller is idle again: a trigger in an idle cycle starts a new pulse",
    "C54.no_spurious": "phy_reset/phy_stop are asserted only as part of a power-on or triggered pulse",
}
PROBES = ["stop_longer_than_reset", "stop_exceeds_pow2_of_reset", "trigger_first_idle_cycle", "trigger_last_busy_cycle",
          "trigger_during_reset", "trigger_during_stop", "trigger_held_across_pulse", "power_on_pulse", "no_power_on",
          "length_one", "pulses_completed_3plus"]
META = {
    "components_real": ["luna.gateware.architecture.car.PHYResetController"],
    "components_stubbed": ["trigger source: literal waveform from the scenario", "sync domain reset held for the first cycles"],
    "assumptions": ["trigger changes only on the clock", "the configured number of cycles is ceil(length * clock_frequency); lengths "
                    "are generated as (n - 0.5)/f so that floating point rounding cannot matter",
                    "trigger-to-reset latency is not fixed by the statement: one consistent latency of 1..3 cycles per run is accepted",
                    "triggers sampled while a pulse is in progress must be ignored (otherwise the pulse would not have exactly "
                    "the configured length)"],
    "rule": "reset/stop lengths 1..300 cycles (biased small, straddling powers of two, stop<reset, stop==reset, stop>reset), "
            "clock frequency per run, power-on reset on/off, 1-7 trigger pulses aimed (with the reference model) at idle cycles, "
            "the first idle cycle, the last busy cycle, mid-reset, mid-stop, held across a whole pulse, plus random ones",
}
TIERS = {"quick": {"runs": 28000, "wall": 70}, "thorough": {"runs": 200000, "wall": 900}}

RST_CYCLES = 2
LATENCIES = (1, 2, 3)


def _len_choice(rng):
    r = rng.random()
    if r < 0.45:
        return rng.randint(1, 12)
    if r < 0.75:
        p = rng.choice([2, 4, 8, 16, 32, 64])
        return max(1, p + rng.choice([-1, 0, 1, 1, 2]))
    if r < 0.93:
        return rng.randint(1, 70)
    return rng.randint(70, 300)


def gen(rng, tier, index):
    n_reset = _len_choice(rng)
    rel = rng.random()
    if rel < 0.25:
        n_stop = n_reset
    elif rel < 0.6:
        n_stop = _len_choice(rng)
    else:       # stop longer than reset
        n_stop = n_reset + rng.choice([1, 1, 2, 3, rng.randint(1, 40)])
        n_stop = min(n_stop, 320)
    freq = rng.choice([60e6, 12e6, 48e6, 100e6, 1e6, 125e6, 33.333e6])
    power_on = rng.random() < 0.6
    # aim triggers with the reference timing (latency 1)
    t = RST_CYCLES
    busy_until = t + n_reset + n_stop if power_on else t          # first idle cycle
    ops = []
    n_pulses = rng.randint(1, 7 if tier == "quick" else 12)
    cycles_budget = 2500 if tier == "quick" else 8000
    for _ in range(n_pulses):
        kind = rng.choice(["idle", "idle", "first_idle", "last_busy", "mid_reset", "mid_stop", "held", "storm", "random"])
        if kind == "idle":
            s = busy_until + rng.randint(0, 6)
            ln = rng.choice([1, 1, 1, 2, 3, 8])
        elif kind == "first_idle":
            s, ln = busy_until, 1
        elif kind == "last_busy":
            s, ln = max(RST_CYCLES, busy_until - 1), rng.choice([1, 2])
        elif kind == "mid_reset":
            # trigger that starts a pulse, then another one during its reset phase
            s, ln = busy_until + rng.randint(0, 3), 1
            ops.append([s, ln])
            s2 = s + 1 + rng.randint(0, max(0, n_reset - 1))
            ops.append([s2, rng.choice([1, 1, 2, 4])])
            busy_until = s + 1 + n_reset + n_stop
            continue
        elif kind == "mid_stop":
            s, ln = busy_until + rng.randint(0, 3), 1
            ops.append([s, ln])
            s2 = s + 1 + n_reset + rng.randint(0, max(0, n_stop - 1))
            ops.append([s2, rng.choice([1, 1, 2, 4])])
            busy_until = s + 1 + n_reset + n_stop
            continue
        elif kind == "held":
            s = busy_until + rng.randint(0, 3)
            ln = n_reset + n_stop + rng.randint(0, 3)           # held until (about) the pulse ends
            ops.append([s, ln])
            busy_until = s + 1 + n_reset + n_stop
            if s + ln > busy_until:
                busy_until = busy_until + 1 + n_reset + n_stop
            continue
        elif kind == "storm":
            s = busy_until + rng.randint(0, 3)
            ops.append([s, 1])
            for _k in range(rng.randint(2, 8)):
                ops.append([s + 1 + rng.randint(0, n_reset + n_stop - 1), 1])
            busy_until = s + 1 + n_reset + n_stop
            continue
        else:
            s = max(RST_CYCLES, busy_until - rng.randint(0, n_reset + n_stop + 4))
            ln = rng.choice([1, 1, 2, 5])
        if s >= busy_until:
            busy_until = s + 1 + n_reset + n_stop
        elif s + ln > busy_until:
            busy_until = busy_until + 1 + n_reset + n_stop
        ops.append([s, ln])
        if busy_until > cycles_budget:
            break
    ops.sort()
    return {"engine": ENGINE,
            "config": {"reset_cycles": n_reset, "stop_cycles": n_stop, "clock_frequency": freq, "power_on_reset": power_on},
            "ops": ops}


def _bench(cfg):
    """ the domain reset is an input of the bench: it has to be part of `ins` at construction """
    from luna.gateware.architecture.car import PHYResetController
    from amaranth import Module, ClockDomain, ResetSignal, Signal, Elaboratable
    n_reset, n_stop, freq, por = cfg["reset_cycles"], cfg["stop_cycles"], cfg["clock_frequency"], cfg["power_on_reset"]

    class Wrap(Elaboratable):
        def __init__(self):
            self.dut = PHYResetController(clock_frequency=freq, reset_length=(n_reset - 0.5) / freq,
                                          stop_length=(n_stop - 0.5) / freq, power_on_reset=por)
            self.rst = Signal()

        def elaborate(self, platform):
            m = Module()
            m.domains.sync = ClockDomain()
            m.submodules.dut = self.dut
            m.d.comb += ResetSignal("sync").eq(self.rst)
            return m

    def factory():
        w = Wrap()
        return make_bench(w, clocks={"sync": 1 / 60e6}, main="sync", ins={"trigger": w.dut.trigger, "rst": w.rst},
                          outs={"phy_reset": w.dut.phy_reset, "phy_stop": w.dut.phy_stop})
    return cached_bench(("c54", n_reset, n_stop, freq, por), factory)


class _Cand:
    """ reference pulse generator with trigger-to-reset latency d """
    __slots__ = ("d", "state", "k", "dead_at", "why")

    def __init__(self, d, power_on):
        self.d = d
        self.state = "RESET" if power_on else "IDLE"
        self.k = 0
        self.dead_at = None
        self.why = None


class _Actor:
    def __init__(self, scn, viol, probes):
        cfg = scn["config"]
        self.N, self.M = cfg["reset_cycles"], cfg["stop_cycles"]
        self.viol, self.probes = viol, probes
        self.end = RST_CYCLES
        trig = {}
        for s, ln in scn["ops"]:
            for c in range(max(RST_CYCLES, s), s + ln):
                trig[c] = 1
            self.end = max(self.end, s + ln)
        self.trig = trig
        self.horizon = self.end + 2 * (self.N + self.M) + 12
        self.cands = [_Cand(d, cfg["power_on_reset"]) for d in LATENCIES]
        self.dead = []
        self.stop = False
        self.pulses_done = 0
        self.classes = set()
        self.held_run = 0
        self.prev_ref_state = None
        if cfg["power_on_reset"]:
            probes["power_on_pulse"] += 1
        else:
            probes["no_power_on"] += 1

    def drive(self, t):
        return {"rst": 1 if t < RST_CYCLES else 0, "trigger": self.trig.get(t, 0)}

    # expected outputs of a candidate in the current cycle, then advance with this cycle's trigger
    def _expect(self, c):
        st = c.state
        if st == "IDLE":
            return 0, (0,)
        if st == "WAIT":            # between the accepted trigger and the reset (latency > 1): stop may already be up
            return 0, (0, 1)
        if st == "RESET":
            return 1, (1,)
        return 0, (1,)              # STOP

    def _advance(self, c, trig):
        N, M = self.N, self.M
        st = c.state
        if st == "IDLE":
            if trig:
                if c.d == 1:
                    c.state, c.k = "RESET", 0
                else:
                    c.state, c.k = "WAIT", 1
        elif st == "WAIT":
            c.k += 1
            if c.k == c.d:
                c.state, c.k = "RESET", 0
        elif st == "RESET":
            c.k += 1
            if c.k == N:
                c.state, c.k = "STOP", 0
        else:
            c.k += 1
            if c.k == M:
                c.state, c.k = "IDLE", 0
                return True
        return False

    def observe(self, t, o):
        if self.stop:
            return True
        if t < RST_CYCLES:
            return False
        trig = self.trig.get(t, 0)
        rst, stp = o["phy_reset"], o["phy_stop"]
        keep = []
        for c in self.cands:
            e_rst, e_stp = self._expect(c)
            if rst != e_rst:
                if c.state == "IDLE":
                    rule = "C54.no_spurious"
                    why = "phy_reset asserted without a trigger in an idle cycle"
                elif c.state == "WAIT":
                    rule, why = "C54.no_spurious", "phy_reset asserted earlier than this latency candidate"
                elif c.state == "RESET" and c.k == 0:
                    rule, why = "C54.returns_idle", f"a trigger in an idle cycle did not start a reset pulse (latency candidate {c.d})"
                elif c.state == "RESET":
                    rule, why = "C54.reset_exact", f"phy_reset released after {c.k} cycles, configured {self.N}"
                else:
                    rule, why = "C54.reset_exact", f"phy_reset still asserted {self.N + c.k + 1} cycles into the pulse, configured {self.N}"
                c.dead_at, c.why = t, (rule, why, c.state, c.k)
                self.dead.append(c)
            elif stp not in e_stp:
                if c.state == "IDLE":
                    rule, why = "C54.stop_exact", (f"phy_stop asserted in a cycle in which the controller must be idle "
                                                   f"(configured stop length {self.M} after a reset of {self.N})")
                elif c.state == "STOP":
                    rule, why = "C54.stop_exact", f"phy_stop released {c.k} cycles after the reset, configured {self.M}"
                else:
                    rule, why = "C54.stop_exact", "phy_stop low while phy_reset is asserted"
                c.dead_at, c.why = t, (rule, why, c.state, c.k)
                self.dead.append(c)
            else:
                keep.append(c)
        if not keep:
            # classify by the candidate that survived longest (ties: smallest latency)
            best = max(self.dead, key=lambda c: (c.dead_at, -c.d))
            rule, why, st, k = best.why
            N, M = self.N, self.M
            pow2 = 1
            while pow2 < N:
                pow2 *= 2
            self.viol.add(rule, t, f"{why}; observed phy_reset={rst} phy_stop={stp}, reference state {st}+{k} "
                          f"(reset_cycles={N}, stop_cycles={M})",
                          model_state=st, stop_gt_reset=bool(M > N), stop_gt_pow2ceil_reset=bool(M > pow2))
            self.stop = True
            return True
        self.cands = keep
        # probes (reference = first surviving candidate)
        c = keep[0]
        pr = self.probes
        if trig:
            self.held_run += 1
            if c.state == "RESET":
                pr["trigger_during_reset"] += 1
            elif c.state == "STOP":
                pr["trigger_during_stop"] += 1
                if c.k == self.M - 1:
                    pr["trigger_last_busy_cycle"] += 1
            if self.held_run == self.N + self.M:
                pr["trigger_held_across_pulse"] += 1
        else:
            self.held_run = 0
        self.classes.add((c.state, trig, min(c.k, 2)))
        if c.state == "IDLE" and trig and self.prev_ref_state == "STOP":
            pr["trigger_first_idle_cycle"] += 1
        self.prev_ref_state = c.state
        for c in keep:
            if self._advance(c, trig) and c is keep[0]:
                self.pulses_done += 1
        return t >= self.horizon


def run(scn):
    cfg = scn["config"]
    bench = _bench(cfg)
    viol = Violations()
    probes = {p: 0 for p in PROBES}
    actor = _Actor(scn, viol, probes)
    N, M = cfg["reset_cycles"], cfg["stop_cycles"]
    if M > N:
        probes["stop_longer_than_reset"] += 1
    pow2 = 1
    while pow2 < N:
        pow2 *= 2
    if M > pow2:
        probes["stop_exceeds_pow2_of_reset"] += 1
    if N == 1 or M == 1:
        probes["length_one"] += 1
    log = bench.run([actor], max_cycles=actor.horizon + 4, init={"rst": 1})
    if not actor.stop and log.cycles < actor.horizon:
        raise RuntimeError("run ended before the horizon")
    if actor.pulses_done >= 3:
        probes["pulses_completed_3plus"] += 1
    faults = {"trigger_storm": probes["trigger_during_reset"] + probes["trigger_during_stop"],
              "trigger_held": probes["trigger_held_across_pulse"],
              "trigger_at_boundary": probes["trigger_first_idle_cycle"] + probes["trigger_last_busy_cycle"]}
    sig = hashlib.blake2b(repr((N == M, M > N, M > pow2, cfg["power_on_reset"], sorted(actor.classes),
                                min(actor.pulses_done, 4))).encode(), digest_size=8).hexdigest()
    return {"violations": viol.items, "cycles": log.cycles, "faults": faults, "probes": probes, "sig": sig,
            "nontrivial": actor.pulses_done >= 1, "digest": log.digest, "fsm": len(log.fsm_vectors)}


def shrink_candidates(scn):
    import copy
    # shorten trigger pulses, then try smaller configurations of the same class
    for i, (s, ln) in enumerate(scn["ops"]):
        if ln > 1:
            cand = copy.deepcopy(scn)
            cand["ops"][i][1] = 1
            yield cand
    cfg = scn["config"]
    if cfg["clock_frequency"] != 60e6:
        cand = copy.deepcopy(scn)
        cand["config"]["clock_frequency"] = 60e6
        yield cand
