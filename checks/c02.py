"""
C02 -- USB2 data packets are accepted iff their CRC16 is valid, payload intact.

DUT: luna.gateware.usb.usb2.packet.USBDataPacketReceiver (real) in two wirings:
  "standalone": USBDataPacketReceiver(standalone=True) (own CRC generator and timer, full speed);
  "wired":      the receiver + USBDataPacketCRC + USBInterpacketTimer connected exactly as USBDevice.elaborate does
                (device.py: data_crc.rx_* <- utmi.rx_*, timer.speed <- speed), with the speed pin at HIGH or FULL.
The UTMI receive side is a literal per-cycle waveform.  Oracle: own CRC16 over the bytes actually sent.
"""

import hashlib

from amaranth import Elaboratable, Module, Signal

from dsim.kernel import make_bench, cached_bench, Violations
from models import usb2
from models.usb2 import token_packet, data_packet, handshake_packet, apply_fault, crc16
from models.usb2_wire import render_rx, WaveActor, rand_timing, gen_idle_data

PROPERTY = "C02"
ENGINE = "usb2_wire"
CLOCK_HZ = 60e6
RULES = {
    "C02.stream_bytes": "for a data-PID packet the bytes seen with stream.valid & stream.next are exactly the bytes between "
                        "the PID and the two trailing CRC bytes, in order (none if fewer than two bytes follow the PID)",
    "C02.verdict": "packet_complete iff valid DATA0/1/2/MDATA PID and CRC16 matches; crc_mismatch instead for a data packet with "
                   ">= 2 bytes after the PID whose CRC does not match; never both; exactly one strobe cycle; none for non-data packets",
    "C02.packet_id": "packet_id equals the packet's PID nibble in the cycle of the verdict strobe",
    "C02.ready_only_after_complete": "ready_for_response is raised only after a completed packet (at most once per completion, "
                                     "never after a rejected or non-data packet)",
}
PROBES = ["zlp_valid", "one_byte_payload_valid", "body_0_bytes", "body_1_byte", "crc_field_corrupt", "payload_corrupt",
          "pid_corrupt_to_other_data_pid", "pid_corrupt_to_valid_non_data_pid", "extended_packet", "aborted_packet",
          "valid_after_bad", "gap_1_cycle", "data2_or_mdata", "ready_for_response_seen", "complete_with_byte_gaps",
          "high_speed_runs", "long_payload", "device_level_runs"]
META = {
    "components_real": ["luna.gateware.usb.usb2.packet.USBDataPacketReceiver", "USBDataPacketCRC", "USBInterpacketTimer",
                        "every 6th run: complete USBDevice (receiver, shared CRC unit and timer as wired in device.py), observed at "
                        "a passive endpoint's EndpointInterface"],
    "components_stubbed": ["UTMI PHY receive side + host: literal waveform (models.usb2_wire.render_rx)"],
    "assumptions": ["legal UTMI receive side: rx_valid only while rx_active; rx_active rises >= 1 cycle before the first byte and "
                    "is low for >= 1 cycle between packets",
                    "the next packet starts no earlier than one inter-packet delay (USB 2.0 7.1.18: 2 FS bit times = 10 cycles at "
                    "full speed, 1 cycle at high speed, +2 cycles margin) after a CRC-valid data packet, as on any real bus "
                    "(a SYNC alone is 8 bit times); shorter gaps are generated after all other packets",
                    "no assertion on the stream for non-data PIDs beyond 'no verdict' (DESIGN C02)",
                    "data packets with fewer than 2 bytes after the PID: no completion; a crc_mismatch strobe is tolerated"],
    "rule": "history of 8-40 packets: valid data packets (payload 0-70, 0/1/2 over-represented, all four data PIDs), corrupted "
            "ones (bit flips in PID/payload/CRC, truncate, extend, abort_rx), tokens/handshakes/garbage; per-packet byte period, "
            "gap pattern, pre/post, inter-packet idle",
}
TIERS = {"quick": {"runs": 10000, "wall": 70}, "thorough": {"runs": 150000, "wall": 900}}

LATENCY_BOUND = 4


def _payload(rng, tier):
    r = rng.random()
    if r < 0.35:
        n = rng.choice([0, 0, 1, 1, 2, 3])
    elif r < 0.9:
        n = rng.randint(3, 24)
    else:
        n = rng.choice([31, 32, 33, 63, 64, 65, 70]) if tier != "quick" or rng.random() < 0.5 else rng.randint(8, 40)
    return bytes(rng.getrandbits(8) for _ in range(n))


DEVICE_EVERY = 6        # every 6th run (index % 6 == 4): the receiver as it sits inside a complete USBDevice, seen by an endpoint


def gen(rng, tier, index):
    wiring = rng.choice(["standalone", "wired_fs", "wired_hs"])
    if index % DEVICE_EVERY == 4:
        # same stimulus (full-speed inter-packet timing); judged at the EndpointInterface a passive endpoint is given
        # (rx stream, rx_complete, rx_invalid, rx_ready_for_response, rx_pid_toggle), with the PHY's tx_ready high while idle
        wiring = "device"
    cfg = {"wiring": wiring}
    ipd = 3 if wiring == "wired_hs" else 12            # inter-packet delay incl. margin, in cycles
    fault_free = rng.random() < 0.15
    n = rng.randint(8, 26 if tier == "quick" else 40)
    slow = rng.random() < 0.08
    kinds_enabled = [k for k in ("corrupt_bit", "truncate", "extend", "abort_rx") if rng.random() < 0.75] or ["corrupt_bit"]
    ops = []
    for _ in range(n):
        op = {"op": "pkt"}
        op.update(rand_timing(rng, slow))
        r = rng.random()
        valid_data = False
        if r < 0.45 or fault_free and r < 0.8:
            raw = data_packet(rng.choice(usb2.DATA_PIDS), _payload(rng, tier))
            what = "data"
            valid_data = True
        elif r < 0.80 and not fault_free:
            raw = data_packet(rng.choice(usb2.DATA_PIDS), _payload(rng, tier))
            k = rng.choice(kinds_enabled)
            if k == "corrupt_bit":
                where = rng.random()
                if where < 0.1:
                    bits = [rng.randrange(8)]                                             # the PID byte: invalid check nibble
                elif where < 0.2:
                    b = rng.randrange(4)                                                  # PID and check nibble flipped together:
                    bits = [b, b + 4]                                                     # another *valid* PID (data or not)
                elif where < 0.5:
                    bits = [rng.randrange(len(raw) * 8 - 16, len(raw) * 8)]                 # the CRC field
                else:
                    bits = [rng.randrange(8, len(raw) * 8) for _ in range(rng.choice([1, 1, 2, 3]))]
                f = {"kind": k, "bits": sorted(set(bits))}
            elif k == "truncate":
                f = {"kind": k, "to": rng.choice([1, 2, 2, max(1, len(raw) - 1), max(1, len(raw) - 2), rng.randint(1, len(raw))])}
            elif k == "extend":
                f = {"kind": k, "extra": bytes(rng.getrandbits(8) for _ in range(rng.choice([1, 1, 2, 3]))).hex()}
            else:
                f = None
                op["abort_at"] = rng.choice([0, 1, 2, rng.randint(0, len(raw))])
            raw = apply_fault(raw, f)
            op["fault"] = f or {"kind": "abort_rx"}
            what = "faulty_data"
            # a flipped bit can leave a packet that is valid again (e.g. DATA0 -> DATA2 needs two flips, so this is rare)
            sent = raw if op.get("abort_at") is None else raw[:op["abort_at"]]
            valid_data = usb2.parse_data(sent) is not None
        elif r < 0.88:
            raw = token_packet(rng.choice(["IN", "OUT", "SETUP", "PING"]), rng.randrange(128), rng.randrange(16))
            what = "token"
        elif r < 0.93:
            raw = handshake_packet(rng.choice(usb2.HANDSHAKE_PIDS))
            what = "handshake"
        else:
            # garbage, sometimes shaped like a data packet with a non-data PID or an invalid PID check nibble
            body = bytes(rng.getrandbits(8) for _ in range(rng.randint(0, 9)))
            first = rng.choice([rng.getrandbits(8), usb2.pid_byte("DATA0") ^ (1 << rng.randrange(4, 8)), usb2.pid_byte("ACK")])
            raw = bytes([first]) + body + bytes(crc16(body))
            what = "garbage"
            sent = raw
            valid_data = usb2.parse_data(sent) is not None
        # inter-packet idle: environment assumption after a CRC-valid data packet, anything >= 1 otherwise
        if valid_data:
            op["idle"] = ipd + rng.choice([0, 0, 1, 2, 5, 20])
        else:
            op["idle"] = rng.choice([1, 1, 2, 3, 5, 8, 14])
        op["bytes"] = raw.hex()
        op["what"] = what
        ops.append(op)
    cfg["idle_data"] = gen_idle_data(rng)
    return {"engine": ENGINE, "config": cfg, "ops": ops}


class _WiredReceiver(Elaboratable):
    """ receiver + CRC generator + inter-packet timer, connected as in USBDevice.elaborate (device.py) """

    def __init__(self):
        from luna.gateware.interface.utmi import UTMIInterface
        from luna.gateware.usb.usb2.packet import USBDataPacketReceiver
        self.utmi = UTMIInterface()
        self.speed = Signal(2)
        self.receiver = USBDataPacketReceiver(utmi=self.utmi)

    def elaborate(self, platform):
        from luna.gateware.usb.usb2.packet import USBDataPacketCRC, USBInterpacketTimer
        m = Module()
        m.submodules.receiver = receiver = self.receiver
        m.submodules.data_crc = data_crc = USBDataPacketCRC()
        m.submodules.timer = timer = USBInterpacketTimer(domain_clock=60e6, fs_only=False)
        data_crc.add_interface(receiver.data_crc)
        timer.add_interface(receiver.timer)
        m.d.comb += [
            data_crc.rx_data.eq(self.utmi.rx_data),
            data_crc.rx_valid.eq(self.utmi.rx_valid),
            data_crc.tx_valid.eq(0),
            timer.speed.eq(self.speed),
        ]
        return m


def _bench(wiring):
    def factory():
        if wiring == "device":
            from luna.gateware.interface.utmi import UTMIInterface
            from luna.gateware.usb.usb2.device import USBDevice
            from engines.usb2_device import SpyEndpoint
            utmi = UTMIInterface()
            dut = USBDevice(bus=utmi)
            dut.always_fs = False               # the configuration USBDevice gives itself on a ULPI PHY (60 MHz, all speeds)
            dut.data_clock = 60e6
            spy = SpyEndpoint()
            dut.add_endpoint(spy)
            i = spy.interface
            ins = {"rx_data": utmi.rx_data, "rx_active": utmi.rx_active, "rx_valid": utmi.rx_valid, "tx_ready": utmi.tx_ready,
                   "line_state": utmi.line_state, "connect": dut.connect, "full_speed_only": dut.full_speed_only}
            outs = {"s_valid": i.rx.valid, "s_next": i.rx.next, "s_payload": i.rx.payload, "complete": i.rx_complete,
                    "mismatch": i.rx_invalid, "rfr": i.rx_ready_for_response, "packet_id": i.rx_pid_toggle}
            return make_bench(dut, clocks={"usb": 1 / 60e6}, main="usb", ins=ins, outs=outs)
        if wiring == "standalone":
            from luna.gateware.interface.utmi import UTMIInterface
            from luna.gateware.usb.usb2.packet import USBDataPacketReceiver
            utmi = UTMIInterface()
            dut = rcv = USBDataPacketReceiver(utmi=utmi, standalone=True)
            ins = {}
        else:
            dut = _WiredReceiver()
            utmi, rcv = dut.utmi, dut.receiver
            ins = {"speed": dut.speed}
        ins.update({"rx_data": utmi.rx_data, "rx_active": utmi.rx_active, "rx_valid": utmi.rx_valid})
        outs = {"s_valid": rcv.stream.valid, "s_next": rcv.stream.next, "s_payload": rcv.stream.payload,
                "complete": rcv.packet_complete, "mismatch": rcv.crc_mismatch, "rfr": rcv.ready_for_response,
                "packet_id": rcv.packet_id}
        return make_bench(dut, clocks={"usb": 1 / 60e6}, main="usb", ins=ins, outs=outs)
    return cached_bench(("c02", "device" if wiring == "device" else wiring == "standalone"), factory)


def run(scn):
    cfg = scn["config"]
    ops = scn["ops"]
    wiring = cfg["wiring"]
    bench = _bench(wiring)
    side = {} if wiring == "standalone" else {"speed": 0 if wiring == "wired_hs" else 1}
    if wiring == "device":
        side = {"tx_ready": 1, "line_state": 0b01, "connect": 1, "full_speed_only": 1}
    ipd = 3 if wiring == "wired_hs" else 12
    wave, packets = render_rx(ops, side=side, tail=40, idle_data=cfg.get("idle_data"))
    actor = WaveActor(wave)
    log = bench.run([actor], max_cycles=len(wave) + 4)
    S = actor.samples
    if len(S) < len(wave):
        raise RuntimeError("waveform was not played completely")
    viol = Violations()
    probes = {p: 0 for p in PROBES}
    faults = {}
    outcomes = set()
    if wiring == "wired_hs":
        probes["high_speed_runs"] += 1
    if wiring == "device":
        probes["device_level_runs"] += 1

    first_start = packets[0]["t_start"] if packets else len(S)
    for t in range(first_start):
        o = S[t]
        if o["complete"] or o["mismatch"] or o["rfr"] or (o["s_valid"] and o["s_next"]):
            viol.add("C02.verdict", t, "receiver output before any packet was received", packet="none", expected="none", observed="early")
            break

    prev_bad = False
    for k, p in enumerate(packets):
        op = ops[p["op"]]
        sent = p["sent"]
        fkind = (op.get("fault") or {}).get("kind")
        if fkind:
            faults[fkind] = faults.get(fkind, 0) + 1
        t_start, t_end = p["t_start"], p["t_end"]
        nxt_start = packets[k + 1]["t_start"] if k + 1 < len(packets) else len(S)
        nxt_end = packets[k + 1]["t_end"] if k + 1 < len(packets) else len(S)
        pid = sent[0] if sent else None
        name = usb2.pid_name(pid) if pid is not None else None
        is_data = name in usb2.DATA_PIDS
        body = sent[1:]
        if is_data and len(body) >= 2:
            good = crc16(body[:-2]) == (body[-2], body[-1])
            expect = "complete" if good else "mismatch"
            exp_stream = bytes(body[:-2])
        elif is_data:
            expect = "short"
            exp_stream = b""
        else:
            expect = "none"
            exp_stream = None
        outcomes.add(expect)
        cls = fkind or op.get("what", "?")
        shape = {"wiring": wiring, "packet": cls, "expected": expect}

        # ---- probes ----
        if expect == "complete":
            if len(exp_stream) == 0:
                probes["zlp_valid"] += 1
            if len(exp_stream) == 1:
                probes["one_byte_payload_valid"] += 1
            if len(exp_stream) >= 31:
                probes["long_payload"] += 1
            if name in ("DATA2", "MDATA"):
                probes["data2_or_mdata"] += 1
            if prev_bad:
                probes["valid_after_bad"] += 1
            bc = p["byte_cycles"]
            if any(b - a > 1 for a, b in zip(bc, bc[1:])):
                probes["complete_with_byte_gaps"] += 1
            if nxt_start - t_end < ipd and k + 1 < len(packets):
                raise RuntimeError("scenario violates the inter-packet-delay assumption after a valid data packet")
        if expect == "short":
            probes["body_%d_byte%s" % (len(body), "s" if len(body) == 0 else "")] += 1
        if fkind == "corrupt_bit":
            bits = op["fault"]["bits"]
            n_raw = len(bytes.fromhex(op["bytes"]))
            if all(b >= n_raw * 8 - 16 for b in bits):
                probes["crc_field_corrupt"] += 1
            elif all(b >= 8 for b in bits):
                probes["payload_corrupt"] += 1
            elif is_data:
                probes["pid_corrupt_to_other_data_pid"] += 1
            elif name is not None:
                probes["pid_corrupt_to_valid_non_data_pid"] += 1
        if fkind == "extend":
            probes["extended_packet"] += 1
        if fkind == "abort_rx":
            probes["aborted_packet"] += 1
        if nxt_start == t_end + 1 and k + 1 < len(packets):
            probes["gap_1_cycle"] += 1

        # ---- observations attributed to this packet ----
        streamed = bytes(S[t]["s_payload"] for t in range(t_start, min(nxt_start, len(S))) if S[t]["s_valid"] and S[t]["s_next"])
        completes = [t for t in range(t_end, nxt_end) if S[t]["complete"]]
        mismatches = [t for t in range(t_end, nxt_end) if S[t]["mismatch"]]
        early = [t for t in range(t_start, t_end) if S[t]["complete"] or S[t]["mismatch"]] if k == 0 else []
        rfrs = [t for t in range(t_end, nxt_end) if S[t]["rfr"]]

        if exp_stream is not None and streamed != exp_stream:
            viol.add("C02.stream_bytes", t_end, f"packet {sent.hex()} ({cls}): streamed {streamed.hex()!r}, expected {exp_stream.hex()!r}",
                     problem=("extra" if len(streamed) > len(exp_stream) else "missing" if len(streamed) < len(exp_stream) else "wrong"), **shape)
        if early:
            viol.add("C02.verdict", early[0], f"verdict strobe during reception of the first packet {sent.hex()}", observed="early", **shape)
        obs = ("complete" if completes else "") + ("+mismatch" if mismatches else "")
        if completes and mismatches:
            viol.add("C02.verdict", min(completes + mismatches), f"packet {sent.hex()}: both packet_complete and crc_mismatch", observed="both", **shape)
        elif expect == "complete":
            if len(completes) != 1:
                viol.add("C02.verdict", t_end, f"packet {sent.hex()} ({cls}) has a valid data PID and CRC16: expected exactly one packet_complete, "
                         f"observed complete at {completes}, mismatch at {mismatches}", observed=obs or "nothing", **shape)
            else:
                if wiring == "device":
                    # an endpoint is only shown the data toggle (PID bit 3)
                    if S[completes[0]]["packet_id"] != ((pid >> 3) & 1):
                        viol.add("C02.packet_id", completes[0], f"rx_pid_toggle={S[completes[0]]['packet_id']} at completion of a packet "
                                 f"with PID byte {pid:#04x}", observed="wrong_id", **shape)
                elif S[completes[0]]["packet_id"] != (pid & 0xF):
                    viol.add("C02.packet_id", completes[0], f"packet_id={S[completes[0]]['packet_id']:#x} at completion of a packet with "
                             f"PID byte {pid:#04x}", observed="wrong_id", **shape)
                if completes[0] - t_end > LATENCY_BOUND:
                    viol.add("C02.verdict", completes[0], f"packet_complete {completes[0] - t_end} cycles after the packet ended", observed="late", **shape)
        elif expect == "mismatch":
            if len(mismatches) != 1 or completes:
                viol.add("C02.verdict", t_end, f"packet {sent.hex()} ({cls}) is a data packet with a wrong CRC16: expected exactly one crc_mismatch, "
                         f"observed complete at {completes}, mismatch at {mismatches}", observed=obs or "nothing", **shape)
            elif mismatches[0] - t_end > LATENCY_BOUND:
                viol.add("C02.verdict", mismatches[0], f"crc_mismatch {mismatches[0] - t_end} cycles after the packet ended", observed="late", **shape)
        elif expect == "short":
            if completes or len(mismatches) > 1:
                viol.add("C02.verdict", t_end, f"data packet {sent.hex()} shorter than a CRC: complete at {completes}, mismatch at {mismatches}",
                         observed=obs, **shape)
        else:
            if completes or mismatches:
                viol.add("C02.verdict", t_end, f"non-data / malformed packet {sent.hex()} ({cls}): complete at {completes}, mismatch at {mismatches}",
                         observed=obs, **shape)
        # ready_for_response: only after a completion, at most once per completion
        if rfrs:
            probes["ready_for_response_seen"] += 1
            if expect != "complete":
                viol.add("C02.ready_only_after_complete", rfrs[0], f"ready_for_response after packet {sent.hex()} ({cls}) which must not complete",
                         problem="unsolicited", **shape)
            elif len(rfrs) > 1:
                viol.add("C02.ready_only_after_complete", rfrs[1], f"ready_for_response raised {len(rfrs)} times after one completed packet",
                         problem="repeated", **shape)
            elif completes and rfrs[0] < completes[0]:
                viol.add("C02.ready_only_after_complete", rfrs[0], "ready_for_response before packet_complete", problem="early", **shape)
        prev_bad = expect in ("mismatch", "short") or (expect == "none" and op.get("what") in ("garbage", "faulty_data"))
        if viol:
            break       # after the first divergence the attribution of later strobes is meaningless

    sig = hashlib.blake2b(repr((wiring, sorted(log.fsm_vectors), sorted(faults), sorted(outcomes))).encode(), digest_size=8).hexdigest()
    return {"violations": viol.items, "cycles": log.cycles, "faults": faults, "probes": probes, "sig": sig,
            "nontrivial": bool(faults) and "complete" in outcomes, "digest": log.digest, "fsm": len(log.fsm_vectors)}


def shrink_candidates(scn):
    import copy
    for i, op in enumerate(scn["ops"]):
        if op.get("op") == "pkt" and (op.get("period", 1) != 1 or op.get("gaps") or op.get("pre", 1) != 1 or op.get("post", 0)):
            cand = copy.deepcopy(scn)
            cand["ops"][i].update({"period": 1, "gaps": None, "pre": 1, "post": 0})
            yield cand
