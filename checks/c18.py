"""
C18 -- TransactionalizedFIFO behaves as a commit/rollback queue.

DUT: luna.gateware.memory.TransactionalizedFIFO (real), standalone.
Actors: one literal per-cycle stimulus (we, data, wc, wd, re, rc, rd) = "any interleaving of enables,
commits and discards".  Oracle: a cycle-accurate *nondeterministic* reference queue: where the statement
does not fix an order (commit and discard of the same port strobed in the same cycle) both sequential
orders are admitted and the DUT must agree with at least one of them from then on.
"""

import hashlib

from dsim.kernel import make_bench, cached_bench, Violations

PROPERTY = "C18"
ENGINE = "streams"
CLOCK_HZ = 60e6
RULES = {
    "C18.read_data": "read_data equals the oldest committed, unread entry whenever empty is low",
    "C18.empty": "empty is high exactly when no committed unread entry remains",
    "C18.full": "full is high exactly when no further write fits",
    "C18.space_available": "space_available == depth - entries held (incl. uncommitted writes, unfinalised reads)",
}
PROBES = ["full_reached", "wrap_with_uncommitted", "write_discard_with_data", "read_discard_with_data",
          "simultaneous_commit_discard_w", "simultaneous_commit_discard_r", "write_while_full", "read_while_empty",
          "commit_same_cycle_as_write"]
META = {
    "components_real": ["luna.gateware.memory.TransactionalizedFIFO (+ amaranth.lib.memory.Memory)"],
    "components_stubbed": ["producer/consumer: literal per-cycle strobes from the scenario"],
    "assumptions": ["inputs change only on the clock (synchronous environment)",
                    "same-cycle commit+discard on one port: either sequential order is accepted"],
    "rule": "per-cycle literal stimulus drawn in biased phases (fill, drain, churn, commit-heavy, discard-heavy, "
            "simultaneous strobes) for depth 1..17 and width 1..12",
}
TIERS = {"quick": {"runs": 7200, "wall": 70}, "thorough": {"runs": 40000, "wall": 900}}


def gen(rng, tier, index):
    depth = rng.choice([1, 2, 3, 3, 4, 5, 5, 6, 7, 8, 9, 11, 13, 16, 17])
    width = rng.choice([1, 2, 3, 4, 7, 8, 8, 8, 12])
    n = rng.randint(60, 400 if tier == "quick" else 1500)
    both = rng.random() < 0.35          # enable simultaneous commit+discard on one port in this run
    rc_tied = rng.random() < 0.15       # read_commit tied high (degraded non-transactional read port)
    ops = []
    ctr = rng.getrandbits(width)
    while len(ops) < n:
        phase = rng.choice(["fill", "drain", "churn", "commit", "discard", "idle", "simul"])
        ln = rng.randint(1, 3 * depth + 6)
        p = {"fill": (0.9, 0.1, 0.15, 0.03, 0.1, 0.03),
             "drain": (0.1, 0.9, 0.1, 0.03, 0.2, 0.03),
             "churn": (0.6, 0.6, 0.2, 0.05, 0.2, 0.05),
             "commit": (0.5, 0.5, 0.6, 0.0, 0.6, 0.0),
             "discard": (0.6, 0.6, 0.15, 0.3, 0.15, 0.3),
             "idle": (0.05, 0.05, 0.05, 0.02, 0.05, 0.02),
             "simul": (0.7, 0.7, 0.4, 0.4, 0.4, 0.4)}[phase]
        for _ in range(ln):
            we = int(rng.random() < p[0])
            re = int(rng.random() < p[1])
            wc = int(rng.random() < p[2])
            wd = int(rng.random() < p[3])
            rc = int(rng.random() < p[4]) or int(rc_tied)
            rd = int(rng.random() < p[5])
            if not both:
                if wc and wd:
                    wd = 0
                if rc and rd:
                    rd = 0
            ctr = (ctr + 1) & ((1 << width) - 1)
            ops.append([we, ctr, wc, wd, re, rc, rd])
    return {"engine": ENGINE, "config": {"depth": depth, "width": width}, "ops": ops[:n]}


def _bench(depth, width):
    from luna.gateware.memory import TransactionalizedFIFO

    def factory():
        dut = TransactionalizedFIFO(width=width, depth=depth, name="fifo")
        ins = {"we": dut.write_en, "wdat": dut.write_data, "wc": dut.write_commit, "wd": dut.write_discard,
               "re": dut.read_en, "rc": dut.read_commit, "rd": dut.read_discard}
        outs = {"rdat": dut.read_data, "empty": dut.empty, "full": dut.full, "space": dut.space_available}
        return make_bench(dut, clocks={"sync": 1 / 60e6}, main="sync", ins=ins, outs=outs)
    return cached_bench(("c18", depth, width), factory)


class _Model:
    """ One deterministic candidate: held = entries from committed-read to current-write position. """
    __slots__ = ("held", "r", "c")

    def __init__(self, held=(), r=0, c=0):
        self.held, self.r, self.c = tuple(held), r, c

    def key(self):
        return (self.held, self.r, self.c)

    def outputs(self, depth):
        empty = int(self.r == self.c)
        full = int(len(self.held) == depth)
        return empty, full, depth - len(self.held), (self.held[self.r] if not empty else None)

    def successors(self, depth, op):
        we, data, wc, wd, re, rc, rd = op
        empty, full, _, _ = self.outputs(depth)
        did_w = we and not full
        did_r = re and not empty
        held, r, c = self.held, self.r, self.c
        # ---- write side: list of (held', c') -----------------------------------------------------
        if wc and wd:
            w_alts = [(held, len(held)),          # commit earlier writes, then discard (the same-cycle write)
                      (held[:c], c)]              # discard everything uncommitted, then commit (nothing new)
        elif wd:
            w_alts = [(held[:c], c)]
        elif wc:
            w_alts = [((held + (data,)) if did_w else held, len(held))]
        else:
            w_alts = [((held + (data,)) if did_w else held, c)]
        # ---- read side: list of (drop, r') -------------------------------------------------------
        if rc and rd:
            r_alts = [(r, 0),                     # finalise earlier reads, then undo (the same-cycle read)
                      (0, 0)]                     # undo all unfinalised reads, then commit (nothing)
        elif rd:
            r_alts = [(0, 0)]
        elif rc:
            r_alts = [(r, 1 if did_r else 0)]
        else:
            r_alts = [(0, r + (1 if did_r else 0))]
        out = []
        for h2, c2 in w_alts:
            for drop, r2 in r_alts:
                out.append(_Model(h2[drop:], r2, c2 - drop))
        return out


class _Actor:
    def __init__(self, scn, viol, probes):
        self.ops = scn["ops"]
        self.depth = scn["config"]["depth"]
        self.viol = viol
        self.probes = probes
        self.cands = [_Model()]
        self.classes = set()
        self.dead = False

    def drive(self, t):
        if t < len(self.ops):
            we, data, wc, wd, re, rc, rd = self.ops[t]
            return {"we": we, "wdat": data, "wc": wc, "wd": wd, "re": re, "rc": rc, "rd": rd}
        return {"we": 0, "wc": 0, "wd": 0, "re": 0, "rc": 0, "rd": 0}

    def observe(self, t, o):
        if self.dead:
            return True
        depth = self.depth
        keep = []
        why = None
        for m in self.cands:
            empty, full, space, rdat = m.outputs(depth)
            if o["empty"] != empty:
                why = why or ("C18.empty", f"empty={o['empty']} expected {empty}")
            elif o["full"] != full:
                why = why or ("C18.full", f"full={o['full']} expected {full}")
            elif o["space"] != space:
                why = why or ("C18.space_available", f"space_available={o['space']} expected {space}")
            elif rdat is not None and o["rdat"] != rdat:
                why = why or ("C18.read_data", f"read_data={o['rdat']} expected {rdat}")
            else:
                keep.append(m)
        if not keep:
            prev = self.ops[t - 1] if 0 < t <= len(self.ops) else None
            simul = bool(prev and ((prev[2] and prev[3]) or (prev[5] and prev[6])))
            self.viol.add(why[0], t, f"{why[1]} (depth {depth}); previous cycle's strobes "
                          f"[we,data,wc,wd,re,rc,rd]={prev}", after_simultaneous_commit_discard=simul)
            self.dead = True
            return True
        if t >= len(self.ops):
            return t >= len(self.ops) + 3
        op = self.ops[t]
        # probes / coverage classes (on the first surviving candidate)
        m = keep[0]
        empty, full, _, _ = m.outputs(depth)
        pr = self.probes
        if full:
            pr["full_reached"] += 1
            if op[0]:
                pr["write_while_full"] += 1
        if empty and op[4]:
            pr["read_while_empty"] += 1
        if op[3] and len(m.held) > m.c:
            pr["write_discard_with_data"] += 1
        if op[6] and m.r > 0:
            pr["read_discard_with_data"] += 1
        if op[2] and op[3]:
            pr["simultaneous_commit_discard_w"] += 1
        if op[5] and op[6]:
            pr["simultaneous_commit_discard_r"] += 1
        if op[2] and op[0] and not full:
            pr["commit_same_cycle_as_write"] += 1
        self.classes.add((empty, full, op[0], op[2], op[3], op[4], op[5], op[6], len(m.held) > m.c, m.r > 0))
        nxt = {}
        for m in keep:
            for s in m.successors(depth, op):
                nxt[s.key()] = s
        self.cands = list(nxt.values())[:64]
        return False


def run(scn):
    depth, width = scn["config"]["depth"], scn["config"]["width"]
    bench = _bench(depth, width)
    viol = Violations()
    probes = {p: 0 for p in PROBES}
    actor = _Actor(scn, viol, probes)
    # wrap-around probe: total accepted writes beyond depth+1 while uncommitted entries exist is approximated
    # by the number of writes; cheap and good enough for a reach counter
    log = bench.run([actor], max_cycles=len(scn["ops"]) + 8)
    writes = sum(1 for op in scn["ops"] if op[0])
    if writes > depth + 1 and probes["write_discard_with_data"]:
        probes["wrap_with_uncommitted"] += 1
    sig = hashlib.blake2b(repr((depth, sorted(actor.classes))).encode(), digest_size=8).hexdigest()
    nontrivial = bool(probes["write_discard_with_data"] or probes["read_discard_with_data"] or probes["full_reached"])
    faults = {"discard_w": sum(op[3] for op in scn["ops"]), "discard_r": sum(op[6] for op in scn["ops"]),
              "request_while_full": probes["write_while_full"], "request_while_empty": probes["read_while_empty"],
              "simultaneous_commit_discard": probes["simultaneous_commit_discard_w"] + probes["simultaneous_commit_discard_r"]}
    return {"violations": viol.items, "cycles": log.cycles, "faults": faults, "probes": probes, "sig": sig,
            "nontrivial": nontrivial, "digest": log.digest, "fsm": len(log.fsm_vectors)}


def shrink_candidates(scn):
    # neutralise single strobes (keeps cycle alignment, which chunk removal does not)
    import copy
    ops = scn["ops"]
    for i in range(len(ops) - 1, -1, -1):
        if any(ops[i][k] for k in (0, 2, 3, 4, 5, 6)):
            cand = copy.deepcopy(scn)
            cand["ops"][i] = [0, ops[i][1], 0, 0, 0, 0, 0]
            yield cand
