"""
C53 -- HyperRAM transactions use the correct command and never contend the bus.

DUT: luna.gateware.interface.psram.HyperRAMInterface (real) on a HyperBusPHY record (the 2:1 PHY itself consists of
vendor DDR cells and is not simulated).
Actors: models.periph_hyperram.HyperRAMEnv = HyperRAM chip at the PHY-record level (RWDS latency indication, read data
with RWDS strobes: aligned / half-clock shifted, PHY pipeline delay, first-word delay, pauses) + user driver (start
strobes of 1-8 cycles, control inputs scrambled after the strobe, write words on write_ready, final_word with the
last word).  Oracle: per-transaction monitor over the recorded PHY signals.
"""

import hashlib

from dsim.kernel import make_bench, cached_bench, Violations
from models.periph_hyperram import HyperRAMEnv, command_word, FIRST_DATA_CLOCK, REG_WRITE_DATA_CLOCK

PROPERTY = "C53"
ENGINE = "periph"
CLOCK_HZ = 60e6
RULES = {
    "C53.command_word": "the first three clocks of a transaction carry, with DQ driven, the 48-bit command/address word built "
                        "from the request latched at the start strobe (R/W#, address space, burst type, address)",
    "C53.cs_held": "every request produces exactly one CS pulse that lasts from before the first command clock through the last "
                   "data clock (writes) / the final word (reads), after which no further clocks are issued and the interface "
                   "returns to idle",
    "C53.latency_before_data": "memory write data starts exactly at clock 3 + 2x7 = 17 (register write data at clock 4) and "
                               "continues for one clock per word",
    "C53.no_contention": "DQ is driven only in command and write-data clocks, RWDS only in memory-write data clocks, and never "
                         "in a cycle in which the memory drives the same line",
}
PROBES = ["register_write", "register_read", "memory_write", "memory_read", "strobe_len_ge_7", "strobe_len_1",
          "controls_scrambled_after_strobe", "multiword_write", "multiword_read", "read_misaligned", "read_with_pauses",
          "read_first_word_delayed", "phy_delay_ge_2", "back_to_back_gap_0", "start_in_first_idle_cycle", "start_one_cycle_after_first_idle", "wrapped_burst", "read_words_checked_aux",
          "write_words_checked_aux"]
META = {
    "components_real": ["luna.gateware.interface.psram.HyperRAMInterface"],
    "components_stubbed": ["HyperRAM chip + 2:1 PHY behaviour at the HyperBusPHY record (models.periph_hyperram.HyperRAMEnv)",
                           "user logic driving the control port"],
    "assumptions": ["the chip uses fixed 2x latency with latency count 7 (RWDS high during CA), as the interface hard-codes",
                    "requests are issued only while idle is high (from the very first idle cycle on: combinational gating with `idle` "
                    "is legal user logic); control inputs are stable during the whole start strobe; "
                    "final_word accompanies the last word; write_data follows write_ready by one cycle",
                    "reads: up to 3 further clocks after the final word are tolerated (their data is ignored)",
                    "data values (read_data / written words) are compared only as auxiliary counters: the statement is about "
                    "command, chip select, latency and bus ownership"],
    "rule": "1-5 requests per run: register/memory x read/write, random and patterned 32-bit addresses, wrapped/linear burst, "
            "1-6 words, start strobe 1..8 cycles, gap 0..6 after idle, control inputs scrambled after the strobe; chip: RWDS "
            "valid delay 0..2, PHY delay 0..3, aligned or half-clock-shifted read data, first-word delay 0..5, pauses",
}
TIERS = {"quick": {"runs": 60000, "wall": 70}, "thorough": {"runs": 400000, "wall": 900}}


def gen(rng, tier, index):
    reqs = []
    for _ in range(rng.randint(1, 5 if tier == "quick" else 10)):
        kind = rng.choice(["reg_write", "reg_write", "reg_read", "mem_write", "mem_write", "mem_read", "mem_read"])
        write = int(kind.endswith("write"))
        register = int(kind.startswith("reg"))
        n = 1 if register else rng.choice([1, 1, 2, 3, 4, 6])
        addr = rng.choice([rng.getrandbits(32), rng.getrandbits(32), 0, 0xFFFFFFFF, 0x00BBCCDD, 7, 8, 1 << 31, rng.getrandbits(12)])
        rq = {"write": write, "register": register, "single_page": rng.getrandbits(1), "address": addr,
              "strobe": rng.choice([1, 1, 2, 3, 4, 5, 6, 7, 8, 8]), "gap": rng.choice([0, 0, 1, 2, 3, 6]),
              "n": n, "words": [rng.getrandbits(16) for _ in range(n + 2)],
              "rwds_valid_delay": rng.choice([0, 0, 1, 2]), "scramble_controls": rng.getrandbits(1)}
        if not write:
            rq["phy_delay"] = rng.choice([0, 0, 1, 2, 3])
            rq["misaligned"] = int(rng.random() < 0.4)
            rq["first_delay"] = rng.choice([0, 0, 0, 1, 2, 5])
            if rng.random() < 0.3 and n > 1:
                rq["pauses"] = {str(rng.randint(1, n - 1)): rng.randint(1, 3)}
        reqs.append(rq)
    for rq in reqs:
        # when the user logic strobes relative to the first cycle the interface shows idle: in that very cycle (combinational
        # gating start = pending & idle), one cycle later (registered, request ready), or the legacy 2 + gap cycles later
        at = rng.choice([None, None, "comb", "next"])
        if at:
            rq["start_at"] = at
    return {"engine": ENGINE, "config": {}, "ops": reqs}


def _bench():
    from luna.gateware.interface.psram import HyperRAMInterface, HyperBusPHY

    def factory():
        phy = HyperBusPHY()
        dut = HyperRAMInterface(phy=phy)
        ins = {"start_transfer": dut.start_transfer, "final_word": dut.final_word, "write_data": dut.write_data,
               "address": dut.address, "register_space": dut.register_space, "perform_write": dut.perform_write,
               "single_page": dut.single_page, "rwds_i": phy.rwds.i, "dq_i": phy.dq.i}
        outs = {"cs": phy.cs, "clk_en": phy.clk_en, "dq_o": phy.dq.o, "dq_e": phy.dq.e, "rwds_o": phy.rwds.o, "rwds_e": phy.rwds.e,
                "idle": dut.idle, "read_ready": dut.read_ready, "write_ready": dut.write_ready, "read_data": dut.read_data,
                "reset": phy.reset}
        return make_bench(dut, clocks={"sync": 1 / 60e6}, main="sync", ins=ins, outs=outs)
    return cached_bench(("c53",), factory)


def _ca_fields(diff):
    f = []
    if diff >> 47 & 1:
        f.append("rw")
    if diff >> 46 & 1:
        f.append("address_space")
    if diff >> 45 & 1:
        f.append("burst")
    if diff >> 16 & ((1 << 29) - 1):
        f.append("address_high")
    if diff >> 3 & ((1 << 13) - 1):
        f.append("reserved")
    if diff & 7:
        f.append("address_low")
    return "+".join(f)


def run(scn):
    reqs = scn["ops"]
    bench = _bench()
    viol = Violations()
    probes = {p: 0 for p in PROBES}
    env = HyperRAMEnv(reqs)
    log = bench.run([env], max_cycles=len(reqs) * 500 + 200)
    rec = env.rec
    n_cyc = len(rec)
    problems = []
    classes = set()

    def add(c, rule, msg, **shape):
        problems.append((c, rule, msg, shape))

    if env.stuck is not None:
        k = env.k
        rq = reqs[k] if 0 <= k < len(reqs) else {}
        add(env.stuck, "C53.cs_held", f"request #{k} started in cycle {env.req_start[k] if k >= 0 and k < len(env.req_start) else '-'}: the "
            f"interface did not return to idle within {env.idle_limit} cycles", kind="never_idle", register=bool(rq.get("register")),
            write=bool(rq.get("write")))
    elif env.finished_at is None:
        raise RuntimeError("script did not finish")

    # ---------------- CS pulses ----------------
    pulses = []
    start = None
    for c in range(n_cyc):
        if rec[c]["cs"] and start is None:
            start = c
        elif not rec[c]["cs"] and start is not None:
            pulses.append((start, c))
            start = None
    if start is not None:
        pulses.append((start, n_cyc))
    allowed_dq = set()
    allowed_rwds = set()
    for k, T in enumerate(env.req_start):
        rq = reqs[k]
        nxt = env.req_start[k + 1] if k + 1 < len(env.req_start) else n_cyc + 1
        mine = [p for p in pulses if T <= p[0] < nxt]
        write, register, n = rq["write"], rq["register"], rq["n"]
        kind = ("register_" if register else "memory_") + ("write" if write else "read")
        probes[kind] += 1
        classes.add(kind)
        base = dict(register=bool(register), write=bool(write), strobe_ge_7=bool(rq["strobe"] >= 7))
        if not mine:
            if env.stuck is None:
                add(T + 8, "C53.cs_held", f"request #{k} ({kind}) strobed from cycle {T}: CS was never asserted", kind="no_transaction", **base)
            break
        ps, pe = mine[0]
        clocks = [c for c in range(ps, pe) if rec[c]["clk_en"]]
        # ---- command word
        exp_ca = command_word(read=not write, register=register, linear=not rq["single_page"], address=rq["address"])
        bad = False
        for i in range(3):
            if i >= len(clocks):
                add(pe, "C53.cs_held", f"request #{k} ({kind}): CS released in cycle {pe} after only {len(clocks)} clocks",
                    kind="early_release", **base)
                bad = True
                break
            c = clocks[i]
            want = (exp_ca >> (32 - 16 * i)) & 0xFFFF
            if not rec[c]["dq_e"]:
                add(c, "C53.command_word", f"request #{k} ({kind}): DQ not driven in command clock {i + 1} (cycle {c})",
                    kind="not_driven", **base)
                bad = True
                break
            if rec[c]["dq_o"] != want:
                diff = (rec[c]["dq_o"] ^ want) << (32 - 16 * i)
                add(c, "C53.command_word", f"request #{k} ({kind}, address 0x{rq['address']:08x}, single_page={rq['single_page']}): "
                    f"command clock {i + 1} carries 0x{rec[c]['dq_o']:04x}, expected 0x{want:04x} (CA=0x{exp_ca:012x})",
                    kind="wrong_value", fields=_ca_fields(diff), scrambled=bool(rq.get("scramble_controls")), **base)
                bad = True
                break
            allowed_dq.add(c)
        if bad:
            break
        # ---- data phase / end of transaction
        if write:
            first = REG_WRITE_DATA_CLOCK if register else FIRST_DATA_CLOCK
            need = first + n - 1
            driven = [i + 1 for i, c in enumerate(clocks) if i >= 3 and rec[c]["dq_e"]]
            if not driven or driven[0] != first:
                c = clocks[driven[0] - 1] if driven else pe
                add(c, "C53.latency_before_data", f"request #{k} ({kind}): first write data word on clock "
                    f"{driven[0] if driven else 'none'}, expected clock {first}", kind="early" if driven and driven[0] < first else "late",
                    **base)
                break
            if len(clocks) < need:
                add(pe, "C53.cs_held", f"request #{k} ({kind}, {n} words): CS released in cycle {pe} after {len(clocks)} clocks, "
                    f"{need} are needed", kind="early_release", **base)
                break
            want_driven = list(range(first, need + 1))
            if driven[:n] != want_driven:
                add(clocks[min(len(clocks), need) - 1], "C53.latency_before_data", f"request #{k} ({kind}): DQ driven on clocks "
                    f"{driven}, expected exactly {want_driven}", kind="gap_in_data", **base)
                break
            if len(clocks) > need:
                c = clocks[need]
                extra_pulse_like = len(clocks) >= need + 3
                add(c, "C53.cs_held", f"request #{k} ({kind}, start strobe {rq['strobe']} cycles): CS stays asserted and clock "
                    f"{need + 1} is issued in cycle {c} after the last data clock ({len(clocks)} clocks in one CS pulse"
                    + (": a second transaction without CS going high" if extra_pulse_like else "") + ")",
                    kind="clocks_after_end", **base)
                break
            for i in want_driven:
                c = clocks[i - 1]
                allowed_dq.add(c)
                if not register:
                    allowed_rwds.add(c)
                    if not rec[c]["rwds_e"] or rec[c]["rwds_o"] != 0:
                        add(c, "C53.latency_before_data", f"request #{k} ({kind}): data clock {i} (cycle {c}) without RWDS driven low "
                            f"as write mask (rwds.e={rec[c]['rwds_e']}, rwds.o={rec[c]['rwds_o']})", kind="mask", **base)
                        bad = True
                        break
            if bad:
                break
            # auxiliary: data values
            got = [rec[clocks[i - 1]]["dq_o"] for i in want_driven]
            exp = [rq["words"][j % len(rq["words"])] for j in range(n)]
            if got == exp:
                probes["write_words_checked_aux"] += n
            else:
                probes["aux_write_data_mismatch"] = probes.get("aux_write_data_mismatch", 0) + 1
            if n > 1:
                probes["multiword_write"] += 1
        else:
            reads = env.read_log[k]
            if len(reads) < n:
                if env.stuck is None:
                    add(pe, "C53.cs_held", f"request #{k} ({kind}, {n} words): CS released in cycle {pe} after {len(reads)} words "
                        f"were transferred", kind="early_release", **base)
                break
            t_final = reads[n - 1][0]
            on_pins = [c for (c, w, r) in env.sent if r == k and c <= pe]
            if len(on_pins) < n:
                # (judged from what the memory really put on the pins, not from the interface's own read_ready)
                add(pe, "C53.cs_held", f"request #{k} ({kind}, {n} words): CS released in cycle {pe} when the memory had delivered only "
                    f"{len(on_pins)} word(s)", kind="early_release", **base)
                break
            if pe <= t_final:
                add(pe, "C53.cs_held", f"request #{k} ({kind}): CS released in cycle {pe}, before the final word (cycle {t_final})",
                    kind="early_release", **base)
                break
            after = [c for c in clocks if c > t_final]
            if len(after) > 3:
                add(after[3], "C53.cs_held", f"request #{k} ({kind}): {len(after)} clocks issued after the final word (cycle {t_final})",
                    kind="clocks_after_end", **base)
                break
            sent = [w for (c, w, r) in env.sent if r == k][:n]
            if [d for (_c, d) in reads[:n]] == sent and len(reads) == n:
                probes["read_words_checked_aux"] += n
            else:
                probes["aux_read_data_mismatch"] = probes.get("aux_read_data_mismatch", 0) + 1
            if n > 1:
                probes["multiword_read"] += 1
            if rq.get("misaligned"):
                probes["read_misaligned"] += 1
                classes.add("misaligned")
            if rq.get("pauses"):
                probes["read_with_pauses"] += 1
            if rq.get("first_delay"):
                probes["read_first_word_delayed"] += 1
            if rq.get("phy_delay", 0) >= 2:
                probes["phy_delay_ge_2"] += 1
        if len(mine) > 1:
            add(mine[1][0], "C53.cs_held", f"request #{k} ({kind}, start strobe {rq['strobe']} cycles) produced {len(mine)} CS pulses "
                f"(second one from cycle {mine[1][0]})", kind="extra_cs_pulse", **base)
            break
        if rq["strobe"] >= 7:
            probes["strobe_len_ge_7"] += 1
            classes.add("long_strobe")
        if rq["strobe"] == 1:
            probes["strobe_len_1"] += 1
        if rq.get("scramble_controls"):
            probes["controls_scrambled_after_strobe"] += 1
        if rq["gap"] == 0 and k > 0:
            probes["back_to_back_gap_0"] += 1
            classes.add("b2b")
        if k > 0 and k - 1 < len(env.req_done):
            if env.req_start[k] == env.req_done[k - 1]:
                probes["start_in_first_idle_cycle"] += 1
                classes.add("comb_start")
            elif env.req_start[k] == env.req_done[k - 1] + 1:
                probes["start_one_cycle_after_first_idle"] += 1
                classes.add("next_start")
        if rq["single_page"]:
            probes["wrapped_burst"] += 1

    # ---------------- bus ownership, every cycle ----------------
    if not problems:
        for c in range(n_cyc):
            s = rec[c]
            k = env.req_of_cycle[c]
            rq = reqs[k] if 0 <= k < len(reqs) else {}
            base = dict(register=bool(rq.get("register")), write=bool(rq.get("write")))
            if s["dq_e"] and env.chip_dq[c]:
                add(c, "C53.no_contention", f"DQ driven in cycle {c} while the memory drives it (request #{k})", kind="dq_contention", **base)
                break
            if s["rwds_e"] and env.chip_rwds[c]:
                add(c, "C53.no_contention", f"RWDS driven in cycle {c} while the memory drives it (request #{k})", kind="rwds_contention", **base)
                break
            if s["dq_e"] and c not in allowed_dq:
                add(c, "C53.no_contention", f"DQ driven in cycle {c} outside the command and write-data clocks (request #{k})",
                    kind="dq_outside_phase", **base)
                break
            if s["rwds_e"] and c not in allowed_rwds:
                add(c, "C53.no_contention", f"RWDS driven in cycle {c} outside the memory-write data clocks (request #{k})",
                    kind="rwds_outside_phase", **base)
                break
    if problems:
        c, rule, msg, shp = min(problems, key=lambda p: p[0])
        viol.add(rule, c, msg, **shp)
    faults = {"long_start_strobe": probes["strobe_len_ge_7"], "control_change_in_flight": probes["controls_scrambled_after_strobe"],
              "read_data_pause": probes["read_with_pauses"] + probes["read_first_word_delayed"],
              "read_half_clock_shift": probes["read_misaligned"]}
    seq = [(rq["write"], rq["register"], rq["strobe"] >= 7, rq["n"] > 1, rq.get("misaligned", 0), rq["gap"] == 0) for rq in reqs]
    sig = hashlib.blake2b(repr((sorted(classes), seq, sorted(log.fsm_vectors))).encode(), digest_size=8).hexdigest()
    return {"violations": viol.items, "cycles": log.cycles, "faults": faults, "probes": probes, "sig": sig,
            "nontrivial": len(env.req_done) >= 1, "digest": log.digest, "fsm": len(log.fsm_vectors)}


def shrink_candidates(scn):
    import copy
    for i, rq in enumerate(scn["ops"]):
        for key, val in (("strobe", 1), ("gap", 0), ("scramble_controls", 0), ("misaligned", 0), ("phy_delay", 0),
                         ("first_delay", 0), ("rwds_valid_delay", 0)):
            if rq.get(key) not in (None, val):
                cand = copy.deepcopy(scn)
                cand["ops"][i][key] = val
                yield cand
        if rq.get("pauses"):
            cand = copy.deepcopy(scn)
            del cand["ops"][i]["pauses"]
            yield cand
