"""
C57 -- the USB serial (CDC-ACM) device carries bytes both ways and answers CDC requests.

DUT: luna.gateware.usb.devices.acm.USBSerialDevice(bus=UTMIInterface()) -- the complete ready-made device (12 MHz
full-speed timing, i.e. variant V1; the class builds its USBDevice internally, so V2 is not reachable without a
repository change).  A legal host enumerates it in a randomised standard order, sends SET_LINE_CODING and other class /
vendor / reserved requests, and moves bulk data both ways with lost handshakes, duplicate OUTs and NAK retries while the
rx consumer applies back-pressure, the tx producer has gaps and the PHY stalls tx_ready.
Reference: descriptors come from the device's own create_descriptors() (usb_protocol emitters), sliced here.
"""

import hashlib
import random

from dsim.kernel import make_bench, cached_bench, Violations
from models.usb2_wire import gen_idle_data
from models import usb2
from models.usb2 import UTMIHost, token_packet, data_packet, sof_packet, handshake_packet

PROPERTY = "C57"
ENGINE = "usb2_device"
CLOCK_HZ = 12e6
RULES = {
    "C57.enumerates": "GET_DESCRIPTOR returns exactly min(wLength, len) bytes of the requested descriptor in <=64-byte DATA1/DATA0.. "
                      "packets and its status stage is ACKed; SET_ADDRESS / SET_CONFIGURATION complete with a DATA1 ZLP and the device "
                      "answers at the new address afterwards",
    "C57.line_coding": "SET_LINE_CODING: SETUP ACKed, the 7-byte data stage ACKed, status stage answered with a DATA1 ZLP",
    "C57.stall_others": "every other class request and every vendor / reserved-type request ends with a STALL and never completes",
    "C57.host_to_device": "the rx stream carries exactly the payload bytes of the bulk OUT packets the device ACKed (duplicates once), in order",
    "C57.device_to_host": "the host's reassembled bulk IN bytes equal the bytes the tx stream accepted, in order, and all of them arrive "
                          "once the producer has finished and the host keeps polling",
}
PROBES = ["control_transfers", "multi_packet_descriptor", "set_address_done", "line_coding_done", "stalled_requests", "stall_out_data_request",
          "bulk_out_acked", "bulk_out_naked", "bulk_out_duplicate", "bulk_in_packets", "bulk_in_zlp", "bulk_in_retransmitted",
          "rx_backpressure_cycles", "tx_gap_cycles", "tx_stalled_packets", "status_ep_naks",
          "clear_halt_in_pipe", "clear_halt_out_pipe", "clear_halt_other_pipe", "clear_halt_skipped_in_doubt",
          "endpoint_descriptors_checked"]
META = {
    "components_real": ["USBSerialDevice", "ACMRequestHandlers", "StallOnlyRequestHandler", "USBDevice", "USBControlEndpoint",
                        "StandardRequestHandler", "GetDescriptorHandlerBlock", "USBStreamInEndpoint / USBInTransferManager",
                        "USBStreamOutEndpoint / TransactionalizedFIFO", "all USB2 packet-level gateware"],
    "components_stubbed": ["UTMI PHY + host (models.usb2.UTMIHost)", "rx stream consumer / tx stream producer with literal patterns"],
    "assumptions": ["legal host; no corruption; no bus reset; handshakes are lost only in bulk traffic and GET_DESCRIPTOR data stages",
                    "a request 'is STALLed' if any stage of it is answered with STALL and no stage after that succeeds",
                    "the tx producer ends every message with `last` (so nothing is left waiting for a full packet)",
                    "reference descriptors are taken from USBSerialDevice.create_descriptors() (usb_protocol library) and sliced independently"],
    "rule": "enumeration requests in random order (always SET_ADDRESS and SET_CONFIGURATION among them), SET_LINE_CODING, other "
            "class/vendor/reserved requests with no / IN / OUT data stage, 4-20 bulk OUT packets and bulk IN polls interleaved; "
            "faults lost_handshake (ack lost / data lost), duplicate_out, backpressure, producer_gap, txready_stall; max packet size "
            "fixed per group of 8 scenario indices",
}
TIERS = {"quick": {"runs": 600, "wall": 70}, "thorough": {"runs": 5000, "wall": 900}}

STATUS_EP, DATA_EP = 3, 4


def _mps(index):
    return random.Random((index // 8 * 7919 + 1) % (1 << 32)).choice([8, 16, 64, 64])


def _s(bm, req, val, idx, ln):
    return bytes([bm, req, val & 0xFF, val >> 8, idx & 0xFF, idx >> 8, ln & 0xFF, ln >> 8])


def gen(rng, tier, index):
    mps = _mps(index)

    def pattern(scale, styles):
        style = rng.choice(styles)
        if style == "always":
            return [[50, 1]]
        segs = [[rng.randint(1, scale), rng.choice([0, 0, 1, 1, 2, 3])] for _ in range(rng.randint(2, 7))]
        if all(m == 0 for _, m in segs):
            segs.append([rng.randint(1, scale), rng.choice([1, 2, 3])])
        return segs

    def heavy(scale):
        segs = []
        for _ in range(rng.randint(1, 4)):
            segs.append([rng.randint(4 * scale, 20 * scale), 0])
            segs.append([rng.randint(1, 2 * scale), rng.choice([1, 1, 2])])
        return segs

    fault_free = rng.random() < 0.15
    cfg = {
        "mps": mps,
        "byte_period": rng.choice([1, 1, 2, 3]),
        "pre": rng.choice([1, 1, 2]),
        "post": rng.choice([0, 0, 1]),
        "txready": rng.choice(["always", "always", ["every", 2], ["every", 3],
                               ["list", [rng.getrandbits(1) | (i == 0) for i in range(rng.choice([3, 5, 7]))]]]),
        "rx_ready": (heavy(mps) if (not fault_free and rng.random() < 0.35) else
                     pattern(4 * mps, ["always", "mixed", "mixed"] if not fault_free else ["always"])),
        "tx_valid": pattern(3 * mps, ["always", "mixed", "mixed"]),
        "tx_msgs": [rng.choice([1, 2, mps - 1, mps, mps + 1, 2 * mps, rng.randint(1, 3 * mps)]) for _ in range(rng.randint(1, 5))],
        "hs_gap": 2 + rng.choice([0, 0, 1, 3]),
        "gap": 3 + rng.choice([0, 0, 2, 6]),
    }
    p_lost = 0.0 if fault_free else rng.choice([0.05, 0.15, 0.3])
    addr = rng.randint(1, 127)
    enum = [{"op": "control", "setup": _s(0x80, 6, 0x0100, 0, rng.choice([8, 18, 64])).hex()},
            {"op": "control", "setup": _s(0x00, 5, addr, 0, 0).hex()},
            {"op": "control", "setup": _s(0x80, 6, 0x0100, 0, 18).hex()},
            {"op": "control", "setup": _s(0x80, 6, 0x0200, 0, 9).hex()},
            {"op": "control", "setup": _s(0x80, 6, 0x0200, 0, rng.choice([71, 255, 64, 65, 75])).hex()},
            {"op": "control", "setup": _s(0x80, 6, 0x0300, 0, 255).hex()},
            {"op": "control", "setup": _s(0x80, 6, 0x0300 | rng.randint(1, 3), 0x0409, rng.choice([2, 255, 4])).hex()},
            {"op": "control", "setup": _s(0x00, 9, 1, 0, 0).hex()}]
    if rng.random() < 0.7:
        rng.shuffle(enum)
    enum = [e for e in enum if rng.random() < 0.8 or e["setup"][2:4] in ("05", "09")]
    others = []
    for _ in range(rng.randint(1, 5)):
        k = rng.choice(["line_coding", "line_coding", "class_nodata", "class_in", "class_out", "vendor_nodata", "vendor_in", "vendor_out", "reserved",
                        "clear_halt", "clear_halt"])
        if k == "clear_halt":
            # standard CLEAR_FEATURE(ENDPOINT_HALT) naming one of the serial device's pipes (or one it does not have): the host
            # restarts that pipe's data toggle, the other direction of the same endpoint number must be unaffected
            others.append({"op": "control", "setup": _s(0x02, 1, 0, rng.choice([0x80 | DATA_EP, 0x80 | DATA_EP, DATA_EP, DATA_EP, 0x80 | STATUS_EP, 0x01]), 0).hex(),
                           "clear_halt": True})
        elif k == "line_coding":
            others.append({"op": "control", "setup": _s(0x21, 0x20, 0, 0, 7).hex(), "out": bytes(rng.getrandbits(8) for _ in range(7)).hex()})
        elif k == "class_nodata":
            others.append({"op": "control", "setup": _s(0x21, rng.choice([0x22, 0x23, 0x00, 0x21, 0xFF]), rng.getrandbits(16), 0, 0).hex()})
        elif k == "class_in":
            others.append({"op": "control", "setup": _s(0xA1, rng.choice([0x21, 0x20, 0x01]), 0, 0, rng.choice([7, 1, 64])).hex()})
        elif k == "class_out":
            n = rng.choice([1, 7, 8])
            others.append({"op": "control", "setup": _s(0x21, rng.choice([0x21, 0x22, 0x00]), 0, 0, n).hex(),
                           "out": bytes(rng.getrandbits(8) for _ in range(n)).hex()})
        elif k == "vendor_nodata":
            others.append({"op": "control", "setup": _s(rng.choice([0x40, 0x41, 0xC0]), rng.getrandbits(8), rng.getrandbits(16), 0, 0).hex()})
        elif k == "vendor_in":
            others.append({"op": "control", "setup": _s(0xC0, rng.getrandbits(8), rng.getrandbits(16), 0, rng.choice([1, 8, 64, 200])).hex()})
        elif k == "vendor_out":
            n = rng.choice([1, 8])
            others.append({"op": "control", "setup": _s(0x40, rng.choice([0x20, rng.getrandbits(8)]), 0, 0, n).hex(),
                           "out": bytes(rng.getrandbits(8) for _ in range(n)).hex()})
        else:
            others.append({"op": "control", "setup": _s(rng.choice([0x60, 0xE0, 0x61]), rng.choice([0x20, 6, rng.getrandbits(8)]), 0, 0, 0).hex()})
    bulk = []
    seq = 0
    for _ in range(rng.randint(4, 12 if tier == "quick" else 20)):
        r = rng.random()
        if r < 0.45:
            n = rng.choice([1, mps, mps, mps - 1, rng.randint(0, mps), rng.randint(1, mps)])
            data = bytes((seq + i) & 0xFF for i in range(n))
            seq = (seq + n) & 0xFF
            bulk.append({"op": "bulk_out", "data": data.hex(), "retries": rng.choice([0, 1, 2, 4]),
                         "duplicate": (not fault_free) and rng.random() < 0.15})
        elif r < 0.9:
            lose = None
            if rng.random() < p_lost:
                lose = rng.choice(["ack_lost", "data_lost"])
            bulk.append({"op": "bulk_in", "lose": lose, "retries": rng.choice([0, 1, 3])})
        elif r < 0.95:
            bulk.append({"op": "poll_status"})
        else:
            bulk.append({"op": "idle", "n": rng.randint(5, 200)})
    # interleave: enumeration keeps its order; class requests and bulk traffic are merged in at random positions (bulk mostly later)
    ops = list(enum)
    for o in others:
        ops.insert(rng.randint(0, len(ops)), o)
    for o in bulk:
        ops.insert(rng.randint(len(ops) // 2 if rng.random() < 0.7 else 0, len(ops)), o)
    for o in ops:
        if o["op"] == "control" and o["setup"].startswith("8006") and rng.random() < p_lost:
            o["lose_data"] = [rng.randint(0, 2)]
    cfg["idle_data"] = gen_idle_data(rng)
    return {"engine": ENGINE, "config": cfg, "ops": ops}


# ------------------------------------------------------------------------------------------------
def _bench(mps):
    def factory():
        from luna.gateware.interface.utmi import UTMIInterface
        from luna.full_devices import USBSerialDevice          # the documented import shortcut (luna/full_devices.py)
        utmi = UTMIInterface()
        dev = USBSerialDevice(bus=utmi, idVendor=0x16d0, idProduct=0x0f3b, max_packet_size=mps)
        ins = {n: getattr(utmi, n) for n in ["rx_data", "rx_active", "rx_valid", "tx_ready", "line_state", "session_end", "vbus_valid"]}
        ins.update(connect=dev.connect, tx_valid_s=dev.tx.valid, tx_payload=dev.tx.payload, tx_first=dev.tx.first, tx_last=dev.tx.last,
                   rx_ready_s=dev.rx.ready)
        outs = {"tx_data": utmi.tx_data, "tx_valid": utmi.tx_valid, "tx_ready_s": dev.tx.ready, "rx_valid_s": dev.rx.valid,
                "rx_payload": dev.rx.payload, "rx_first": dev.rx.first, "rx_last": dev.rx.last}
        b = make_bench(dev, clocks={"usb": 1 / 12e6}, main="usb", ins=ins, outs=outs)
        b.descriptors = {(int(t), int(i)): bytes(raw) for t, i, raw in dev.create_descriptors()}
        return b
    return cached_bench(("c57", mps), factory)


def _pat_bit(segs, total, t):
    x = t % total
    for n, mode in segs:
        if x < n:
            return 0 if mode == 0 else (1 if mode == 1 else (1 if x % mode == 0 else 0))
        x -= n
    return 0


class _Streams:
    def __init__(self, cfg):
        self.rxp, self.txp = cfg["rx_ready"], cfg["tx_valid"]
        self.rxt, self.txt = sum(s[0] for s in self.rxp), sum(s[0] for s in self.txp)
        self.msgs = list(cfg["tx_msgs"])
        self.total = sum(self.msgs)
        self.bounds = set()
        acc = 0
        for n in self.msgs:
            acc += n
            self.bounds.add(acc)
        self.sent = 0               # bytes accepted by the device's tx stream
        self.accepted = bytearray()
        self.valid = 0
        self.holding = False
        self.rx_bytes = bytearray()
        self.rx_times = []
        self.drain = False
        self.enabled = False        # producer starts when the host script says so
        self.backpressure = 0
        self.gaps = 0
        self._ready = 0

    @staticmethod
    def byte(n):
        return 1 + (n * 7) % 251

    def drive(self, t):
        if self.sent >= self.total or not self.enabled:
            self.valid = 0
        else:
            self.valid = 1 if self.holding else _pat_bit(self.txp, self.txt, t)
        self._ready = 1 if self.drain else _pat_bit(self.rxp, self.rxt, t)
        first = 1 if (self.sent == 0 or self.sent in self.bounds) else 0
        last = 1 if (self.sent + 1) in self.bounds else 0
        return {"tx_valid_s": self.valid, "tx_payload": self.byte(self.sent), "tx_first": first, "tx_last": last,
                "rx_ready_s": self._ready}

    def observe(self, t, o):
        if self.valid:
            if o["tx_ready_s"]:
                self.accepted.append(self.byte(self.sent))
                self.sent += 1
                self.holding = False
            else:
                self.holding = True
        elif self.enabled and self.sent < self.total and o["tx_ready_s"]:
            self.gaps += 1
        if o["rx_valid_s"]:
            if self._ready:
                self.rx_bytes.append(o["rx_payload"])
                self.rx_times.append(t)
            else:
                self.backpressure += 1


def run(scn):
    cfg = scn["config"]
    mps = cfg["mps"]
    bench = _bench(mps)
    desc = bench.descriptors
    init = {"connect": 1, "line_state": 0b01, "session_end": 0, "vbus_valid": 1, "tx_ready": 1}
    timeout = 22
    ops = scn["ops"]
    viol = Violations()
    probes = {p: 0 for p in PROBES}
    faults = {}
    st = {"addr": 0, "out_toggle": 0, "in_toggle": 0, "in_doubt": False}
    streams = _Streams(cfg)
    controls = []          # records of control transfers
    out_log = []           # (payload, acked, duplicate)
    in_bytes = bytearray() # host's reassembly of bulk IN
    shape = {"variant": "V1"}
    gap, hs_gap = cfg["gap"], cfg["hs_gap"]

    def fault(k):
        faults[k] = faults.get(k, 0) + 1

    def script(h):
        def ask_in(ep, naks):
            """ IN token (repeated while NAKed, at most `naks` extra times) -> (kind, payload, packet) """
            for _ in range(naks + 1):
                yield from h.send(token_packet("IN", st["addr"], ep), info="in")
                r = yield from h.recv(timeout)
                if r is None:
                    yield from h.idle(gap)
                    return ("none", None, None)
                kind, payload = usb2.classify_tx(r["data"])
                if kind != "NAK":
                    return (kind, payload, r)
                yield from h.idle(gap)
            return ("NAK", None, None)

        def ack():
            yield from h.idle(hs_gap)
            yield from h.send(handshake_packet("ACK"), info="ack")
            yield from h.idle(gap)

        def send_out(tok, ep, dpid, payload, retries):
            for _ in range(retries + 1):
                yield from h.send(token_packet(tok, st["addr"], ep), info="tok")
                yield from h.idle(2)
                yield from h.send(data_packet(dpid, payload), info="data")
                r = yield from h.recv(timeout)
                yield from h.idle(gap)
                kind = "none" if r is None else usb2.classify_tx(r["data"])[0]
                if kind != "NAK":
                    return kind
                yield from h.idle(3 * mps)
            return "NAK"

        def bulk_in(op):
            kind, payload, r = yield from ask_in(DATA_EP, op.get("retries", 0))
            if kind not in ("DATA0", "DATA1"):
                if kind not in ("NAK",):
                    in_events.append(("bad", kind, h.t))
                return kind
            probes["bulk_in_packets"] += 1
            if r["stalls"]:
                probes["tx_stalled_packets"] += 1
            if len(payload) == 0:
                probes["bulk_in_zlp"] += 1
            lose = op.get("lose")
            expected = f"DATA{st['in_toggle']}"
            if lose == "data_lost":
                fault("lost_handshake")
                yield from h.idle(gap + hs_gap)
                return kind
            if kind == expected:
                in_bytes.extend(payload)
                st["in_toggle"] ^= 1
            else:
                probes["bulk_in_retransmitted"] += 1
            if lose == "ack_lost":
                fault("lost_handshake")
                st["in_doubt"] = True
                yield from h.idle(gap + hs_gap)
            else:
                yield from ack()
                st["in_doubt"] = False
            return kind

        yield from h.idle(4)
        streams.enabled = True
        for op in ops:
            k = op["op"]
            if k == "idle":
                yield from h.idle(op["n"])
            elif k == "poll_status":
                kind, _, _ = yield from ask_in(STATUS_EP, 0)
                if kind == "NAK":
                    probes["status_ep_naks"] += 1
                elif kind in ("DATA0", "DATA1"):
                    yield from ack()
            elif k == "bulk_in":
                yield from bulk_in(op)
            elif k == "bulk_out":
                payload = bytes.fromhex(op["data"])
                kind = yield from send_out("OUT", DATA_EP, f"DATA{st['out_toggle']}", payload, op["retries"])
                out_log.append({"payload": payload, "result": kind, "dup": False, "t": h.t})
                if kind == "ACK":
                    probes["bulk_out_acked"] += 1
                    if op.get("duplicate"):
                        fault("duplicate_out")
                        probes["bulk_out_duplicate"] += 1
                        k2 = yield from send_out("OUT", DATA_EP, f"DATA{st['out_toggle']}", payload, 0)
                        out_log.append({"payload": payload, "result": k2, "dup": True, "t": h.t})
                    st["out_toggle"] ^= 1
                elif kind == "NAK":
                    probes["bulk_out_naked"] += 1
            elif k == "control":
                setup = bytes.fromhex(op["setup"])
                if op.get("clear_halt") and setup[4] == (0x80 | DATA_EP) and st["in_doubt"]:
                    # a host does not reset a pipe while a transaction on it is in doubt (its ACK was lost): the device would
                    # legitimately repeat that packet with the restarted toggle
                    probes["clear_halt_skipped_in_doubt"] += 1
                    continue
                out = bytes.fromhex(op.get("out", ""))
                wlen = setup[6] | (setup[7] << 8)
                dir_in = bool(setup[0] & 0x80)
                rec = {"setup": setup, "t": h.t, "setup_ack": None, "data": b"", "pids": [], "data_stage": None, "status": None,
                       "stalled": False, "lens": [], "addr_before": st["addr"]}
                controls.append(rec)
                probes["control_transfers"] += 1
                rec["setup_ack"] = yield from send_out("SETUP", 0, "DATA0", setup, 0)
                if rec["setup_ack"] != "ACK":
                    continue
                if wlen and dir_in:
                    toggle = 1
                    npk = 0
                    lose = list(op.get("lose_data", []))
                    while True:
                        kind, payload, r = yield from ask_in(0, 4)
                        if kind not in usb2.DATA_PIDS:
                            rec["data_stage"] = kind
                            rec["stalled"] = kind == "STALL"
                            break
                        if npk in lose:
                            lose.remove(npk)
                            fault("lost_handshake")
                            yield from h.idle(gap + hs_gap)
                            continue                           # data did not reach the host: ask again
                        yield from ack()
                        if kind == f"DATA{toggle}":
                            rec["data"] += payload
                            rec["pids"].append(kind)
                            rec["lens"].append(len(payload))
                            toggle ^= 1
                            npk += 1
                            if len(payload) < 64 or len(rec["data"]) >= wlen or npk > 8:
                                rec["data_stage"] = "done"
                                break
                        else:
                            rec["pids"].append("dup:" + kind)
                    if rec["data_stage"] == "done":
                        rec["status"] = yield from send_out("OUT", 0, "DATA1", b"", 3)
                        rec["stalled"] = rec["status"] == "STALL"
                else:
                    if wlen:
                        rec["data_stage"] = yield from send_out("OUT", 0, "DATA1", out[:wlen], 2)
                        if rec["data_stage"] == "STALL":
                            rec["stalled"] = True
                            continue
                    kind, payload, r = yield from ask_in(0, 4)
                    rec["status"] = kind if kind not in usb2.DATA_PIDS else (kind, len(payload))
                    if kind in usb2.DATA_PIDS:
                        yield from ack()
                        if setup[0] == 0x00 and setup[1] == 5:
                            st["addr"] = setup[2] & 0x7F
                            rec["addr_after"] = st["addr"]
                        if op.get("clear_halt") and kind == "DATA1" and len(payload) == 0:
                            # the request completed: the host restarts the data toggle of the pipe it named
                            if setup[4] == (0x80 | DATA_EP):
                                st["in_toggle"] = 0
                                probes["clear_halt_in_pipe"] += 1
                            elif setup[4] == DATA_EP:
                                st["out_toggle"] = 0
                                probes["clear_halt_out_pipe"] += 1
                            else:
                                probes["clear_halt_other_pipe"] += 1
                    rec["stalled"] = kind == "STALL"
            else:
                raise ValueError(k)
        # ---- drain both directions ----
        streams.drain = True
        quiet = 0                  # consecutive NAKs seen for IN tokens sent after the producer had finished
        deadline = h.t + drain_budget
        while quiet < 3 and h.t < deadline:
            finished = streams.sent >= streams.total
            kind = yield from bulk_in({"retries": 0})
            quiet = quiet + 1 if (kind == "NAK" and finished) else 0
            if kind == "none":
                break
            yield from h.idle(2 * mps)
        yield from h.idle(3 * mps + 20)

    in_events = []
    # time the producer needs at most to offer all its bytes (its pattern has `active` valid cycles per period) while the
    # host drains: generous factor 3 plus one poll round trip per packet
    period = sum(n for n, _ in cfg["tx_valid"])
    active = sum(_pat_bit(cfg["tx_valid"], period, t) for t in range(period))
    if active == 0:
        raise RuntimeError("scenario error: tx_valid pattern is never valid")
    total_tx = sum(cfg["tx_msgs"])
    drain_budget = 3 * total_tx * (-(-period // active) + 2) + (total_tx // mps + len(cfg["tx_msgs"]) + 8) * (12 * mps + 200) + 500
    host = UTMIHost(script, idle_data=cfg.get("idle_data"), byte_period=cfg["byte_period"], pre=cfg["pre"], post=cfg["post"],
                    txready=(cfg["txready"] if cfg["txready"] == "always" else tuple(cfg["txready"])))
    per = (80 + 16) * 6 + 4 * timeout + 100 + 3 * mps
    max_cycles = 3000 + sum(op.get("n", 0) + per * (10 if op["op"] == "control" else 6) for op in ops) + drain_budget + 4 * per
    log = bench.run([host, streams], max_cycles, init=init)
    if not host._done:
        raise RuntimeError("host script did not finish within the cycle cap")
    if host.tx_during_rx:
        raise RuntimeError("harness: device transmitted while the host was sending (host model not legal here)")
    probes["rx_backpressure_cycles"] = streams.backpressure
    probes["tx_gap_cycles"] = streams.gaps
    if cfg["txready"] != "always":
        fault("txready_stall")
    if streams.backpressure:
        fault("backpressure")
    if streams.gaps:
        fault("producer_gap")

    # ---- oracle -----------------------------------------------------------------------------------------------------
    outcomes = set()
    for rec in controls:
        if viol:
            break
        s = rec["setup"]
        bm, req = s[0], s[1]
        val, idx, wlen = s[2] | (s[3] << 8), s[4] | (s[5] << 8), s[6] | (s[7] << 8)
        rtype = (bm >> 5) & 3
        ctx = f"control request {s.hex()} sent at cycle {rec['t']}"
        t = rec["t"]
        if rtype == 0 and req == 6 and bm == 0x80:
            outcomes.add("get_descriptor")
            full = desc.get((val >> 8, val & 0xFF))
            if full is None:
                continue
            want = full[:wlen]
            if rec["setup_ack"] != "ACK" or rec["data_stage"] != "done" or rec["data"] != want:
                viol.add("C57.enumerates", t, f"{ctx}: setup {rec['setup_ack']}, data stage {rec['data_stage']}, got {len(rec['data'])} "
                         f"byte(s) {rec['data'].hex()} in packets {rec['lens']} {rec['pids']}, expected {len(want)} byte(s) {want.hex()}",
                         kind="descriptor_data", request="GET_DESCRIPTOR", **shape)
                break
            want_lens = [min(64, len(want) - o) for o in range(0, len(want), 64)] or [0]
            if len(want) % 64 == 0 and len(want) < wlen and len(want) > 0:
                want_lens.append(0)
            if rec["lens"] != want_lens:
                viol.add("C57.enumerates", t, f"{ctx}: packet lengths {rec['lens']}, expected {want_lens}", kind="descriptor_packets",
                         request="GET_DESCRIPTOR", **shape)
                break
            if rec["status"] != "ACK":
                viol.add("C57.enumerates", t, f"{ctx}: status stage (OUT ZLP) answered {rec['status']}, expected ACK", kind="status",
                         request="GET_DESCRIPTOR", **shape)
                break
            if len(rec["lens"]) > 1:
                probes["multi_packet_descriptor"] += 1
        elif rtype == 0 and bm == 0x00 and req in (5, 9):
            name = "SET_ADDRESS" if req == 5 else "SET_CONFIGURATION"
            outcomes.add(name)
            if rec["setup_ack"] != "ACK" or rec["status"] != ("DATA1", 0):
                viol.add("C57.enumerates", t, f"{ctx} ({name}): setup {rec['setup_ack']}, status stage answered {rec['status']}, expected "
                         f"a DATA1 zero-length packet", kind="status", request=name, **shape)
                break
            if req == 5:
                probes["set_address_done"] += 1
        elif rtype == 1 and bm == 0x21 and req == 0x20 and wlen == 7:
            outcomes.add("line_coding")
            if rec["setup_ack"] != "ACK" or rec["data_stage"] != "ACK" or rec["status"] != ("DATA1", 0):
                viol.add("C57.line_coding", t, f"{ctx} (SET_LINE_CODING): setup {rec['setup_ack']}, data stage {rec['data_stage']}, status "
                         f"{rec['status']}; expected ACK, ACK, DATA1 ZLP", kind="line_coding", request="SET_LINE_CODING", **shape)
                break
            probes["line_coding_done"] += 1
        elif rtype in (1, 2, 3):
            outcomes.add("stall")
            completed = (isinstance(rec["status"], tuple)) or (rec["data_stage"] == "done")
            if rec["setup_ack"] != "ACK" or not rec["stalled"] or completed:
                viol.add("C57.stall_others", t, f"{ctx} (type {['standard', 'class', 'vendor', 'reserved'][rtype]}): setup {rec['setup_ack']}, "
                         f"data stage {rec['data_stage']} ({len(rec['data'])} bytes), status {rec['status']}; expected a STALL",
                         kind="not_stalled", request=["standard", "class", "vendor", "reserved"][rtype],
                         stage="in" if (wlen and bm & 0x80) else ("out" if wlen else "nodata"), **shape)
                break
            probes["stalled_requests"] += 1
            if wlen and not (bm & 0x80):
                probes["stall_out_data_request"] += 1
    if not viol:
        # what the host learns from the configuration descriptor it read must describe the data pipes it is then expected to
        # use: a host sends OUT packets of up to the advertised wMaxPacketSize, and takes a shorter IN packet as the end of a
        # transfer -- both bulk endpoints must advertise the packet size the device was built with (constructor parameter)
        for rec in controls:
            s_ = rec["setup"]
            if s_[0] == 0x80 and s_[1] == 6 and s_[3] == 2 and rec["data_stage"] == "done" and len(rec["data"]) > 9:
                raw = rec["data"]
                total = raw[2] | (raw[3] << 8)
                if len(raw) < total:
                    continue
                o = 0
                while o + 2 <= len(raw) and raw[o] >= 2:
                    if raw[o + 1] == 5 and o + 6 <= len(raw) and (raw[o + 2] & 0x0F) == DATA_EP and (raw[o + 3] & 3) == 2:
                        adv = raw[o + 4] | (raw[o + 5] << 8)
                        probes["endpoint_descriptors_checked"] += 1
                        if adv != mps:
                            viol.add("C57.enumerates", rec["t"], f"configuration descriptor: bulk endpoint {raw[o + 2]:#04x} advertises "
                                     f"wMaxPacketSize {adv}, the device was built with max_packet_size={mps}", kind="endpoint_packet_size",
                                     request="GET_DESCRIPTOR", **shape)
                            break
                    o += raw[o]
            if viol:
                break
    if not viol:
        for kind_, what, t in in_events:
            viol.add("C57.device_to_host", t, f"bulk IN token answered with {what}", kind="bad_answer", **shape)
            break
    if not viol and cfg["rx_ready"] == [[50, 1]]:
        # the consumer never applies back-pressure in this run: there is no reason to refuse a bulk OUT packet
        for o in out_log:
            if o["result"] != "ACK":
                viol.add("C57.host_to_device", o["t"], f"bulk OUT packet of {len(o['payload'])} byte(s) answered {o['result']} although the "
                         f"rx consumer is always ready (mps {mps})", kind="not_accepted", **shape)
                break
    if not viol:
        expect_rx = b"".join(o["payload"] for o in out_log if o["result"] == "ACK" and not o["dup"])
        got = bytes(streams.rx_bytes)
        if got != expect_rx:
            n = next((i for i in range(min(len(got), len(expect_rx))) if got[i] != expect_rx[i]), min(len(got), len(expect_rx)))
            tt = streams.rx_times[n] if n < len(streams.rx_times) else log.cycles
            kind = "missing_bytes" if len(got) < len(expect_rx) and expect_rx.startswith(got) else \
                   ("extra_bytes" if len(got) > len(expect_rx) and got.startswith(expect_rx) else "wrong_bytes")
            viol.add("C57.host_to_device", tt, f"rx stream delivered {len(got)} byte(s), the device ACKed {len(expect_rx)} byte(s) in "
                     f"{sum(1 for o in out_log if o['result'] == 'ACK' and not o['dup'])} OUT packets; first difference at offset {n}: "
                     f"got {got[n:n + 8].hex()} expected {expect_rx[n:n + 8].hex()}; OUT results {[o['result'] + ('(dup)' if o['dup'] else '') for o in out_log]}",
                     kind=kind, **shape)
    if not viol:
        acc = bytes(streams.accepted)
        got = bytes(in_bytes)
        if not acc.startswith(got):
            n = next((i for i in range(min(len(got), len(acc))) if got[i] != acc[i]), min(len(got), len(acc)))
            viol.add("C57.device_to_host", log.cycles, f"host reassembled {len(got)} byte(s) but the tx stream accepted {len(acc)}; first "
                     f"difference at offset {n}: got {got[n:n + 8].hex()} expected {acc[n:n + 8].hex()}", kind="wrong_bytes", **shape)
        elif streams.sent >= streams.total and len(got) < len(acc):
            viol.add("C57.device_to_host", log.cycles, f"the producer finished ({len(acc)} bytes, every message ended with last) but only "
                     f"{len(got)} byte(s) reached the host although it kept polling until 3 NAKs in a row", kind="bytes_stuck", **shape)
        elif streams.sent < streams.total:
            viol.add("C57.device_to_host", log.cycles, f"the tx stream accepted only {streams.sent} of {streams.total} offered byte(s) although "
                     f"the host kept polling", kind="producer_starved", **shape)

    sig = hashlib.blake2b(repr((mps, sorted(log.fsm_vectors), sorted(faults), sorted(outcomes))).encode(), digest_size=8).hexdigest()
    nontrivial = len(controls) >= 3 and probes["bulk_out_acked"] + probes["bulk_in_packets"] >= 2
    return {"violations": viol.items, "cycles": log.cycles, "faults": faults, "probes": probes, "sig": sig,
            "nontrivial": nontrivial, "digest": log.digest, "fsm": len(log.fsm_vectors)}
