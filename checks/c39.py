"""
C39 -- header transmission respects credits and retransmits unacknowledged headers.

DUT: PacketTransmitter (real; with its RawPacketTransmitter and LinkCommandDetector), buffer_count 4.
Actors:
 * protocol layer: offers headers on `queue` (valid held until ready; literal gaps); data headers are zero-length
   (data_sink idle) -- payload framing is C36's business;
 * link partner (SSPartner): advertises LGOOD_n and LCRD credits, then reacts to every header it receives with a literal
   reaction from the scenario: LGOOD (+LCRD) after a delay, a late LGOOD / late credit (withhold_*), LBAD (it then ignores
   headers until our LRTY went out and expects the retransmission), or an LGOOD with a wrong number (ends the history
   with an LBAD so that non-retirement becomes visible);
 * HeaderPacketReceiver stub: `lrty_pending` rises the cycle after `retry_required` and falls when the LRTY "was sent"
   (literal length);
 * PHY-side ready pattern.
Oracle: reference model over the handshakes and the segmented transmit stream (models.usb3_link).
"""

import hashlib

from dsim.kernel import make_bench, cached_bench, Violations
from models import usb3_link as L

PROPERTY = "C39"
ENGINE = "usb3_link"
CLOCK_HZ = 125e6
RULES = {
    "C39.credit": "a header is accepted from the protocol layer / first transmitted only while the partner has advertised an unused credit (and after its advertisement)",
    "C39.sequence": "first transmissions carry consecutive sequence numbers starting at the partner's advertised number + 1, in queue order, unchanged content, valid CRCs",
    "C39.retire_on_matching_lgood": "only an LGOOD carrying a header's sequence number retires it (after a mismatching LGOOD the header is still retransmitted on LBAD)",
    "C39.retransmit_after_lbad": "after an LBAD every unacknowledged header is retransmitted in order, same number and content, DL set, before any new header",
    "C39.progress": "accepted headers are transmitted, and retransmissions happen, within a bound once the PHY is ready and LRTY went out",
    "C39.wire": "the transmit stream consists of well-formed header packets (and zero-length / aborted DPPs after data headers) only",
}
PROBES = ["new_header_sent_with_dl", "new_data_header_payload_aborted", "headers_transmitted", "retransmissions", "lbad_while_idle", "lbad_while_transmitting", "lbad_during_retransmission", "credit_starved",
          "all_credits_in_use", "late_lgood", "wrong_lgood", "data_headers", "unsent_header_at_lbad", "seq_wrapped", "recovery_required_seen",
          "lbad_with_unacked_ge2"]
META = {
    "components_real": ["PacketTransmitter", "RawPacketTransmitter", "LinkCommandDetector", "HeaderPacketCRC", "DataPacketPayloadCRC", "compute_usb_crc5"],
    "components_stubbed": ["protocol layer (header queue producer)", "link partner (SSPartner: link commands on sink, consumes source)",
                           "HeaderPacketReceiver (lrty_pending handshake)", "PHY-side ready pattern"],
    "assumptions": ["the partner is legal: LCRD letters in order, never more than 4 credits outstanding, LGOODs in order of reception and before an LBAD, "
                    "after LBAD it ignores headers until LRTY and expects the retransmission",
                    "lrty_pending = 1 from the cycle after retry_required until the (stubbed) receiver has sent LRTY",
                    "a header accepted but not yet transmitted when an LBAD arrives may be sent with or without DL (the statement leaves it open)",
                    "the protocol layer never sets DL itself; data headers are zero-length",
                    "a mismatching LGOOD ends the checked history (the link would enter Recovery) after one LBAD that makes non-retirement visible"],
    "rule": "5-14 protocol headers per run, partner advertisement (random n, 1-4 initial credits), per-header reactions (ack / late ack / late credit / LBAD / "
            "wrong LGOOD) with literal delays, producer gaps, PHY ready patterns, LRTY length; distinct = FSM vectors + fault kinds + probes",
}
TIERS = {"quick": {"runs": 1200, "wall": 70}, "thorough": {"runs": 15000, "wall": 900}}

HDR_FIELDS = ["dw0", "dw1", "dw2", "crc16", "sequence_number", "dw3_reserved", "hub_depth", "delayed", "deferred", "crc5"]
WAIT_LIMIT = 300


def _pattern(rng):
    k = rng.choice(["always", "always", "half", "sparse", "rand"])
    if k == "always":
        return [1]
    if k == "half":
        return [1, 0]
    if k == "sparse":
        return [1] + [0] * rng.randint(2, 6)
    r = [int(rng.random() < rng.choice([0.5, 0.8])) for _ in range(rng.randint(5, 23))]
    r[0] = 1
    return r


def gen(rng, tier, index):
    n = rng.randint(5, 10 if tier == "quick" else 14)
    fault_free = rng.random() < 0.15
    ops = []
    for i in range(n):
        t = rng.choice([L.HP_TYPE_LINK_MANAGEMENT, L.HP_TYPE_TRANSACTION, L.HP_TYPE_TRANSACTION, L.HP_TYPE_TRANSACTION, L.HP_TYPE_DATA, L.HP_TYPE_ITP])
        dw1 = rng.getrandbits(32)
        if t == L.HP_TYPE_DATA:
            dw1 &= 0xFFFF
        ops.append({"op": "hdr", "dw0": t | (rng.getrandbits(27) << 5), "dw1": dw1, "dw2": rng.getrandbits(32), "hub": rng.choice([0, 0, rng.getrandbits(3)]),
                    "df": int(rng.random() < 0.1), "rsvd": rng.choice([0, 0, rng.getrandbits(3)]), "junk": rng.getrandbits(24),
                    "pgap": rng.choice([0, 0, 0, 1, 3, 10, 40])})
    reactions = []
    for j in range(n + 8):
        r = rng.random()
        if fault_free or r < 0.55:
            reactions.append({"r": "ack", "delay": rng.choice([0, 0, 1, 3, 8]), "cdelay": rng.choice([0, 0, 2, 6])})
        elif r < 0.67:
            reactions.append({"r": "ack", "delay": rng.choice([30, 60, 120]), "cdelay": 0, "late": 1})
        elif r < 0.77:
            reactions.append({"r": "ack", "delay": rng.choice([0, 2]), "cdelay": rng.choice([40, 100]), "late_credit": 1})
        elif r < 0.97:
            reactions.append({"r": "lbad", "delay": rng.choice([0, 0, 1, 3, 6, 12]), "lrty_len": rng.choice([1, 2, 4, 9, 20])})
        else:
            reactions.append({"r": "wrong_lgood", "delay": rng.choice([0, 2]), "delta": rng.randint(1, 7), "lrty_len": rng.choice([2, 5])})
    cfg = {"ready": _pattern(rng), "adv": rng.getrandbits(3), "initial_credits": rng.choice([4, 4, 4, 3, 2, 1]) if not fault_free else 4,
           "adv_gap": rng.choice([0, 1, 5]), "enable_at": rng.choice([1, 3]), "reactions": reactions}
    return {"engine": ENGINE, "config": cfg, "ops": ops}


# ------------------------------------------------------------------------------------------------
def _bench():
    def factory():
        from luna.gateware.usb.usb3.link.transmitter import PacketTransmitter
        dut = PacketTransmitter()
        ins = {"sink_valid": dut.sink.valid, "sink_data": dut.sink.data, "sink_ctrl": dut.sink.ctrl, "src_ready": dut.source.ready,
               "enable": dut.enable, "queue_valid": dut.queue.valid, "lrty_pending": dut.lrty_pending,
               "ds_valid": dut.data_sink.valid, "ds_data": dut.data_sink.data}
        for f in HDR_FIELDS:
            ins["q_" + f] = getattr(dut.queue.header, f)
        outs = {"src_valid": dut.source.valid, "src_data": dut.source.data, "src_ctrl": dut.source.ctrl, "queue_ready": dut.queue.ready,
                "bringup_complete": dut.bringup_complete, "retry_required": dut.retry_required, "retry_received": dut.retry_received,
                "recovery_required": dut.recovery_required, "link_command_received": dut.link_command_received,
                "credits_available": dut.credits_available, "packets_to_send": dut.packets_to_send}
        return make_bench(dut, clocks={"ss": 1 / 125e6}, main="ss", ins=ins, outs=outs)
    return cached_bench(("c39",), factory)


class Stop(Exception):
    pass


class _Partner(L.SSPartner):
    def __init__(self, scn, viol, probes, faults):
        cfg = scn["config"]
        super().__init__(ready=cfg["ready"], idle_valid=1)
        self.cfg, self.ops = cfg, scn["ops"]
        self.viol, self.probes, self.faults = viol, probes, faults
        self.adv = cfg["adv"]
        self.reactions = cfg["reactions"]
        # ---- protocol layer ----
        self.pi = 0                       # next header to offer
        self.pgap = None
        self.offering = False
        self.accepted = []                # (t, op index)
        # ---- partner ----
        self.started = False
        self.letter = 0
        self.credit_times = []            # cycle of every LCRD command word sent
        self.adv_time = None
        self.rx_count = 0                 # non-ignored headers received (index into reactions)
        self.rx_next = 0                  # index (in transmit order) of the next header the partner expects
        self.ignoring = False
        self.pending_acks = []            # [send_at_cycle, seq, idx, credit_at] in order
        self.pending_credits = []         # cycles at which to return a credit
        self.acked = 0                    # K: headers retired by a matching LGOOD that has been sent
        self.lrty_len = 2
        self.lrty_until = None
        self.lrty_pending = 0
        self.ended = False                # history ended (wrong LGOOD)
        self.final_lbad = None
        # ---- model ----
        self.first_sent = 0               # F: headers transmitted at least once
        self.lbad = None                  # latest LBAD: {"t": cmd word cycle, "K": acked at that time, "R": list or None, "pos": int}
        self.lbads = []
        self.last_retry_end = -1
        self.tx_log = []
        self.dead = False
        self.done = False
        self.quiet_since = None
        self.wait_ready = 0
        self.in_hdr = False
        self.wrong_lgood_at = None
        self.recovery_seen = []

    def hit(self, k):
        self.probes[k] = self.probes.get(k, 0) + 1

    def fault(self, k):
        self.faults[k] = self.faults.get(k, 0) + 1

    def fail(self, rule, t, msg, **shape):
        self.viol.add(rule, t, msg, **shape)
        self.dead = True
        raise Stop()

    # ------------------------------------------------------------------------------------------
    def expected_seq(self, idx):
        return (self.adv + 1 + idx) & 7

    def step(self, t):
        if self.dead:
            return
        p = {"enable": int(t >= self.cfg["enable_at"]), "ds_valid": 0, "ds_data": 0}
        # ---- lrty_pending handshake (stub of HeaderPacketReceiver) ----
        if self.lrty_until is not None and t >= self.lrty_until:
            self.lrty_pending = 0
            self.lrty_until = None
            self.ignoring = False          # our LRTY reached the partner: it listens again
        p["lrty_pending"] = self.lrty_pending
        # ---- protocol layer ----
        if self.offering:
            pass
        elif self.pi < len(self.ops) and not self.ended:
            if self.pgap is None:
                self.pgap = self.ops[self.pi]["pgap"]
            if self.pgap <= 0:
                self.offering = True
            else:
                self.pgap -= 1
        if self.offering:
            op = self.ops[self.pi]
            p.update({"queue_valid": 1, "q_dw0": op["dw0"], "q_dw1": op["dw1"], "q_dw2": op["dw2"], "q_hub_depth": op["hub"],
                      "q_deferred": op["df"], "q_dw3_reserved": op["rsvd"], "q_delayed": 0, "q_crc16": op["junk"] & 0xFFFF,
                      "q_sequence_number": (op["junk"] >> 16) & 7, "q_crc5": (op["junk"] >> 19) & 31})
        else:
            p["queue_valid"] = 0
        self.pins = p
        # ---- partner ----
        if t < self.cfg["enable_at"] + 2:
            return
        if not self.started:
            self.started = True
            self.txq.extend([(0, 0, 1, None)] * self.cfg["adv_gap"])
            self._send_cmd(L.LGOOD, self.adv, ("adv",))
            for _ in range(self.cfg["initial_credits"]):
                self._send_credit()
            for _ in range(4 - self.cfg["initial_credits"]):
                self.pending_credits.append(t + 60)
                self.fault("withhold_credit")
            return
        if self.txq:
            return
        if self.final_lbad is not None:
            idle = not self.in_hdr and self.presenting_since is None and self.first_sent >= len(self.accepted)
            self.final_lbad = self.final_lbad + 1 if idle else 0
            if self.final_lbad > 12:
                self.final_lbad = None
                self._send_cmd(L.LBAD, 0, ("lbad",))
            return
        if self.pending_acks and self.pending_acks[0][0] <= t and not self.ignoring:
            _, seq, idx, cat = self.pending_acks.pop(0)
            self._send_cmd(L.LGOOD, seq, ("ack", idx))
            self.pending_credits.append(max(t, cat))
            self.pending_credits.sort()
            return
        if self.pending_credits and self.pending_credits[0] <= t:
            self.pending_credits.pop(0)
            self._send_credit()
            return

    def _send_cmd(self, cmd, sub, tag):
        ws = L.link_command(cmd, sub)
        self.txq.append((ws[0][0], ws[0][1], 1, None))
        self.txq.append((ws[1][0], ws[1][1], 1, tag))

    def _send_credit(self):
        self._send_cmd(L.LCRD, self.letter, ("credit",))
        self.letter = (self.letter + 1) & 3

    def on_sent(self, t, data, ctrl, valid, tag):
        k = tag[0]
        if k == "adv":
            self.adv_time = t
        elif k == "credit":
            self.credit_times.append(t)
        elif k == "ack":
            self.acked = max(self.acked, tag[1] + 1)
        elif k == "lbad":
            in_retry = self.lbad is not None and ((self.lbad["R"] is None and self.first_sent > self.lbad["K"]) or
                                                  (self.lbad["R"] is not None and self.lbad["pos"] < len(self.lbad["R"])))
            if in_retry:
                self.hit("lbad_during_retransmission")
            elif self.in_hdr or self.presenting_since is not None:
                self.hit("lbad_while_transmitting")
            else:
                self.hit("lbad_while_idle")
            if self.first_sent - self.acked >= 2:
                self.hit("lbad_with_unacked_ge2")
            if len(self.accepted) > self.first_sent:
                self.hit("unsent_header_at_lbad")
            self.lbad = {"t": t, "K": self.acked, "R": None, "pos": 0, "second": in_retry}
            self.lbads.append(self.lbad)
            self.fault("lbad")
        elif k == "wrong":
            self.wrong_lgood_at = t

    # ------------------------------------------------------------------------------------------
    def on_word(self, t, data, ctrl):
        self.in_hdr = True

    def on_item(self, t, it):
        if self.dead:
            return
        self.in_hdr = self.seg.mid_item
        try:
            self._on_item(t, it)
        except Stop:
            pass

    def _on_item(self, t, it):
        kind = it["kind"]
        if kind == "dpp":
            prev = self.tx_log[-1] if self.tx_log else None
            if not prev or prev["type"] != L.HP_TYPE_DATA or prev.get("dpp_seen"):
                self.fail("C39.wire", t, f"data packet payload without a preceding data header: {it['words'][:3]}", what="stray_dpp")
            prev["dpp_seen"] = True
            ok = it["tail_ok"] and ((prev["delayed"] and it["aborted"] and it["payload"] == b"") or
                                    (not prev["delayed"] and not it["aborted"] and it["payload"] == b"" and it["crc_ok"]))
            if not ok:
                self.fail("C39.wire", t, f"payload after data header (DL={prev['delayed']}) malformed: {it}", what="bad_dpp")
            return
        if kind != "hdr":
            self.fail("C39.wire", t, f"transmit stream carried {it} (expected header packets only)", what=kind)
        if self.tx_log and self.tx_log[-1]["type"] == L.HP_TYPE_DATA and not self.tx_log[-1].get("dpp_seen"):
            self.fail("C39.wire", t, "data header not followed by a data packet payload", what="missing_dpp")
        H = dict(it)
        self.tx_log.append(H)
        self.hit("headers_transmitted")
        if not (H["crc5_ok"] and H["crc16_ok"]):
            self.fail("C39.sequence", t, f"transmitted header has invalid CRCs: {H}", what="crc")
        tp = H["tp"]
        # the LBAD this transmission can know about: the latest one whose command word was sent more than 3 cycles before the header was
        # first presented (LinkCommandDetector + request pipeline); an earlier start is a transmission that was already under way
        vis = [x for x in self.lbads if x["t"] + 3 < tp]
        lb = vis[-1] if vis else None
        if lb is not None and lb["R"] is None:
            lb["R"] = list(range(lb["K"], self.first_sent))
        if lb is not None and lb["pos"] < len(lb["R"]):
            idx = lb["R"][lb["pos"]]
            op = self.ops[self.accepted[idx][1]]
            want = L.parse_header([w[0] for w in L.header_words(op["dw0"], op["dw1"], op["dw2"], self.expected_seq(idx), op["rsvd"], op["hub"], 1, op["df"])[1:]])
            if any(H[k] != want[k] for k in ("dw0", "dw1", "dw2", "dw3")):
                rule = "C39.retire_on_matching_lgood" if self.wrong_lgood_at is not None else "C39.retransmit_after_lbad"
                self.fail(rule, t, f"after LBAD at cycle {lb['t']} (acknowledged before it: {lb['K']}, transmitted before the retry: {lb['R'][-1] + 1}) retransmission "
                          f"#{lb['pos']} should be header #{idx} seq {want['seq']} with DL=1; got seq {H['seq']} DL={H['delayed']} "
                          f"dw0 {H['dw0']:#x} (want {want['dw0']:#x}); transmitted seq/DL so far {[(h['seq'], h['delayed']) for h in self.tx_log[-8:]]}; "
                          f"LBADs at {[x['t'] for x in self.lbads]}",
                          what="retransmission_without_dl" if (H["delayed"] == 0 and H["seq"] == want["seq"]) else "wrong_header",
                          second_lbad=len(self.lbads) > 1)
            lb["pos"] += 1
            self.hit("retransmissions")
            if lb["pos"] == len(lb["R"]):
                self.last_retry_end = t
            self._partner_receives(t, H, idx)
            return
        # ---- a first transmission ----
        idx = self.first_sent
        if idx >= len(self.accepted) or self.accepted[idx][0] >= tp:
            self.fail("C39.sequence", t, f"header seq {H['seq']} DL={H['delayed']} transmitted (presented at {tp}) but only {len(self.accepted)} headers were "
                      f"accepted from the queue and {self.first_sent} already transmitted; transmitted so far {[(h['seq'], h['delayed']) for h in self.tx_log[-8:]]}",
                      what="unsolicited", after_lbad=bool(self.lbads))
        op = self.ops[self.accepted[idx][1]]
        credits = sum(1 for c in self.credit_times if c < tp)
        if self.adv_time is None or credits < idx + 1:
            self.fail("C39.credit", t, f"header #{idx} first transmitted at {tp} with {credits} credits received so far", what="transmit_without_credit")
        dl_open = bool(self.lbads)        # once a retry has happened the statement leaves the DL flag of *new* headers open
        want = L.parse_header([w[0] for w in L.header_words(op["dw0"], op["dw1"], op["dw2"], self.expected_seq(idx), op["rsvd"], op["hub"],
                                                            H["delayed"] if dl_open else 0, op["df"])[1:]])
        if any(H[k] != want[k] for k in ("dw0", "dw1", "dw2", "dw3")) and self.lbads:
            for j in range(self.acked, self.first_sent):
                oj = self.ops[self.accepted[j][1]]
                wj = L.parse_header([w[0] for w in L.header_words(oj["dw0"], oj["dw1"], oj["dw2"], self.expected_seq(j), oj["rsvd"], oj["hub"], 0, oj["df"])[1:]])
                if all(H[k] == wj[k] for k in ("dw0", "dw1", "dw2", "dw3")):
                    self.fail("C39.retransmit_after_lbad", t, f"after LBAD at cycle {self.lbads[-1]['t']}: header #{j} seq {H['seq']} transmitted again (presented at {tp}) "
                              f"*without* the DL flag; transmitted seq/DL so far {[(h['seq'], h['delayed']) for h in self.tx_log[-8:]]}",
                              what="retransmission_without_dl", second_lbad=len(self.lbads) > 1)
        if any(H[k] != want[k] for k in ("dw0", "dw1", "dw2", "dw3")):
            self.fail("C39.sequence", t, f"first transmission of header #{idx}: got seq {H['seq']} DL={H['delayed']} hub {H['hub_depth']} rsvd {H['rsvd']} DF {H['deferred']} "
                      f"dw0 {H['dw0']:#x}, expected seq {want['seq']} DL={want['delayed']} hub {want['hub_depth']} rsvd {want['rsvd']} DF {want['deferred']} "
                      f"dw0 {want['dw0']:#x} (partner advertised {self.adv})", what="seq" if H["seq"] != want["seq"] else ("dl" if H["delayed"] != want["delayed"] else "content"),
                      after_lbad=bool(self.lbads))
        self.first_sent += 1
        if H["delayed"]:
            self.hit("new_header_sent_with_dl")
            if op["dw0"] & 0x1F == L.HP_TYPE_DATA:
                self.hit("new_data_header_payload_aborted")
        if op["dw0"] & 0x1F == L.HP_TYPE_DATA:
            self.hit("data_headers")
        if self.first_sent - self.acked >= 4:
            self.hit("all_credits_in_use")
        if self.first_sent > 8:
            self.probes["seq_wrapped"] = 1
        self._partner_receives(t, H, idx)

    def _partner_receives(self, t, H, idx):
        """ the partner's reaction to a header (index idx in transmit order) """
        if self.ended:
            return
        if self.ignoring or idx != self.rx_next:
            return                       # dropped: either ignoring until LRTY, or (after LBAD) not the one expected
        rc = self.reactions[self.rx_count % len(self.reactions)]
        self.rx_count += 1
        r = rc["r"]
        if r == "ack":
            self.pending_acks.append([t + 1 + rc["delay"], H["seq"], idx, t + 1 + rc["delay"] + rc["cdelay"]])
            self.rx_next = idx + 1
            if rc.get("late"):
                self.hit("late_lgood")
                self.fault("withhold_lgood")
            if rc.get("late_credit"):
                self.fault("withhold_credit")
        elif r == "lbad":
            # all earlier headers are acknowledged first, then LBAD; ignore until LRTY
            for a in self.pending_acks:
                a[0] = t
            self.flush_then = ("lbad", rc)
            self.ignoring = True
            self.lrty_len = rc["lrty_len"]
            self._queue_after_acks(t, rc["delay"], L.LBAD, 0, ("lbad",))
        elif r == "wrong_lgood" and self.lbads:
            # only exercised on a link that has not retried yet, so that non-retirement is the only thing the final LBAD can expose
            self.pending_acks.append([t + 1 + rc["delay"], H["seq"], idx, t + 1 + rc["delay"]])
            self.rx_next = idx + 1
        elif r == "wrong_lgood":
            for a in self.pending_acks:
                a[0] = t
            self.hit("wrong_lgood")
            self.fault("lgood_wrong_number")
            self.ended = True
            self.lrty_len = rc["lrty_len"]
            self._queue_after_acks(t, rc["delay"], L.LGOOD, (H["seq"] + rc["delta"]) & 7, ("wrong",))
            self.final_lbad = 0          # sent once the transmitter has been idle for a while (see step)

    def _queue_after_acks(self, t, delay, cmd, sub, tag):
        """ flush pending LGOODs (they must precede an LBAD), then the command """
        while self.pending_acks:
            _, seq, idx, cat = self.pending_acks.pop(0)
            self._send_cmd(L.LGOOD, seq, ("ack", idx))
            self.pending_credits.append(max(t, cat))
        self.pending_credits.sort()
        self.txq.extend([(0, 0, 1, None)] * delay)
        self._send_cmd(cmd, sub, tag)

    # ------------------------------------------------------------------------------------------
    def observe(self, t, o):
        if self.dead:
            return True
        try:
            super().observe(t, o)
            self._observe(t, o)
        except Stop:
            return True
        return self.done or self.dead

    def _observe(self, t, o):
        # ---- queue handshake ----
        if self.offering and o["queue_ready"]:
            credits = sum(1 for c in self.credit_times if c < t)
            n = len(self.accepted)
            if self.adv_time is None or self.adv_time >= t or credits < n + 1:
                self.fail("C39.credit", t, f"header #{n} accepted from the protocol layer at cycle {t} although the partner has advertised only {credits} "
                          f"credits (advertisement sent: {self.adv_time})", what="accept_without_credit")
            self.accepted.append((t, self.pi))
            self.offering = False
            self.pi += 1
            self.pgap = None
        elif self.offering and not o["queue_ready"] and self.adv_time is not None and t > self.adv_time + 4:
            credits = sum(1 for c in self.credit_times if c < t - 3)
            if credits <= len(self.accepted):
                self.hit("credit_starved")
        # ---- lrty_pending stub ----
        if o["retry_required"]:
            self.lrty_pending = 1
            self.lrty_until = t + 1 + self.lrty_len
            if self.lbad is not None:
                self.lbad["when"] = "idle" if not self.in_hdr else "busy"
        if o["recovery_required"]:
            self.recovery_seen.append(t)
            self.hit("recovery_required_seen")
            if self.wrong_lgood_at is None:
                self.fail("C39.retire_on_matching_lgood", t, "recovery_required although every LGOOD / LCRD the partner sent was in sequence", what="spurious_recovery")
        # ---- progress ----
        if self._ready_now and not self.lrty_pending:
            lb = self.lbad
            owed = (len(self.accepted) > self.first_sent) or (lb is not None and lb["R"] is None and self.first_sent > lb["K"] and t > lb["t"] + 3) or \
                   (lb is not None and lb["R"] is not None and lb["pos"] < len(lb["R"]))
            if owed and not self.in_hdr and self.presenting_since is None:
                self.wait_ready += 1
                if self.wait_ready > WAIT_LIMIT:
                    self.fail("C39.progress", t, f"nothing transmitted for {WAIT_LIMIT} ready cycles although {len(self.accepted) - self.first_sent} accepted headers "
                              f"are unsent and the retransmission after LBAD is {'pending' if lb and (lb['R'] is None or lb['pos'] < len(lb['R'])) else 'not pending'} "
                              f"(credits_available={o['credits_available']}, packets_to_send={o['packets_to_send']}); transmitted seq/DL so far "
                              f"{[(h['seq'], h['delayed']) for h in self.tx_log[-8:]]}", what="stuck", after_lbad=lb is not None)
            else:
                self.wait_ready = 0
        # ---- end of run ----
        all_offered = self.pi >= len(self.ops) or self.ended
        lb = self.lbad
        retry_done = lb is None or (lb["R"] is not None and lb["pos"] >= len(lb["R"])) or (lb["R"] is None and self.first_sent <= lb["K"])
        quiet = (all_offered and self.final_lbad is None and (not self.offering or self.ended) and self.first_sent >= len(self.accepted) and not self.txq and not self.pending_acks
                 and not self.in_hdr and self.presenting_since is None and retry_done and (self.ended or self.acked >= self.first_sent))
        if quiet:
            if self.quiet_since is None:
                self.quiet_since = t
            elif t > self.quiet_since + (40 if not self.ended else 80):
                self.done = True
        else:
            self.quiet_since = None


def run(scn):
    bench = _bench()
    viol = Violations()
    probes = {p: 0 for p in PROBES}
    faults = {}
    p = _Partner(scn, viol, probes, faults)
    cfg = scn["config"]
    dens = max(1, sum(cfg["ready"])) / len(cfg["ready"])
    cap = int(1500 + (len(scn["ops"]) * 260 + 600) / dens)
    log = bench.run([p], cap, init={"src_ready": 1})
    if not viol and not p.done:
        # a legal partner that is still waiting: decide what is missing
        missing = len(p.accepted) - p.first_sent
        raise RuntimeError(f"script did not finish within {cap} cycles: offered {p.pi}/{len(scn['ops'])}, accepted {len(p.accepted)}, transmitted "
                           f"{p.first_sent}, acked {p.acked}, unsent {missing}, lbad {p.lbad}, pending acks {p.pending_acks}, ignoring {p.ignoring}")
    if p.wrong_lgood_at is not None and not viol and not p.recovery_seen:
        pass        # recovery_required after a mismatching LGOOD is DESIGN's C39.recovery_on_mismatch; not part of the statement
    if len(cfg["ready"]) > 1:
        faults["ready_stall"] = 1
    sig = hashlib.blake2b(repr((sorted(log.fsm_vectors), sorted(faults), sorted(k for k, v in probes.items() if v))).encode(), digest_size=8).hexdigest()
    return {"violations": viol.items, "cycles": log.cycles, "faults": faults, "probes": probes, "sig": sig,
            "nontrivial": p.first_sent > 0 and bool(faults), "digest": log.digest, "fsm": len(log.fsm_vectors)}
