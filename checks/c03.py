"""
C03 -- USB2 transmitted data packets are correctly framed with a valid CRC16.

DUT variants (config["variant"]):
  "standalone": luna.gateware.usb.usb2.packet.USBDataPacketGenerator(standalone=True) (own CRC generator);
  "V1" / "V2":  the complete USBDevice (12 MHz / 60 MHz timing) with a scripted IN endpoint attached through the public
                add_endpoint(): the payload travels through the real endpoint multiplexer, USBDataPacketGenerator, the
                shared USBDataPacketCRC wired as `data_crc.tx_valid = output.valid & tx_ready` (device.py) and the UTMI
                transmit multiplexer.
Actors: a stream producer obeying the USBInStream contract (valid held from `first` to `last`), and the PHY's tx_ready
(literal pattern plus literal targeted stalls on the PID / n-th payload byte / either CRC byte).
Oracle: own CRC16; every captured packet must equal PID(data_pid) | payload | crc16(payload) low byte first.
"""

import hashlib

from dsim.kernel import make_bench, cached_bench, Violations
from models.usb2 import crc16, pid_byte

PROPERTY = "C03"
ENGINE = "usb2_wire"
CLOCK_HZ = 60e6
RULES = {
    "C03.frame": "every transmitted packet equals PID[data_pid] | payload | CRC16(payload) (low byte first); a 'last' without 'first' "
                 "request yields PID | 00 00",
    "C03.exactly_once": "every payload byte offered is accepted (within a generous bound) and sent exactly once, in order; one "
                        "packet per request",
    "C03.no_gap": "tx_valid stays high from the PID to the last CRC byte of a packet",
}
PROBES = ["zlp", "one_byte_payload", "max_len_payload", "stall_on_pid", "stall_on_last_payload_byte", "stall_on_first_crc_byte",
          "stall_on_second_crc_byte", "stall_mid_payload", "back_to_back_offer", "pid_data0", "pid_data1", "pid_data2", "pid_mdata",
          "device_wiring_runs", "packets_with_any_stall", "payload_byte_c3_like_pid"]
META = {
    "components_real": ["luna.gateware.usb.usb2.packet.USBDataPacketGenerator", "USBDataPacketCRC",
                        "USBDevice + USBEndpointMultiplexer + UTMIInterfaceMultiplexer (variants V1/V2)"],
    "components_stubbed": ["stream producer (scripted payloads)", "UTMI PHY transmit side (tx_ready pattern + targeted stalls)",
                           "variants V1/V2: engines.usb2_device.ScriptedInEndpoint only forwards the producer's pins to the endpoint interface"],
    "assumptions": ["the producer holds valid (and the payload) from the byte marked first to the byte marked last, as USBInStreamInterface requires",
                    "a zero-length-packet request (valid & last without first, 1-3 cycles long) is made while the transmitter is idle, as "
                    "every in-tree user does",
                    "tx_ready patterns contain at least one ready cycle per period"],
    "rule": "3-12 packets per run: payload 0-70 bytes (0/1/2 and max over-represented), all four data PIDs, gap 0-6 before the next offer; "
            "tx_ready always / every n / literal list, plus targeted stalls of 1-6 cycles on chosen byte positions",
}
TIERS = {"quick": {"runs": 20000, "wall": 70}, "thorough": {"runs": 150000, "wall": 900}}

PID_NAMES = ["DATA0", "DATA1", "DATA2", "MDATA"]


def gen(rng, tier, index):
    variant = rng.choice(["standalone", "standalone", "V1", "V2"])
    r = rng.random()
    if r < 0.3:
        txready = "always"
    elif r < 0.5:
        txready = ["every", rng.choice([2, 3, 4, 7])]
    else:
        n = rng.randint(3, 14)
        bits = [int(rng.random() < rng.choice([0.3, 0.6, 0.85])) for _ in range(n)]
        bits[rng.randrange(n)] = 1
        txready = ["list", bits]
    ops = []
    for _ in range(rng.randint(3, 9 if tier == "quick" else 12)):
        q = rng.random()
        if q < 0.2:
            n = 0
        elif q < 0.45:
            n = rng.choice([1, 1, 2, 3])
        elif q < 0.9:
            n = rng.randint(4, 20)
        else:
            n = rng.choice([31, 32, 63, 64, 70]) if tier != "quick" else rng.choice([31, 32, 33, 64])
        payload = bytearray(rng.getrandbits(8) for _ in range(n))
        if n and rng.random() < 0.15:
            payload[rng.randrange(n)] = rng.choice([0xC3, 0x4B, 0x00, 0xFF])
        op = {"payload": bytes(payload).hex(), "pid": rng.randrange(4), "gap": rng.choice([0, 0, 1, 2, 3, 6]), "stalls": []}
        if n == 0:
            op["zlp_hold"] = rng.choice([1, 1, 2, 3])
        if rng.random() < 0.55:
            total = n + 3
            spots = set()
            for _ in range(rng.choice([1, 1, 2, 3])):
                spots.add(rng.choice([0, n, n + 1, n + 2, rng.randrange(total), max(0, n - 1)]))
            op["stalls"] = [[i, rng.choice([1, 1, 2, 3, 6])] for i in sorted(spots)]
        ops.append(op)
    return {"engine": ENGINE, "config": {"variant": variant, "txready": txready}, "ops": ops}


# ------------------------------------------------------------------------------------------------
def _bench(variant):
    if variant == "standalone":
        def factory():
            from luna.gateware.usb.usb2.packet import USBDataPacketGenerator
            dut = USBDataPacketGenerator(standalone=True)
            s = dut.stream
            ins = {"valid": s.valid, "first": s.first, "last": s.last, "payload": s.payload, "pid": dut.data_pid,
                   "tx_ready": dut.tx.ready}
            outs = {"ready": s.ready, "tx_valid": dut.tx.valid, "tx_data": dut.tx.data}
            return make_bench(dut, clocks={"usb": 1 / 60e6}, main="usb", ins=ins, outs=outs)
        return cached_bench(("c03", "standalone"), factory), {"valid": "valid", "first": "first", "last": "last", "payload": "payload",
                                                              "pid": "pid", "ready": "ready"}, {"tx_ready": 1}
    from engines.usb2_device import device_bench, IDLE_INIT
    bench = device_bench({"variant": variant, "control": None, "spy": False, "endpoints": [{"kind": "scripted_in", "ep": 1}]})
    names = {k: "scr1_" + k for k in ("valid", "first", "last", "payload", "pid", "ready")}
    return bench, names, dict(IDLE_INIT)


class _Actor:
    """ producer + PHY tx_ready + online monitor """

    def __init__(self, scn, names, viol, probes):
        self.ops = scn["ops"]
        self.cfg = scn["config"]
        self.n = names
        self.viol = viol
        self.probes = probes
        self.classes = set()
        self.k = 0                       # op being offered
        self.state = "gap"               # gap -> (zlp_wait ->) offer -> drain -> gap ...
        self.count = self.ops[0]["gap"] if self.ops else 0
        self.pos = 0                     # payload byte being offered
        self.offer = None                # this cycle's stream drive
        self.ready_now = 1
        # tx monitor
        self.txk = 0                     # index of the packet expected on the wire next / being sent
        self.cur = None                  # list of accepted bytes of the packet in progress
        self.stall_left = 0              # targeted stall cycles still to apply
        self.stalled_idx = set()
        self.armed_pid_stall = False
        self.pkt_had_stall = False
        self.t_offer = 0
        self.tx_idle_for = 10
        self.mark = None
        self.t_progress = 0
        tr = self.cfg["txready"]
        period = 1 if tr == "always" else (tr[1] if tr[0] == "every" else len(tr[1]))
        self.patience = 40 + 8 * (period + 1) + 8 * max([s for op in self.ops for _, s in op["stalls"]] + [0])
        self.done = False
        self.tail = 0
        self.dead = False
        self.expected = []
        for op in self.ops:
            p = bytes.fromhex(op["payload"])
            self.expected.append(bytes([pid_byte(PID_NAMES[op["pid"]])]) + p + bytes(crc16(p)))

    def _pattern(self, t):
        tr = self.cfg["txready"]
        if tr == "always":
            return 1
        if tr[0] == "every":
            return 1 if t % tr[1] == 0 else 0
        return tr[1][t % len(tr[1])]

    def _stall_for(self, k, idx):
        if k >= len(self.ops):
            return 0
        for i, n in self.ops[k]["stalls"]:
            if i == idx:
                return n
        return 0

    def drive(self, t):
        n = self.n
        d = {n["valid"]: 0, n["first"]: 0, n["last"]: 0}
        self.offer = None
        if not self.done:
            op = self.ops[self.k]
            payload = bytes.fromhex(op["payload"])
            if self.state == "gap":
                if self.count > 0:
                    self.count -= 1
                else:
                    self.state = "zlp_wait" if not payload else "offer"
                    self.pos = 0
                    self.t_offer = t
            if self.state == "zlp_wait":
                # a ZLP request is a short pulse: make it only once the previous packet has left the wire
                if self.txk == self.k and self.cur is None and self.tx_idle_for >= 2:
                    self.state = "zlp_pulse"
                    self.count = op.get("zlp_hold", 1)
                    self.t_offer = t
            if self.state == "zlp_pulse":
                d.update({n["valid"]: 1, n["last"]: 1, n["first"]: 0, n["pid"]: op["pid"]})
                self.count -= 1
                if self.count == 0:
                    self.state = "drain"
            elif self.state == "offer":
                d.update({n["valid"]: 1, n["payload"]: payload[self.pos], n["first"]: int(self.pos == 0),
                          n["last"]: int(self.pos == len(payload) - 1), n["pid"]: op["pid"]})
                self.offer = self.pos
        # ---- PHY ----
        ready = self._pattern(t)
        if self.stall_left > 0:
            ready = 0
            self.stall_left -= 1
            self.pkt_had_stall = True
        elif self.armed_pid_stall and self.cur is None:
            ready = 0                      # hold tx_ready low until the PID shows up (then n more cycles)
        self.ready_now = ready
        d["tx_ready"] = ready
        return d

    def _fail(self, rule, t, msg, **shape):
        op = self.ops[min(self.txk, len(self.ops) - 1)]
        n = len(op["payload"]) // 2
        self.viol.add(rule, t, msg, variant=self.cfg["variant"], payload_len=(n if n <= 2 else "n"),
                      stalled=bool(self.pkt_had_stall), **shape)
        self.dead = True

    def observe(self, t, o):
        if self.dead:
            return True
        n = self.n
        # ---- producer handshake ----
        if self.offer is not None and o[n["ready"]]:
            payload = bytes.fromhex(self.ops[self.k]["payload"])
            self.pos += 1
            if self.pos >= len(payload):
                self.state = "drain"
        if self.state == "drain":
            # this request has been handed over completely; prepare the next offer
            self.k += 1
            if self.k >= len(self.ops):
                self.done = True
                self.state = "idle"
            else:
                self.state = "gap"
                self.count = self.ops[self.k]["gap"]
                if self.count == 0 and self.ops[self.k]["payload"]:
                    self.probes["back_to_back_offer"] += 1
        # arm a "stall on the PID" for the packet that will be transmitted next
        if self.cur is None and self.txk < len(self.ops) and self._stall_for(self.txk, 0) and 0 not in self.stalled_idx:
            self.armed_pid_stall = True
        # ---- wire monitor ----
        if o["tx_valid"]:
            self.tx_idle_for = 0
            if self.cur is None:
                if self.txk >= len(self.ops):
                    self._fail("C03.exactly_once", t, f"a packet starts in cycle {t} although all {len(self.ops)} requests have been sent",
                               problem="extra_packet")
                    return True
                self.cur = []
                if self.armed_pid_stall:
                    self.armed_pid_stall = False
                    self.stalled_idx.add(0)
                    self.stall_left = self._stall_for(self.txk, 0) - 1      # this cycle was the first stalled one
                    self.pkt_had_stall = True
                    self.probes["stall_on_pid"] += 1
            exp = self.expected[self.txk]
            if self.ready_now:
                idx = len(self.cur)
                byte = o["tx_data"]
                self.cur.append(byte)
                if idx >= len(exp):
                    self._fail("C03.frame", t, f"packet {self.txk} continues after its {len(exp)} bytes {exp.hex()} with {byte:#04x}",
                               problem="too_long", at="after_crc")
                    return True
                if byte != exp[idx]:
                    where = "pid" if idx == 0 else "payload" if idx < len(exp) - 2 else "crc_lo" if idx == len(exp) - 2 else "crc_hi"
                    self._fail("C03.frame", t, f"packet {self.txk} (data_pid={self.ops[self.txk]['pid']}, payload {self.ops[self.txk]['payload']!r}): "
                               f"byte {idx} is {byte:#04x}, expected {exp[idx]:#04x} (whole packet {exp.hex()}); sent so far {bytes(self.cur).hex()}",
                               problem="wrong_byte", at=where)
                    return True
                # targeted stall before the next byte
                nxt = idx + 1
                s = self._stall_for(self.txk, nxt)
                if s and nxt < len(exp):
                    self.stall_left = s
                    self.stalled_idx.add(nxt)
                    plen = len(exp) - 3
                    if nxt == plen and plen > 0:
                        self.probes["stall_on_last_payload_byte"] += 1
                    elif nxt == plen + 1:
                        self.probes["stall_on_first_crc_byte"] += 1
                    elif nxt == plen + 2:
                        self.probes["stall_on_second_crc_byte"] += 1
                    else:
                        self.probes["stall_mid_payload"] += 1
            else:
                self.pkt_had_stall = True
        else:
            self.tx_idle_for += 1
            if self.cur is not None:
                exp = self.expected[self.txk]
                if len(self.cur) < len(exp):
                    idx = len(self.cur)
                    where = "pid" if idx == 0 else "payload" if idx < len(exp) - 2 else "crc_lo" if idx == len(exp) - 2 else "crc_hi"
                    self._fail("C03.no_gap", t, f"tx_valid dropped in cycle {t} after {idx} of {len(exp)} bytes of packet {self.txk} "
                               f"({bytes(self.cur).hex()} of {exp.hex()})", problem="gap", at=where)
                    return True
                # packet complete and correct
                op = self.ops[self.txk]
                plen = len(exp) - 3
                self.probes["pid_" + PID_NAMES[op["pid"]].lower()] += 1
                if plen == 0:
                    self.probes["zlp"] += 1
                if plen == 1:
                    self.probes["one_byte_payload"] += 1
                if plen >= 63:
                    self.probes["max_len_payload"] += 1
                if self.pkt_had_stall:
                    self.probes["packets_with_any_stall"] += 1
                if any(b in (0xC3, 0x4B) for b in exp[1:-2]):
                    self.probes["payload_byte_c3_like_pid"] += 1
                self.classes.add((min(plen, 3), self.pkt_had_stall, tuple(sorted(min(i, 1) if i == 0 else (i - plen if i >= plen else 1)
                                                                                  for i in self.stalled_idx))))
                self.cur = None
                self.txk += 1
                self.stalled_idx = set()
                self.pkt_had_stall = False
                self.stall_left = 0
        # ---- liveness: an offered request must get onto the wire ----
        mark = (self.k, self.pos, self.txk, len(self.cur) if self.cur is not None else -1, self.state)
        if mark != self.mark:
            self.mark = mark
            self.t_progress = t
        outstanding = self.txk < len(self.ops) and (self.k > self.txk or self.state in ("offer", "zlp_pulse") or self.cur is not None)
        if outstanding and t - self.t_progress > self.patience:
            k = min(self.txk, len(self.ops) - 1)
            self._fail("C03.exactly_once", t, f"request {self.txk} (payload {self.ops[k]['payload']!r}) has made no progress for "
                       f"{t - self.t_progress} cycles ({len(self.cur or [])} bytes on the wire, {self.pos} payload bytes of request {self.k} accepted)",
                       problem="stuck", at="liveness")
            return True
        if self.done and self.txk >= len(self.ops) and self.cur is None:
            self.tail += 1
            return self.tail > 6
        return False


def run(scn):
    cfg = scn["config"]
    bench, names, init = _bench(cfg["variant"])
    viol = Violations()
    probes = {p: 0 for p in PROBES}
    if cfg["variant"] != "standalone":
        probes["device_wiring_runs"] += 1
    actor = _Actor(scn, names, viol, probes)
    period = 1 if cfg["txready"] == "always" else (cfg["txready"][1] if cfg["txready"][0] == "every" else len(cfg["txready"][1]))
    max_cycles = 400 + sum(300 + (len(op["payload"]) // 2 + 8) * (period + 1) * 5 + op["gap"] + 10 * sum(s for _, s in op["stalls"])
                           for op in scn["ops"])
    log = bench.run([actor], max_cycles, init=init)
    if not viol and not (actor.done and actor.txk >= len(scn["ops"])):
        raise RuntimeError("script did not finish within the cycle cap")
    faults = {"txready_stall": probes["packets_with_any_stall"],
              "targeted_stall": probes["stall_on_pid"] + probes["stall_on_last_payload_byte"] + probes["stall_on_first_crc_byte"]
              + probes["stall_on_second_crc_byte"] + probes["stall_mid_payload"]}
    txr = "always" if cfg["txready"] == "always" else cfg["txready"][0]
    sig = hashlib.blake2b(repr((cfg["variant"], txr, sorted(map(repr, actor.classes)))).encode(), digest_size=8).hexdigest()
    return {"violations": viol.items, "cycles": log.cycles, "faults": faults, "probes": probes, "sig": sig,
            "nontrivial": probes["packets_with_any_stall"] > 0, "digest": log.digest, "fsm": len(log.fsm_vectors)}


def shrink_candidates(scn):
    import copy
    for i, op in enumerate(scn["ops"]):
        if op["stalls"]:
            for j in range(len(op["stalls"])):
                cand = copy.deepcopy(scn)
                del cand["ops"][i]["stalls"][j]
                yield cand
        if len(op["payload"]) > 4:
            cand = copy.deepcopy(scn)
            cand["ops"][i]["payload"] = op["payload"][:len(op["payload"]) // 4 * 2]
            cand["ops"][i]["stalls"] = []
            yield cand
    if scn["config"]["txready"] != "always":
        cand = copy.deepcopy(scn)
        cand["config"]["txready"] = "always"
        yield cand
