"""
C13 -- bulk OUT endpoints ACK exactly the data they deliver.

DUT: a complete USBDevice (V1 = 12 MHz timing as in the repository's tests, V2 = 60 MHz ULPI timing, inter-packet gap 10
cycles) with one USBStreamOutEndpoint (max packet size 8 / 16 / 64; buffer default (2*mps-1) / mps / 2*mps / 3*mps+1).
The host owns a queue of packets (sizes 0..mps) and sends them with alternating data toggles; an attempt may be corrupted,
truncated, sent with the other toggle, or its ACK may be lost (the host then retransmits with the same toggle); PINGs,
SOFs and tokens to other endpoints are interleaved.  A StreamConsumer applies back-pressure phases (including long
never-ready phases, so the buffer fills).  The run ends with a fault-free drain and an always-ready consumer.
Oracle: models.streams_usb2.check_out_stream -- decided from the bytes on the wire and the device's handshakes.
"""

import hashlib

from dsim.kernel import Violations
from models.usb2_wire import gen_idle_data
from models.usb2 import UTMIHost, token_packet
from models import streams_usb2 as su
from models.usb2_ctrl import hs_handshake, HS_HANDSHAKE_CYCLES
from engines.usb2_device import device_bench, IDLE_INIT

PROPERTY = "C13"
ENGINE = "usb2_device"
CLOCK_HZ = 60e6
RULES = {
    "C13.stream_equals_accepted": "the output stream is the concatenation of the payloads of ACKed new packets, exactly once, "
                                  "in order; corrupted, NAKed or repeated packets contribute nothing and corrupted ones are not ACKed",
    "C13.ack_implies_delivered": "every ACKed new packet's payload appears in the output stream",
    "C13.dup_acked_not_delivered": "a packet with a repeated data toggle is ACKed and not delivered again",
    "C13.response": "a CRC-valid data packet for the endpoint is answered with ACK or NAK",
    "C13.ping": "PING is NAKed when less than a whole packet fits and ACKed when a whole packet fits",
    "C13.progress": "a new valid packet arriving while the buffer is empty is ACKed",
    "C13.last_flag": "a byte is marked last iff it is the final byte of a short packet",
    "C13.first_flag": "a byte is marked first iff it is the first byte of a transfer (a transfer ends with a short or "
                      "zero-length packet)",
}
PROBES = ["nak_no_room", "ack_after_lost_ack_dup", "wrong_toggle_dup", "corrupt_ignored", "truncated_ignored", "zlp_accepted",
          "full_then_zlp_then_packet", "ping_ack", "ping_nak", "buffer_filled_runs", "v2_runs", "retry_after_corrupt_accepted",
          "retry_after_nak_accepted", "high_speed_runs"]
META = {
    "components_real": ["USBDevice", "USBStreamOutEndpoint", "USBOutStreamBoundaryDetector", "TransactionalizedFIFO",
                        "USBDataPacketReceiver", "USBTokenDetector", "USBHandshakeGenerator", "USBDataPacketCRC",
                        "USBInterpacketTimer", "USBEndpointMultiplexer"],
    "components_stubbed": ["UTMI PHY + host (models.usb2.UTMIHost + models.streams_usb2 transactions)",
                           "stream consumer (models.streams_usb2.StreamConsumer)"],
    "assumptions": ["legal UTMI receive side; the host never transmits while the device transmits, keeps >= 2 bit times between "
                    "packets and never sends more than max-packet-size bytes", "tokens are not corrupted (C01 covers that)",
                    "a packet with a repeated toggle must be ACKed (USB 2.0 8.6.3)",
                    "PING: 'cannot take a whole packet' means fewer than max-packet-size free buffer bytes",
                    "a transfer ends with a short packet, a zero-length packet counts as short"],
    "rule": "queue of 3-14 packets (sizes 0, 1, mps-1, mps, random); host op list of OUT attempts (clean / corrupt_bit / "
            "truncate / wrong_toggle / lost_ack), PING, idle, SOF, token to another endpoint; consumer back-pressure phases; "
            "byte period, gaps, timing variant, max packet size and buffer size per run; final fault-free drain",
}
TIERS = {"quick": {"runs": 1300, "wall": 75}, "thorough": {"runs": 9000, "wall": 900}}

CONFIGS = [(v, m, b) for m in (8, 16, 64) for b in ("default", "mps", "2mps", "3mps+1") for v in ("V1", "V2")]


def buffer_bytes(mps, b):
    return {"default": 2 * mps - 1, "mps": mps, "2mps": 2 * mps, "3mps+1": 3 * mps + 1}[b]


def dev_cfg(variant, mps, b):
    return {"variant": variant, "control": None, "spy": False,
            "endpoints": [{"kind": "stream_out", "ep": 1, "mps": mps, "buffer": None if b == "default" else buffer_bytes(mps, b)}]}


def gen_out_queue(rng, mps, n):
    q = []
    for _ in range(n):
        L = rng.choice([0, 1, 1, 2, mps - 1, mps, mps, mps, mps, rng.randint(0, mps), rng.randint(1, mps)])
        q.append(bytes(rng.getrandbits(8) for _ in range(L)).hex())
    return q


def gen_out_fault(rng, nbytes, kinds):
    k = rng.choice(kinds)
    if k == "corrupt_bit":
        return {"kind": "corrupt_bit", "bits": [rng.randrange((nbytes + 3) * 8) for _ in range(rng.choice([1, 1, 2]))]}
    if k == "truncate":
        return {"kind": "truncate", "to": rng.randint(1, nbytes + 2)}
    return {"kind": k}


def gen_consumer(rng, horizon, stall_heavy):
    phases = []
    t = 0
    while t < horizon:
        if stall_heavy:
            mode = rng.choice([0, 0, 0, 1, 2, 5])
        else:
            mode = rng.choice([1, 1, 1, 1, 0, 2, 3])
        n = rng.choice([5, 20, 60, 200, 600, rng.randint(1, 1500)]) if mode == 0 else rng.choice([3, 10, 40, 150, rng.randint(1, 600)])
        phases.append([n, mode])
        t += n
    return phases


def gen(rng, tier, index):
    variant, mps, b = CONFIGS[(index // 8) % len(CONFIGS)]
    bit = 5 if variant == "V2" else 1
    fault_free = rng.random() < 0.15
    nq = rng.randint(3, 10 if tier == "quick" else 20)
    if mps == 64:
        nq = min(nq, 8)
    queue = gen_out_queue(rng, mps, nq)
    kinds = [k for k in ("corrupt_bit", "truncate", "wrong_toggle", "lost_ack") if rng.random() < 0.6] if not fault_free else []
    p_fault = rng.choice([0.1, 0.2, 0.35]) if kinds else 0
    stall_heavy = rng.random() < 0.5
    always_ready = rng.random() < 0.2
    cfg = {
        "variant": variant, "mps": mps, "buffer": b,
        "byte_period": rng.choice([1, 1, 1, 2, 4]), "pre": rng.choice([1, 1, 2]), "post": rng.choice([0, 0, 1, 2]),
        "gaps": [rng.choice([0, 0, 0, 1, 3]) for _ in range(rng.randint(1, 5))] if rng.random() < 0.25 else None,
        "turn": bit * rng.choice([2, 2, 3, 6]), "tok_gap": bit * rng.choice([2, 2, 3, 5]),
        "txready": rng.choice(["always", "always", ["every", 2], ["every", 3]]),
        "queue": queue,
    }
    if variant == "V2" and index % 8 == 5 and (index // 48) % 12 == 0:
        # a few runs at high speed: the device is first taken through a real bus reset + chirp handshake (inter-packet gap 1 cycle)
        cfg["high_speed"] = True
    nops = rng.randint(nq, 3 * nq + 4)
    ops = []
    for _ in range(nops):
        r = rng.random()
        if r < 0.68:
            op = {"op": "out"}
            if kinds and rng.random() < p_fault:
                op["fault"] = gen_out_fault(rng, mps // 2 + 1, kinds)
            ops.append(op)
        elif r < 0.78:
            ops.append({"op": "ping"})
        elif r < 0.90:
            ops.append({"op": "idle", "n": rng.choice([1, 3, 10, 30, 100, rng.randint(1, 400)])})
        elif r < 0.94:
            ops.append({"op": "sof", "frame": rng.getrandbits(11)})
        elif not fault_free:
            ops.append({"op": "tok_other", "pid": rng.choice(["IN", "PING", "OUT"]), "ep": rng.randint(2, 15)})
        else:
            ops.append({"op": "idle", "n": rng.randint(1, 40)})
    horizon = nops * (mps * cfg["byte_period"] // 2 + 12 * bit + 30)
    cfg["consumer"] = [] if always_ready else gen_consumer(rng, horizon, stall_heavy)
    cfg["idle_data"] = gen_idle_data(rng)
    return {"engine": ENGINE, "config": cfg, "ops": ops}


def shrink_candidates(scn):
    import copy
    cfg = scn["config"]
    for i in range(len(cfg["queue"])):
        c = copy.deepcopy(scn)
        del c["config"]["queue"][i]
        yield c
    for i, q in enumerate(cfg["queue"]):
        n = len(q) // 2
        for m in (0, n // 2, n - 1):
            if 0 <= m < n:
                c = copy.deepcopy(scn)
                c["config"]["queue"][i] = q[:2 * m]
                yield c
    ph = cfg.get("consumer") or []
    if ph:
        c = copy.deepcopy(scn)
        c["config"]["consumer"] = []
        yield c
        c = copy.deepcopy(scn)
        c["config"]["consumer"] = [[sum(p[0] for p in ph), 0]]
        yield c
        for i in range(len(ph)):
            c = copy.deepcopy(scn)
            del c["config"]["consumer"][i]
            yield c
    for key, val in (("txready", "always"), ("byte_period", 1), ("post", 0), ("pre", 1), ("gaps", None)):
        if cfg.get(key) != val:
            c = copy.deepcopy(scn)
            c["config"][key] = val
            yield c


def run(scn):
    cfg = scn["config"]
    variant, mps, b = cfg["variant"], cfg["mps"], cfg["buffer"]
    bsize = buffer_bytes(mps, b)
    bench = device_bench(dev_cfg(variant, mps, b))
    init = dict(IDLE_INIT)
    if variant == "V2":
        init["full_speed_only"] = 0 if cfg.get("high_speed") else 1
    viol = Violations()
    probes = {p: 0 for p in PROBES}
    ctx = su.HostCtx(variant, turn=cfg["turn"], tok_gap=cfg["tok_gap"])
    ctx.out_queue[1] = [bytes.fromhex(q) for q in cfg["queue"]]
    cons = su.StreamConsumer("out1_", cfg.get("consumer") or [])
    ops = scn["ops"]
    nq = len(cfg["queue"])
    drain_budget = 2 * nq + 6
    state = {"drain": 0}

    def script(h):
        yield from h.idle(4)
        if cfg.get("high_speed"):
            yield from hs_handshake(h)
            probes["high_speed_runs"] += 1
        for op in ops:
            k = op["op"]
            if k == "out":
                yield from su.txn_out(h, ctx, 1, fault=op.get("fault"))
            elif k == "ping":
                yield from su.txn_ping(h, ctx, 1)
            elif k == "idle":
                yield from h.idle(op["n"])
            elif k == "sof":
                yield from su.txn_sof(h, ctx, op["frame"])
            elif k == "tok_other":
                ctx.fault("interleave_other_ep")
                t0, t_end = yield from h.send(token_packet(op["pid"], 0, op["ep"]))
                r = yield from h.recv(ctx.timeout)
                if r is not None:
                    ctx.n_recv += 1
                ctx.txns.append({"kind": "tok_other", "ep": None, "t_tok_start": t0, "t_tok": t_end, "t_done": h.t,
                                 "resp": None if r is None else r["data"].hex()})
                yield from h.idle(ctx.turn)
            else:
                raise ValueError(k)
        # ---- fault-free drain with an always-ready consumer ----
        cons.release = True
        yield from h.idle(bsize + 12)
        while ctx.out_head.get(1, 0) < nq and state["drain"] < drain_budget:
            yield from su.txn_out(h, ctx, 1)
            state["drain"] += 1
            yield from h.idle(mps + 8)
        yield from h.idle(bsize + 40)

    txr = cfg["txready"] if cfg["txready"] == "always" else tuple(cfg["txready"])
    host = UTMIHost(script, idle_data=cfg.get("idle_data"), byte_period=cfg["byte_period"], pre=cfg["pre"], post=cfg["post"], gap_pattern=cfg["gaps"], txready=txr)
    per_byte = cfg["byte_period"] + (max(cfg["gaps"]) if cfg["gaps"] else 0)
    per_txn = (mps + 10) * per_byte + 2 * ctx.timeout + 3 * ctx.turn + ctx.tok_gap + 60
    max_cycles = (HS_HANDSHAKE_CYCLES if cfg.get("high_speed") else 0) + 800 + sum(op.get("n", 0) for op in ops) + (len(ops) + drain_budget) * (per_txn + mps + 8) + 3 * bsize
    log = bench.run([host, cons], max_cycles, init=init)
    if not host._done:
        raise RuntimeError(f"host script did not finish within {max_cycles} cycles")
    if host.tx_during_rx:
        raise RuntimeError("host model transmitted while the device was transmitting (harness bug)")

    # ---- oracle ----
    mine = [x for x in ctx.txns if x.get("ep") == 1]
    base = {"variant": variant}
    summ = su.check_out_stream(viol, {k.split(".")[1]: k for k in RULES}, mine, cons.taken, mps, bsize, cons, base=base)
    for x in ctx.txns:
        if x["kind"] == "tok_other" and x.get("resp") is not None and not viol:
            viol.add("C13.response", x["t_tok"], f"device answered a token for another endpoint: {x['resp']}",
                     kind="answered_other_token", **base)
    if len(host.tx_packets) != ctx.n_recv and not viol:
        viol.add("C13.response", host.tx_packets[-1]["start"], f"{len(host.tx_packets) - ctx.n_recv} unsolicited device "
                 f"transmission(s)", kind="unsolicited", **base)
    if ctx.out_head.get(1, 0) < nq and not viol:
        viol.add("C13.progress", log.cycles, f"host could not deliver its queue in the fault-free drain: {ctx.out_head.get(1, 0)} of "
                 f"{nq} packets ACKed after {state['drain']} extra attempts with an always-ready consumer", kind="drain_stuck", **base)

    # ---- probes ----
    probes["nak_no_room"] += summ["nak_no_room"]
    probes["zlp_accepted"] += summ["zlp_new"]
    probes["full_then_zlp_then_packet"] += summ["full_zlp_then_packet"]
    probes["ping_ack"] += summ["ping_ack"]
    probes["ping_nak"] += summ["ping_nak"]
    prev = None
    for x in mine:
        if x["kind"] != "out":
            continue
        d = su.parse_data(x["wire"])
        if d is None:
            probes["truncated_ignored" if x.get("fault") == "truncate" else "corrupt_ignored"] += 1
        if prev is not None and x["resp"] == "ACK" and d is not None:
            if prev.get("fault") == "lost_ack" and prev["resp"] == "ACK" and prev["head"] == x["head"]:
                probes["ack_after_lost_ack_dup"] += 1
            if su.parse_data(prev["wire"]) is None and prev["head"] == x["head"]:
                probes["retry_after_corrupt_accepted"] += 1
            if prev["resp"] == "NAK" and prev["head"] == x["head"]:
                probes["retry_after_nak_accepted"] += 1
        if x.get("fault") == "wrong_toggle" and x["resp"] == "ACK":
            probes["wrong_toggle_dup"] += 1
        prev = x
    if summ["nak_no_room"]:
        probes["buffer_filled_runs"] += 1
    if variant == "V2":
        probes["v2_runs"] += 1
    if cons.stall_cycles:
        ctx.fault("backpressure")
    if txr != "always":
        ctx.fault("txready_stall")
    outcome = sorted(set(f"{x['kind']}:{x.get('resp')}" for x in mine))
    sig = hashlib.blake2b(repr((variant, mps, b, sorted(log.fsm_vectors), sorted(ctx.faults), outcome)).encode(),
                          digest_size=8).hexdigest()
    return {"violations": viol.items, "cycles": log.cycles, "faults": ctx.faults, "probes": probes, "sig": sig,
            "nontrivial": summ["acks_new"] > 0 and (summ["naks"] + summ["acks_dup"] + summ["ignored"] > 0),
            "digest": log.digest, "fsm": len(log.fsm_vectors)}
