"""
C37 -- received header packets are accepted, acknowledged and buffered exactly.

DUT: HeaderPacketReceiver (real; buffer_count 4), `enable` held high (the link stays in U0).
Bench, link-partner actor and reference model: engines/usb3_hdr_rx.py (see its docstring).  The partner is a legal
USB3 link partner (it honours the advertised sequence number and credits, retries after LBAD with LRTY + DL-flagged
re-sends); the faults are the ones the statement quantifies over: header CRC-5 / CRC-16 corruption, a wrong sequence
number (ends the U0 history), consumer stalls, PHY-side stalls of the link-command source, keep-alive / LRTY / LXU
requests from the rest of the link layer, not-valid words inside headers, back-to-back packets.
"""

import hashlib

from dsim.kernel import Violations
from models import usb3_link as L
from engines.usb3_hdr_rx import hdr_rx_bench, HdrRxPartner

PROPERTY = "C37"
ENGINE = "usb3_hdr_rx"
CLOCK_HZ = 125e6
RULES = {
    "C37.accept_iff": "a header is offered on the queue iff its CRC-5 and CRC-16 are valid, its sequence number is the expected one and the receiver is not ignoring packets",
    "C37.once_in_order": "every accepted header is delivered to the protocol layer exactly once, unchanged and in order",
    "C37.lgood_per_accept": "the LGOODs sent are exactly: the advertisement (LGOOD_7 after power-on), then one LGOOD_n per accepted header with its sequence number, in order",
    "C37.lbad_then_ignore": "a corrupted header (while not ignoring) yields exactly one LBAD; all further headers are ignored until the partner's retry",
    "C37.credit_order": "LCRD letters cycle A-B-C-D",
    "C37.credit_bound": "credits issued since link-up never exceed buffer count + headers consumed by the protocol layer",
    "C37.credit_return": "every consumed buffer is eventually re-advertised (bounded)",
}
PROBES = ["advertisements", "advertisement_complete", "back_to_back_headers", "header_while_ignoring", "bad_sequence", "accepted_after_retry",
          "all_buffers_full", "retries", "lbad_seen", "lrty_sent_by_dut", "keepalive_sent_by_dut", "lxu_sent_by_dut", "seq_wrapped",
          "headers_accepted"]
META = {
    "components_real": ["HeaderPacketReceiver", "RawHeaderPacketReceiver", "LinkCommandGenerator", "HeaderPacketCRC", "compute_usb_crc5"],
    "components_stubbed": ["link partner (engines.usb3_hdr_rx.HdrRxPartner)", "protocol-layer consumer (queue.ready pattern)",
                           "PHY-side arbiter (source.ready pattern)", "transmitter's LinkCommandDetector (retry_received pulse after the partner's LRTY)",
                           "U0 timers / transmitter events (keepalive_required, retry_required, reject_power_state pulses)"],
    "assumptions": ["the partner is legal: it sends a header only with an unused credit and after the complete advertisement, numbers headers from the "
                    "advertised sequence, re-sends unacknowledged headers (DL set) only after LBAD + LRTY; re-sent headers are not corrupted again",
                    "a wrong sequence number ends the checked history (the link would enter Recovery)",
                    "header packets may follow each other or a link command without idle symbols in between (USB3 allows back-to-back packets)",
                    "retry_received is pulsed 1..3 cycles after the LRTY command word (LinkCommandDetector latency + margin)"],
    "rule": "8-22 partner ops per run: headers of all types (some with DPP) with gaps 0..5, hdr_crc5 / hdr_crc16 / hdr_seq faults, not-valid words inside "
            "headers, unrelated link commands, idle, keepalive / retry_required / LXU requests; consumer and PHY ready patterns (always, periodic, "
            "sparse, random), eager or waiting partner; distinct = FSM vectors + fault kinds + outcome kinds",
}
TIERS = {"quick": {"runs": 4800, "wall": 70}, "thorough": {"runs": 30000, "wall": 900}}

RULEMAP = {"accept_iff": "C37.accept_iff", "once_in_order": "C37.once_in_order", "lgood_per_accept": "C37.lgood_per_accept",
           "lbad_then_ignore": "C37.lbad_then_ignore", "credit_order": "C37.credit_order", "credit_bound": "C37.credit_bound",
           "credit_return": "C37.credit_return"}


def pattern(rng, kinds=("always", "always", "half", "sparse", "rand", "burst")):
    k = rng.choice(kinds)
    if k == "always":
        return [1]
    if k == "half":
        return [1, 0]
    if k == "sparse":
        return [1] + [0] * rng.randint(2, 9)
    if k == "burst":
        return [1] * rng.randint(2, 12) + [0] * rng.randint(5, 40)
    r = [int(rng.random() < rng.choice([0.3, 0.6, 0.85])) for _ in range(rng.randint(5, 31))]
    r[0] = 1
    return r


def gen_header(rng, allow_fault, b2b_bias=0.3):
    t = rng.choice([L.HP_TYPE_LINK_MANAGEMENT, L.HP_TYPE_TRANSACTION, L.HP_TYPE_TRANSACTION, L.HP_TYPE_DATA, L.HP_TYPE_DATA, L.HP_TYPE_ITP])
    op = {"op": "hdr", "dw0": t | (rng.getrandbits(27) << 5), "dw1": rng.getrandbits(32), "dw2": rng.getrandbits(32),
          "hub": rng.choice([0, 0, rng.getrandbits(3)]), "df": int(rng.random() < 0.1), "rsvd": rng.choice([0, 0, 0, rng.getrandbits(3)]),
          "gap": 0 if rng.random() < b2b_bias else rng.choice([1, 1, 2, 5])}
    if t == L.HP_TYPE_DATA and rng.random() < 0.6:
        n = rng.choice([0, 1, 2, 3, 4, 7, 8, 12])
        op["dpp"] = bytes(rng.getrandbits(8) for _ in range(n)).hex()
        op["dw1"] = (op["dw1"] & 0xFFFF) | (n << 16)
    if allow_fault and rng.random() < 0.22:
        k = rng.choice(["hdr_crc5", "hdr_crc16", "hdr_crc16"])
        if k == "hdr_crc5":
            op["fault"] = {"kind": k, "bit": rng.randrange(16, 32)}
        else:
            w, b = rng.choice([(1, rng.randrange(32)), (2, rng.randrange(32)), (3, rng.randrange(32)), (4, rng.randrange(16))])
            op["fault"] = {"kind": k, "word": w, "bit": b}
    if rng.random() < 0.15:
        op["wgaps"] = [[rng.randint(1, 4), rng.choice([1, 1, 2, 4])] for _ in range(rng.choice([1, 1, 2]))]
    return op


def gen_config(rng):
    return {"ready": pattern(rng), "queue_ready": pattern(rng, ("always", "always", "half", "sparse", "rand", "burst", "burst")),
            "rr_lat": rng.choice([1, 1, 2, 3]), "eager": int(rng.random() < 0.5), "idle_valid": rng.choice([1, 1, 0]),
            "lrty_gap": rng.choice([0, 1, 1, 3])}


def gen(rng, tier, index):
    cfg = gen_config(rng)
    nops = rng.randint(8, 16 if tier == "quick" else 22)
    fault_free = rng.random() < 0.15
    ops = []
    for i in range(nops):
        r = rng.random()
        if r < 0.68:
            ops.append(gen_header(rng, not fault_free))
        elif r < 0.76:
            ops.append({"op": "idle", "n": rng.choice([1, 3, 10, 40])})
        elif r < 0.84:
            cmd = rng.choice([L.LGOOD, L.LCRD, L.LDN])
            ops.append({"op": "lcmd", "cmd": cmd, "sub": rng.getrandbits(3) if cmd == L.LGOOD else (rng.getrandbits(2) if cmd == L.LCRD else 0)})
        elif r < 0.90:
            ops.append({"op": "keepalive", "after": rng.choice([0, 0, 3])})
        elif r < 0.96:
            ops.append({"op": "retry_required", "after": rng.choice([0, 0, 3])})
        else:
            ops.append({"op": "lxu", "after": rng.choice([0, 2])})
    if not fault_free and rng.random() < 0.12:
        # a sequence error ends the U0 history
        op = gen_header(rng, False)
        op["fault"] = {"kind": "hdr_seq", "delta": rng.randint(1, 7)}
        ops.append(op)
    return {"engine": ENGINE, "config": cfg, "ops": ops}


def max_cycles_for(scn):
    cfg = scn["config"]
    dens_r = max(1, sum(cfg["ready"])) / len(cfg["ready"])
    dens_q = max(1, sum(cfg["queue_ready"])) / len(cfg["queue_ready"])
    per_op = 40 / dens_r + 60 / dens_q
    return int(1500 + 450 / dens_r + sum(per_op + op.get("n", 0) + op.get("len", 0) + op.get("delay", 0) + 220 * (op["op"] in ("disable", "reset"))
                                         for op in scn["ops"]) * 2)


def execute(scn, rulemap, probe_names):
    bench = hdr_rx_bench()
    viol = Violations()
    probes = {p: 0 for p in probe_names}
    faults = {}
    partner = HdrRxPartner(scn, viol, probes, faults, rulemap)
    cap = max_cycles_for(scn)
    log = bench.run([partner], cap, init={"enable": 1, "src_ready": 1})
    if not viol and not partner.done and not partner.dead:
        raise RuntimeError(f"partner script did not finish within {cap} cycles (op {partner.opi}/{len(scn['ops'])}, waiting for {partner.wait})")
    acc = [h for h in partner.sent_hdrs if h["outcome"] == "accept"]
    probes["headers_accepted"] = probes.get("headers_accepted", 0) + len(acc)
    if len(acc) > 8:
        probes["seq_wrapped"] = probes.get("seq_wrapped", 0) + 1
    stalls = sum(1 for b in scn["config"]["ready"] if not b)
    if stalls:
        faults["ready_stall"] = faults.get("ready_stall", 0) + 1
    if not all(scn["config"]["queue_ready"]):
        faults["consumer_stall"] = faults.get("consumer_stall", 0) + 1
    outcomes = sorted(set(h["outcome"] for h in partner.sent_hdrs))
    sig = hashlib.blake2b(repr((sorted(log.fsm_vectors), sorted(faults), outcomes, sorted(k for k, v in probes.items() if v))).encode(),
                          digest_size=8).hexdigest()
    return {"violations": viol.items, "cycles": log.cycles, "faults": faults, "probes": probes, "sig": sig,
            "nontrivial": len(acc) > 0 and bool(faults), "digest": log.digest, "fsm": len(log.fsm_vectors)}


def run(scn):
    return execute(scn, RULEMAP, PROBES)
