"""
C34 -- word alignment places COM sequences on word boundaries without corrupting data.

DUT: luna.gateware.usb.usb3.physical.alignment.RxWordAligner (pattern COMx4) and RxPacketAligner (patterns SHP SHP SHP EPF /
     SLC SLC SLC EPF), real, standalone, domain ss.
Actors: one literal word stream cut from a flat symbol stream, with optional invalid-word gaps.
Oracle: flat-symbol bookkeeping.  S = all symbols of the valid input words.  An *alignment pattern* starting at symbol index
p fixes the word grid to p mod 4.  From the output word that shows the pattern onward, every valid output word must be the
next four symbols of S (no loss, no duplication) until a pattern with a different p mod 4 arrives; the few words around a
change of offset are not checked (the statement only speaks about data following the sequence).
"""

import hashlib

from dsim.kernel import make_bench, cached_bench, Violations
from models import usb3

PROPERTY = "C34"
ENGINE = "usb3_phys"
CLOCK_HZ = 125e6
RULES = {
    "C34.com_word": "after an alignment pattern at a new byte offset the output shows the pattern as one whole word within 3 valid "
                    "output words",
    "C34.conservation": "while the offset is unchanged every valid output word is the next four input symbols (input delayed and "
                        "re-grouped: nothing lost, duplicated or altered; invalid input words contribute nothing)",
    "C34.offset": "alignment_offset equals the pattern's byte offset (index of its first symbol modulo 4) while aligned to it",
}
PROBES = ["aligned_offset_0", "aligned_offset_1", "aligned_offset_2", "aligned_offset_3", "offset_changes", "pattern_same_offset",
          "pattern_straddles_invalid_gap", "invalid_word_gap", "isolated_com_ignored", "packet_aligner_runs", "slc_pattern",
          "change_right_after_change"]
META = {
    "components_real": ["luna.gateware.usb.usb3.physical.alignment.RxWordAligner", "luna.gateware.usb.usb3.physical.alignment.RxPacketAligner"],
    "components_stubbed": ["symbol stream source (literal words, literal valid pattern)"],
    "assumptions": ["alignment patterns are isolated: the symbols next to a COMx4 run are not COM (runs of exactly four), so exactly "
                    "one byte offset matches", "inputs change only on the clock"],
    "rule": "flat symbol stream of 200-1600 symbols: counter data, K symbols, isolated COMs, alignment patterns whose offset is moved "
            "by inserting 1-3 symbols (offset changes mid-stream, also back to back), TS-like repetitions at the same offset; "
            "30% of runs with invalid-word gaps (also inside a straddling pattern)",
}
TIERS = {"quick": {"runs": 9000, "wall": 70}, "thorough": {"runs": 60000, "wall": 900}}

PATTERNS = {
    "word": [[(usb3.COM, 1)] * 4],
    "packet": [[(usb3.SHP, 1)] * 3 + [(usb3.EPF, 1)], [(usb3.SLC, 1)] * 3 + [(usb3.EPF, 1)]],
}
SPECIAL = {"word": {usb3.COM}, "packet": {usb3.SHP, usb3.SLC, usb3.EPF}}


def gen(rng, tier, index):
    kind = rng.choice(["word", "word", "packet"])
    n = rng.randint(200, 1600 if tier == "quick" else 6000)
    gaps = rng.random() < 0.3
    special = SPECIAL[kind]
    ks = [k for k in usb3.K_SYMBOLS if k not in special and k != usb3.SKP]
    syms = []
    ctr = rng.getrandbits(8)

    def filler(k, allow_isolated=True):
        nonlocal ctr
        for j in range(k):
            ctr = (ctr + 1) & 0xFF
            r = rng.random()
            if r < 0.80:
                syms.append([ctr, 0])
            elif r < 0.90:
                syms.append([rng.choice(ks), 1])
            elif r < 0.95 and kind == "word":
                syms.append([usb3.COM, 0])                      # 0xBC data byte: not a comma
            elif allow_isolated and 0 < j < k - 1 and kind == "word":
                syms.append([usb3.COM, 1])                      # isolated COM: surrounded by non-COM filler
                ctr = (ctr + 1) & 0xFF
                syms.append([ctr, 0])
            else:
                syms.append([ctr, 0])

    def safe_sym():
        nonlocal ctr
        ctr = (ctr + 1) & 0xFF
        syms.append([ctr, 0])

    filler(rng.randint(0, 12))
    while len(syms) < n:
        ph = rng.choice(["pattern", "pattern", "ts_repeat", "shift", "data", "double_change"])
        if ph == "data":
            filler(rng.randint(4, 60))
            continue
        if ph == "shift":
            filler(rng.randint(1, 3), allow_isolated=False)       # moves the offset of whatever comes next
            continue
        reps = rng.randint(2, 6) if ph == "ts_repeat" else (2 if ph == "double_change" else 1)
        for r in range(reps):
            safe_sym()
            pat = rng.choice(PATTERNS[kind])
            syms.extend([list(s) for s in pat])
            safe_sym()
            if ph == "ts_repeat":
                filler(10, allow_isolated=False)                  # 1 + 4 + 1 + 10 = 16 symbols: same offset again
            elif ph == "double_change":
                filler(rng.randint(0, 3), allow_isolated=False)   # next pattern almost immediately, usually at another offset
            else:
                filler(rng.randint(2, 30))
    while len(syms) % 4:
        safe_sym()
    words = usb3.pack_stream([tuple(s) for s in syms])
    ops = []
    for d, c in words:
        if gaps and rng.random() < 0.15:
            for _ in range(rng.randint(1, 3)):
                ops.append([rng.choice([usb3.COM_WORD[0], rng.getrandbits(32)]), rng.choice([0xF, rng.getrandbits(4)]), 0])
        ops.append([d, c, 1])
    return {"engine": ENGINE, "config": {"dut": kind}, "ops": ops}


def _bench(kind):
    def factory():
        from luna.gateware.usb.usb3.physical.alignment import RxWordAligner, RxPacketAligner
        dut = RxWordAligner() if kind == "word" else RxPacketAligner()
        ins = {"data": dut.sink.data, "ctrl": dut.sink.ctrl, "valid": dut.sink.valid, "src_ready": dut.source.ready}
        outs = {"ready": dut.sink.ready, "o_valid": dut.source.valid, "o_data": dut.source.data, "o_ctrl": dut.source.ctrl,
                "offset": dut.alignment_offset}
        return make_bench(dut, clocks={"ss": 1 / 125e6}, main="ss", ins=ins, outs=outs)
    return cached_bench(("c34", kind), factory)


class _Actor:
    DRAIN = 5
    WINDOW = 3          # valid output words that may pass between a pattern at a new offset and its appearance as a word

    def __init__(self, scn, viol, probes):
        self.ops = scn["ops"]
        self.kind = scn["config"]["dut"]
        self.pats = [list(p) for p in PATTERNS[self.kind]]
        self.viol, self.pr = viol, probes
        self.S = []                  # flat symbols of accepted valid input words
        self.events = []             # pattern start indices found in S (in order), not yet consumed by the oracle
        self.scan = 0                # S index up to which patterns were searched
        self.pos = None              # next expected output word = S[pos:pos+4]; None = not aligned yet / in transition
        self.offset = None
        self.pending = None          # (p, words_left): waiting for the pattern word of a new offset
        self.dead = False
        self.classes = set()
        self.checked_words = 0
        self.last_valid_t = None
        self.gap_since_last_valid = False
        self.last_change_word = -100
        self.cur = None
        self.last_event = -1
        self.gap_marks = []
        self.old_pos = None

    def drive(self, t):
        if t < len(self.ops):
            d, c, v = self.ops[t]
        else:
            d, c, v = 0x03020100 + 0x04040404 * ((t - len(self.ops)) & 15), 0, 1       # drain filler (valid, no pattern)
        self.cur = (d, c, v)
        return {"data": d, "ctrl": c, "valid": v, "src_ready": 1}

    def _fail(self, rule, t, msg, **shape):
        self.viol.add(rule, t, f"[{self.kind} aligner] " + msg, **shape)
        self.dead = True
        return True

    def _scan_patterns(self):
        S = self.S
        i = max(0, self.scan - 3, self.last_event + 1)
        while i + 4 <= len(S):
            quad = S[i:i + 4]
            if quad in self.pats:
                self.events.append(i)
                self.last_event = i
                if any(i < g < i + 4 for g in self.gap_marks[-3:]):
                    self.pr["pattern_straddles_invalid_gap"] += 1
                if self.kind == "packet" and quad[0][0] == usb3.SLC:
                    self.pr["slc_pattern"] += 1
            i += 1
        self.scan = len(S)

    def observe(self, t, o):
        if self.dead:
            return True
        pr = self.pr
        d, c, v = self.cur
        if not o["ready"]:
            return self._fail("C34.conservation", t, "sink.ready low", what="not_ready")
        # ---- input -------------------------------------------------------------------------------------------------
        if v:
            if self.gap_since_last_valid:
                self.gap_marks.append(len(self.S))
                self.gap_since_last_valid = False
            self.S.extend(usb3.unpack_word(d, c))
            self._scan_patterns()
        elif t < len(self.ops):
            pr["invalid_word_gap"] += 1
            self.gap_since_last_valid = True
        # ---- consume pattern events -----------------------------------------------------------------------------------
        while self.events:
            p = self.events[0]
            if self.pos is not None and (p - self.pos) % 4 == 0 and self.pending is None:
                self.events.pop(0)                 # same offset: plain conservation covers it
                pr["pattern_same_offset"] += 1
                continue
            if self.pending is None:
                self.events.pop(0)
                self.pending = [p, self.WINDOW]
                self.old_pos = self.pos          # the stream at the previous offset may continue for a few words
                self.pos = None
                continue
            # a further pattern while still waiting for the previous one to be shown: handled afterwards, in order
            pr["change_right_after_change"] += 1
            break
        # ---- output ----------------------------------------------------------------------------------------------------
        if o["o_valid"]:
            out = usb3.unpack_word(o["o_data"], o["o_ctrl"])
            if self.pending is not None:
                p, left = self.pending
                op_ = self.old_pos
                if op_ is not None and op_ + 4 <= p and out == self.S[op_:op_ + 4]:
                    # still a word of the stream at the previous offset (possibly an earlier pattern instance)
                    self.old_pos = op_ + 4
                    if left <= 0:
                        return self._fail("C34.com_word", t, f"pattern at symbol {p} (byte offset {p % 4}) did not appear as a whole "
                                          f"word: the output continues at the previous offset", offset=p % 4)
                    self.pending[1] = left - 1
                elif out == self.S[p:p + 4]:
                    self.pending = None
                    self.pos = p + 4
                    if self.offset is not None and self.offset != p % 4:
                        pr["offset_changes"] += 1
                    self.offset = p % 4
                    pr[f"aligned_offset_{self.offset}"] += 1
                    self.classes.add(("sync", self.offset))
                    if o["offset"] != self.offset:
                        return self._fail("C34.offset", t, f"alignment_offset={o['offset']} but the pattern started at byte offset "
                                          f"{self.offset}", expected=self.offset, got=o["offset"])
                else:
                    self.old_pos = None
                    if left <= 0:
                        return self._fail("C34.com_word", t, f"pattern at symbol {p} (byte offset {p % 4}) did not appear as a whole "
                                          f"word; output word {out}", offset=p % 4)
                    self.pending[1] = left - 1
            elif self.pos is not None:
                exp = self.S[self.pos:self.pos + 4]
                if len(exp) < 4:
                    return self._fail("C34.conservation", t, f"output word {out} before its symbols were received", what="early")
                if out != exp:
                    return self._fail("C34.conservation", t, f"output word {out}, expected the next input symbols {exp} (offset "
                                      f"{self.offset})", what="wrong_symbols", offset=self.offset)
                self.pos += 4
                self.checked_words += 1
                if o["offset"] != self.offset:
                    return self._fail("C34.offset", t, f"alignment_offset={o['offset']} while aligned at byte offset {self.offset}",
                                      expected=self.offset, got=o["offset"])
                self.classes.add(("word", self.offset, any(s[1] for s in out)))
        # lag: the aligned output may trail the input by at most 3 words
        if self.pos is not None and len(self.S) - self.pos > 15:
            return self._fail("C34.conservation", t, f"output trails the input by {len(self.S) - self.pos} symbols", what="lag")
        if t >= len(self.ops) + self.DRAIN:
            return True
        return False


def run(scn):
    kind = scn["config"]["dut"]
    bench = _bench(kind)
    viol = Violations()
    probes = {p: 0 for p in PROBES}
    actor = _Actor(scn, viol, probes)
    log = bench.run([actor], max_cycles=len(scn["ops"]) + actor.DRAIN + 2)
    if not viol and log.cycles < len(scn["ops"]) + actor.DRAIN:
        raise RuntimeError("run ended early")
    if kind == "packet":
        probes["packet_aligner_runs"] += 1
    # isolated COMs in the valid stream (coverage only)
    S = actor.S
    probes["isolated_com_ignored"] += sum(1 for i in range(1, len(S) - 1) if S[i] == usb3.COM_SYM and S[i - 1] != usb3.COM_SYM
                                           and S[i + 1] != usb3.COM_SYM) if kind == "word" else 0
    faults = {"invalid_word_gap": probes["invalid_word_gap"], "offset_change": probes["offset_changes"]}
    sig = hashlib.blake2b(repr((kind, sorted(actor.classes), probes["offset_changes"], probes["pattern_straddles_invalid_gap"] > 0,
                                probes["change_right_after_change"] > 0)).encode(), digest_size=8).hexdigest()
    return {"violations": viol.items, "cycles": log.cycles, "faults": faults, "probes": probes, "sig": sig,
            "nontrivial": actor.checked_words > 8 and probes["offset_changes"] > 0, "digest": log.digest,
            "fsm": len(log.fsm_vectors)}


def shrink_candidates(scn):
    import copy
    ops = scn["ops"]
    for i in range(len(ops) - 1, -1, -1):
        if not ops[i][2]:
            cand = copy.deepcopy(scn)
            del cand["ops"][i]
            yield cand
