"""
C38 -- link re-entry always re-advertises sequence number and credits (crash points).

DUT: HeaderPacketReceiver (real) with `enable` and `usb_reset` driven by the scenario.  Same bench, partner and
reference model as C37 (engines/usb3_hdr_rx.py); on top of C37's traffic the scenario disables the link (for 1..200
cycles, optionally with a USB reset during the outage or on the falling edge) or pulses `usb_reset` while enabled, at a
drawn number of cycles after an event that makes the receiver send a link command (header accepted -> LGOOD, header
consumed -> LCRD, corrupted header -> LBAD, retry_required -> LRTY, keepalive_required -> LUP, reject_power_state ->
LXU), so that the crash point lands in every state of the command FSM, on the LCSTART word or on the command word, with
and without PHY stalls stretching the command.

Oracle: after every re-enable / reset the commands sent -- ignoring at most one command that was already being
presented at the event -- start with LGOOD(last accepted sequence number; 7 after a reset) and LCRD_A..D, nothing is
sent while disabled, the advertisement completes within 200 PHY-ready cycles, the queue is empty and the next header
(numbered from the advertisement) is accepted and delivered.

Second scenario family (18 scenarios at the start of the quick tier, 12 in every 512 in the thorough tier;
engines/usb3_link_layer.py): the complete, unmodified USB3LinkLayer (LTSSM + training-set transceiver + idle handshake
+ timers + transmitter + header receiver + arbiter as wired by layer.py) against a host model sitting where the PHY
would be. `enable` and `usb_reset` of the header receiver are then whatever layer.py derives from the LTSSM, and the
statement's "re-enabled after leaving U0, or after a USB reset" is exercised through every way the real link leaves
and re-enters U0: Recovery (host- and device-initiated), Hot Reset (TS2 Reset bit), Warm Reset (LFPS), VBUS loss, and
Recovery with a Warm Reset during the outage -- each after a drawn number of accepted headers and a drawn distance
from the last event that makes the device send a link command. The oracle is the same statement observed at the PHY-
side sink and at `header_source`: after every rise of `trained` the commands start with LGOOD(7 if a USB reset
happened since the last U0, else the last accepted number) + LCRD_A..D, no command while `trained` is low (beyond one
in flight), and headers numbered from the advertisement are acknowledged, delivered unchanged and do not throw the
link out of U0. The 65536-TSEQ burst of Polling.RxEQ is fast-forwarded by pre-loading the TSEQ emitter's burst counter
(see the engine's docstring); the thorough tier also plays it in full.
"""

import hashlib

from dsim.kernel import Violations
from models import usb3_link as L
from engines import usb3_link_layer as LL
from checks import c37

PROPERTY = "C38"
ENGINE = "usb3_hdr_rx"
CLOCK_HZ = 125e6
RULES = {
    "C38.readvertise": "after every re-enable / reset the first commands (beyond one already in flight) are exactly LGOOD(last accepted | 7 after reset), LCRD_A, B, C, D; nothing is sent while disabled"
                       " [also at the level of the composed USB3LinkLayer: after every rise of `trained`, with reset = Hot Reset / Warm Reset / VBUS loss since the last U0]",
    "C38.fresh_state": "after re-entry the queue is empty, no stale LBAD / ignore / pending state survives and headers numbered from the advertisement are accepted, acknowledged and delivered"
                       " [composed link layer: ... on header_source, and the link does not leave U0 by itself]",
    "C38.progress": "the advertisement completes within 200 cycles (PHY ready) of the re-enable / reset [composed link layer: of the rise of `trained`]",
}
PROBES = ["advertisements", "advertisement_complete", "disable_none", "disable_lcstart_word", "disable_command_word",
          "reset_while_enabled_none", "reset_while_enabled_lcstart_word", "reset_while_enabled_command_word",
          "inflight_LGOOD", "inflight_LCRD", "inflight_LBAD", "inflight_LRTY", "inflight_LUP", "inflight_LXU",
          "headers_accepted", "all_buffers_full", "lbad_seen", "retries",
          # composed USB3LinkLayer scenarios
          "ll_scenarios", "ll_u0_entries", "ll_advertisement_complete", "ll_reentry_after_recovery", "ll_reentry_after_bad_seq",
          "ll_reentry_after_hot_reset", "ll_reentry_after_warm_reset", "ll_reentry_after_vbus", "ll_reset_with_nonzero_sequence",
          "ll_command_in_flight_at_link_down", "ll_headers_accepted", "ll_headers_delivered", "ll_tseq_fast_forward",
          "ll_link_down", "ll_advertisements"]
META = {
    "components_real": c37.META["components_real"] + [
        "link-layer scenarios: USB3LinkLayer complete (LTSSMController, TSTransceiver, IdleHandshakeHandler, LinkMaintenanceTimers, "
        "PacketTransmitter, HeaderPacketReceiver, DataPacketReceiver / Transmitter, SuperSpeedStreamArbiter, wiring of layer.py)"],
    "components_stubbed": c37.META["components_stubbed"] + ["LTSSM (enable / usb_reset driven by the scenario)"] + [
        "link-layer scenarios: physical layer (stub object with the signals layer.py uses, driven by engines.usb3_link_layer.LinkLayerHost: "
        "receiver detection, LFPS, TSEQ / TS1 / TS2 / idle, link commands, headers), protocol layer (header_source.ready pattern)"],
    "assumptions": c37.META["assumptions"] + [
        "the partner's link goes down with the DUT's: it sends no header within 5 cycles before a disable / reset and none while disabled; "
        "after re-entry it waits for the complete advertisement and numbers headers from it; headers unacknowledged at the outage are dropped",
        "a command presented no later than one cycle after the event counts as 'in flight' (two or three cycles after: only if it is not the expected LGOOD)",
        "usb_reset is a one-cycle strobe while enabled; multi-cycle resets are only generated while disabled",
        "link-layer scenarios: the host sits behind the (de)scrambler: `source` and `raw_source` carry the same unscrambled words; it is a legal "
        "downstream port: it answers the device's training sets in lock step, sends its own advertisement (LGOOD_7, LCRD_A..D) after the "
        "device's, sends headers only with credit, and no header within 5 cycles before reset signalling; it never sends header packets of its "
        "own to be retried (a corrupted header is only ever the last one before leaving U0)",
        "link-layer scenarios: a USB reset is: the Hot Reset handshake (host sent TS2 with Reset until the device answered with Reset TS2s), "
        "LFPS Warm Reset signalling (1..200 cycles), or VBUS loss (1..200 cycles); a link that fails to train / re-train at all is reported as a "
        "harness error (the LTSSM is not C38's subject)",
        "link-layer scenarios: one command counts as in flight if the sink started to present it no later than 2 cycles after `trained` fell "
        "(1 as stand-alone + 1 for the registered arbiter), or if the sink has carried no logical idle since then (training sets have "
        "precedence in the arbiter, so the receiver may have been presenting the command since the link went down); deliveries on "
        "header_source while `trained` is low are attributed to the old epoch",
        "link-layer scenarios: Polling.RxEQ is fast-forwarded by pre-loading the TSEQ emitter's ordered-set counter with 65536 - k (k = 2..24) in the "
        "first RxEQ cycle (simulation state pre-load, no code is patched, all wiring real); thorough tier: 1 in 2048 scenarios plays the full burst"],
    "rule": "C37 traffic with 2-5 crash episodes per run: disable (len 1..200, optional reset during / on the edge) or reset strobe, placed 0..18 cycles after "
            "an op that triggers a link command (hdr / bad hdr / retry_required / keepalive / lxu); distinct = FSM vectors + fault kinds + crash-point classes"
            " || 18 scenarios of the quick tier (thorough: 12 of every 512) drive the complete USB3LinkLayer: power-on bring-up, then 2-3 (thorough: 2-4) U0 epochs each with 0-6 headers / "
            "idle / LGO_U1 and optionally a trigger (corrupted header, LGO_U1, ~1250 idle cycles for a keep-alive), left 0..40 cycles later by "
            "recovery | hot_reset | warm_reset | vbus | bad_seq (device-initiated recovery) | recovery_warm (first kind rotates over all six, so "
            "each is reached in the quick tier), some before the host has seen the advertisement; PHY-ready and consumer stall patterns; 1..4 "
            "headers after the last re-entry",
}
TIERS = {"quick": {"runs": 2500, "wall": 70}, "thorough": {"runs": 30000, "wall": 900, "watchdog": 1500}}

RULEMAP = {"readvertise": "C38.readvertise", "fresh_state": "C38.fresh_state", "progress": "C38.progress"}


def gen(rng, tier, index):
    if is_link_layer_index(index, tier):
        return gen_link_layer(rng, tier, index)
    cfg = c37.gen_config(rng)
    cfg["eager"] = int(rng.random() < 0.7)
    n_ep = rng.randint(2, 4 if tier == "quick" else 5)
    ops = []
    for e in range(n_ep):
        # some ordinary traffic
        for _ in range(rng.randint(0, 4)):
            r = rng.random()
            if r < 0.75:
                ops.append(c37.gen_header(rng, rng.random() < 0.5, b2b_bias=0.0))
            elif r < 0.85:
                ops.append({"op": "idle", "n": rng.choice([1, 3, 10, 30])})
            else:
                ops.append({"op": "lcmd", "cmd": L.LDN, "sub": 0})
        # the trigger that makes the DUT send a command, then the crash
        trig = rng.choice(["hdr", "hdr", "hdr", "bad_hdr", "retry_required", "keepalive", "lxu", "none"])
        if index % 7 == 0 and e == 0:
            trig = ["hdr", "bad_hdr", "retry_required", "keepalive", "lxu", "hdr", "none"][(index // 7) % 7]
        lo = 0
        if trig in ("hdr", "bad_hdr"):
            op = c37.gen_header(rng, False, b2b_bias=0.0)
            op.pop("dpp", None)
            if trig == "bad_hdr":
                op["fault"] = {"kind": "hdr_crc5", "bit": rng.randrange(16, 32)}
            ops.append(op)
            lo = 5
        elif trig != "none":
            ops.append({"op": trig, "after": 0})
        if ops and ops[-1]["op"] == "hdr":
            lo = 5
        delay = rng.randint(lo, lo + rng.choice([4, 8, 13, 25]))
        if rng.random() < 0.7:
            ep = {"op": "disable", "delay": delay, "len": rng.choice([1, 1, 2, 3, 5, 10, 40, 200, rng.randint(1, 200)])}
            r = rng.random()
            if r < 0.12:
                ep["reset"] = "edge"
            elif r < 0.3 and ep["len"] > 2:
                ep["reset"] = "during"
                ep["reset_at"] = rng.randrange(ep["len"])
                ep["reset_len"] = rng.choice([1, 1, 3, 20])
            ops.append(ep)
        else:
            ops.append({"op": "reset", "delay": delay, "len": 1})
        # after re-entry: at least one header to prove the state is fresh
        for _ in range(rng.randint(1, 3)):
            ops.append(c37.gen_header(rng, False, b2b_bias=0.0))
    return {"engine": ENGINE, "config": cfg, "ops": ops}


# --------------------------------------------------------------------------------------------------
# composed link layer (engines/usb3_link_layer.py)
# --------------------------------------------------------------------------------------------------
# Which scenarios drive the complete USB3LinkLayer: positions 1..LL_GROUP of a block of 32 consecutive indices (32 = the runner's
# chunk size: a group lands in one chunk, so that few workers have to elaborate and compile the whole link layer, which costs
# 2-20 s), in the first LL_QUICK_BLOCKS blocks in the quick tier (they start at once: no tail), in LL_THOROUGH_BLOCKS of every
# LL_BLOCK_PERIOD blocks in the thorough tier.
LL_BLOCK = 32
LL_GROUP = 6
LL_QUICK_BLOCKS = 3
LL_BLOCK_PERIOD = 16
LL_THOROUGH_BLOCKS = 2
LL_FULL_PERIOD = 64        # thorough tier: the last scenario of the group in every LL_FULL_PERIOD-th block plays the complete
                           # 65536-TSEQ burst (no fast-forward)


def is_link_layer_index(index, tier="quick"):
    block, pos = divmod(index, LL_BLOCK)
    if not 1 <= pos <= LL_GROUP:
        return False
    return block < LL_QUICK_BLOCKS if tier == "quick" else block % LL_BLOCK_PERIOD < LL_THOROUGH_BLOCKS


def ll_ordinal(index):
    block, pos = divmod(index, LL_BLOCK)
    return block * LL_GROUP + pos - 1


LL_ROTATION = ["hot_reset", "recovery", "warm_reset", "bad_seq", "vbus", "recovery_warm"]
LL_EXITS = ["recovery", "recovery", "recovery", "hot_reset", "hot_reset", "hot_reset", "warm_reset", "warm_reset", "vbus", "bad_seq",
            "recovery_warm"]


def gen_link_layer(rng, tier, index):
    full = tier == "thorough" and index % LL_BLOCK == LL_GROUP and (index // LL_BLOCK) % LL_FULL_PERIOD == 0
    k = rng.choice(["always", "always", "half", "rand", "sparse"])
    ready = {"always": [1], "half": [1, 0], "sparse": [1] + [0] * rng.randint(2, 3)}.get(k) or c37.pattern(rng, ("rand",))
    if full or all(ready):
        ready = [1]
    cfg = {"ready": ready, "queue_ready": c37.pattern(rng, ("always", "always", "half", "sparse", "rand", "burst", "burst")),
           "ff": None if full else [rng.randint(2, 24) for _ in range(8)], "lfps_gap": rng.choice([1, 4, 9]),
           "hot_extra": rng.choice([0, 2, 8, 20])}
    n_ep = rng.randint(1, 2) if full else rng.randint(2, 3 if tier == "quick" else 4)
    kinds = [rng.choice(LL_EXITS) for _ in range(n_ep)]
    # every reset kind / plain recovery leads the list in turn, so that a small number of scenarios covers all of them
    kinds[0] = LL_ROTATION[ll_ordinal(index) % len(LL_ROTATION)]
    if full:
        # (one 65536-TSEQ burst per scenario: only the ways out of U0 that do not start the bring-up over)
        kinds[0] = ["hot_reset", "recovery", "bad_seq"][(index // LL_BLOCK // LL_FULL_PERIOD) % 3]
        kinds = [k if k not in ("warm_reset", "vbus", "recovery_warm") else "hot_reset" for k in kinds]
    ops = []

    def traffic(lo, hi):
        for _ in range(rng.randint(lo, hi)):
            r = rng.random()
            if r < 0.8:
                op = c37.gen_header(rng, False, b2b_bias=0.2)
                op.pop("dpp", None)
                op.pop("wgaps", None)
                ops.append(op)
            elif r < 0.92:
                ops.append({"op": "idle", "n": rng.choice([1, 3, 10, 30])})
            else:
                ops.append({"op": "lgo"})

    for kind in kinds:
        traffic(0, 6)
        # a trigger that makes the device send a command close to the way out of U0
        r = rng.random()
        if r < 0.15:
            op = c37.gen_header(rng, False, b2b_bias=0.0)
            op.pop("dpp", None)
            op.pop("wgaps", None)
            op["fault"] = {"kind": "hdr_crc5", "bit": rng.randrange(16, 32)}
            ops.append(op)
        elif r < 0.25:
            ops.append({"op": "lgo"})
        elif r < 0.35:
            ops.append({"op": "idle", "n": 1250 - rng.randint(0, 60)})       # a keep-alive (LUP) falls due around the way out
        ep = {"op": "exit", "kind": kind, "delay": rng.choice([0, 0, 1, 2, 3, 5, 8, 13, 25, rng.randint(0, 40)]),
              "len": rng.choice([1, 1, 2, 5, 40, 200, rng.randint(1, 200)])}
        if rng.random() < 0.12:
            ep["early"] = 1
        if kind == "bad_seq":
            ep.update({"delta": rng.randint(1, 7), "dw0": rng.getrandbits(32) & ~0x1F | 4, "dw1": rng.getrandbits(32), "dw2": rng.getrandbits(32)})
        if kind == "recovery_warm":
            ep["ts1_more"] = rng.choice([0, 4, 20, 60])
        ops.append(ep)
    # after the last re-entry: headers prove that the receive state is fresh
    traffic(1, 4)
    if not any(o["op"] == "hdr" for o in ops[-4:]):
        op = c37.gen_header(rng, False, b2b_bias=0.0)
        op.pop("dpp", None)
        op.pop("wgaps", None)
        ops.append(op)
    return {"engine": LL.__name__.split(".")[-1], "config": cfg, "ops": ops}


def ll_max_cycles(scn):
    cfg = scn["config"]
    dens = max(1, sum(cfg["ready"])) / len(cfg["ready"])
    dens_q = max(1, sum(cfg["queue_ready"])) / len(cfg["queue_ready"])
    burst = 0 if cfg.get("ff") is not None else 8 * LL.TSEQ_SETS + 2000
    total = 3000 / dens + burst
    for op in scn["ops"]:
        k = op["op"]
        if k == "exit":
            total += 3500 / dens + op.get("len", 0) + op.get("delay", 0) + 4 * op.get("ts1_more", 0)
            if op["kind"] in ("warm_reset", "vbus", "recovery_warm"):
                total += burst
        elif k == "hdr":
            total += 60 / dens + 60 / dens_q + 40
        elif k == "idle":
            total += op["n"] + 5
        else:
            total += 40
    return int(total * 1.5) + 2000


def execute_link_layer(scn):
    try:
        bench = LL.link_layer_bench()
    except LL.FastForwardUnavailable:
        # a renamed internal counter must not turn into an alarm or a harness error: skip, and say so in the probes
        probes = {p: 0 for p in PROBES}
        probes["ll_skipped_fast_forward_unavailable"] = 1
        return {"violations": [], "cycles": 0, "faults": {}, "probes": probes, "sig": "ll-skipped", "nontrivial": False,
                "digest": "skipped", "fsm": 0}
    viol = Violations()
    probes = {p: 0 for p in PROBES}
    faults = {}
    host = LL.LinkLayerHost(scn, viol, probes, faults, RULEMAP)
    cap = ll_max_cycles(scn)
    log = bench.run([host], cap, init=dict(LL.INIT_PINS))
    if not viol and not host.done and not host.dead:
        raise RuntimeError(f"host script did not finish within {cap} cycles (phase {host.phase}, op {host.opi}/{len(scn['ops'])})")
    probes["ll_scenarios"] += 1
    probes["ll_headers_accepted"] += host.accepted_total
    if not all(scn["config"]["ready"]):
        faults["ready_stall"] = 1
    if not all(scn["config"]["queue_ready"]):
        faults["consumer_stall"] = 1
    sig = hashlib.blake2b(repr(("link_layer", sorted(log.fsm_vectors), sorted(faults), host.exits,
                                sorted(k for k, v in probes.items() if v))).encode(), digest_size=8).hexdigest()
    return {"violations": viol.items, "cycles": log.cycles, "faults": faults, "probes": probes, "sig": sig,
            "nontrivial": host.epochs > 1 and host.accepted_total > 0, "digest": log.digest, "fsm": len(log.fsm_vectors)}


def run(scn):
    if scn.get("engine") == "usb3_link_layer":
        return execute_link_layer(scn)
    return c37.execute(scn, RULEMAP, PROBES)
