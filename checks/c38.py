"""
C38 -- link re-entry always re-advertises sequence number and credits (crash points).

DUT: HeaderPacketReceiver (real) with `enable` and `usb_reset` driven by the scenario.  Same bench, partner and
reference model as C37 (engines/usb3_hdr_rx.py); on top of C37's traffic the scenario disables the link (for 1..200
cycles, optionally with a USB reset during the outage or on the falling edge) or pulses `usb_reset` while enabled, at a
drawn number of cycles after an event that makes the receiver send a link command (header accepted -> LGOOD, header
consumed -> LCRD, corrupted header -> LBAD, retry_required -> LRTY, keepalive_required -> LUP, reject_power_state ->
LXU), so that the crash point lands in every state of the command FSM, on the LCSTART word or on the command word, with
and without PHY stalls stretching the command.

Oracle: after every re-enable / reset the commands sent -- ignoring at most one command that was already being
presented at the event -- start with LGOOD(last accepted sequence number; 7 after a reset) and LCRD_A..D, nothing is
sent while disabled, the advertisement completes within 200 PHY-ready cycles, the queue is empty and the next header
(numbered from the advertisement) is accepted and delivered.
"""

from models import usb3_link as L
from checks import c37

PROPERTY = "C38"
ENGINE = "usb3_hdr_rx"
CLOCK_HZ = 125e6
RULES = {
    "C38.readvertise": "after every re-enable / reset the first commands (beyond one already in flight) are exactly LGOOD(last accepted | 7 after reset), LCRD_A, B, C, D; nothing is sent while disabled",
    "C38.fresh_state": "after re-entry the queue is empty, no stale LBAD / ignore / pending state survives and headers numbered from the advertisement are accepted, acknowledged and delivered",
    "C38.progress": "the advertisement completes within 200 cycles (PHY ready) of the re-enable / reset",
}
PROBES = ["advertisements", "advertisement_complete", "disable_none", "disable_lcstart_word", "disable_command_word",
          "reset_while_enabled_none", "reset_while_enabled_lcstart_word", "reset_while_enabled_command_word",
          "inflight_LGOOD", "inflight_LCRD", "inflight_LBAD", "inflight_LRTY", "inflight_LUP", "inflight_LXU",
          "headers_accepted", "all_buffers_full", "lbad_seen", "retries"]
META = {
    "components_real": c37.META["components_real"],
    "components_stubbed": c37.META["components_stubbed"] + ["LTSSM (enable / usb_reset driven by the scenario)"],
    "assumptions": c37.META["assumptions"] + [
        "the partner's link goes down with the DUT's: it sends no header within 5 cycles before a disable / reset and none while disabled; "
        "after re-entry it waits for the complete advertisement and numbers headers from it; headers unacknowledged at the outage are dropped",
        "a command presented no later than one cycle after the event counts as 'in flight' (two or three cycles after: only if it is not the expected LGOOD)",
        "usb_reset is a one-cycle strobe while enabled; multi-cycle resets are only generated while disabled"],
    "rule": "C37 traffic with 2-5 crash episodes per run: disable (len 1..200, optional reset during / on the edge) or reset strobe, placed 0..18 cycles after "
            "an op that triggers a link command (hdr / bad hdr / retry_required / keepalive / lxu); distinct = FSM vectors + fault kinds + crash-point classes",
}
TIERS = {"quick": {"runs": 2500, "wall": 70}, "thorough": {"runs": 30000, "wall": 900}}

RULEMAP = {"readvertise": "C38.readvertise", "fresh_state": "C38.fresh_state", "progress": "C38.progress"}


def gen(rng, tier, index):
    cfg = c37.gen_config(rng)
    cfg["eager"] = int(rng.random() < 0.7)
    n_ep = rng.randint(2, 4 if tier == "quick" else 5)
    ops = []
    for e in range(n_ep):
        # some ordinary traffic
        for _ in range(rng.randint(0, 4)):
            r = rng.random()
            if r < 0.75:
                ops.append(c37.gen_header(rng, rng.random() < 0.5, b2b_bias=0.0))
            elif r < 0.85:
                ops.append({"op": "idle", "n": rng.choice([1, 3, 10, 30])})
            else:
                ops.append({"op": "lcmd", "cmd": L.LDN, "sub": 0})
        # the trigger that makes the DUT send a command, then the crash
        trig = rng.choice(["hdr", "hdr", "hdr", "bad_hdr", "retry_required", "keepalive", "lxu", "none"])
        if index % 7 == 0 and e == 0:
            trig = ["hdr", "bad_hdr", "retry_required", "keepalive", "lxu", "hdr", "none"][(index // 7) % 7]
        lo = 0
        if trig in ("hdr", "bad_hdr"):
            op = c37.gen_header(rng, False, b2b_bias=0.0)
            op.pop("dpp", None)
            if trig == "bad_hdr":
                op["fault"] = {"kind": "hdr_crc5", "bit": rng.randrange(16, 32)}
            ops.append(op)
            lo = 5
        elif trig != "none":
            ops.append({"op": trig, "after": 0})
        if ops and ops[-1]["op"] == "hdr":
            lo = 5
        delay = rng.randint(lo, lo + rng.choice([4, 8, 13, 25]))
        if rng.random() < 0.7:
            ep = {"op": "disable", "delay": delay, "len": rng.choice([1, 1, 2, 3, 5, 10, 40, 200, rng.randint(1, 200)])}
            r = rng.random()
            if r < 0.12:
                ep["reset"] = "edge"
            elif r < 0.3 and ep["len"] > 2:
                ep["reset"] = "during"
                ep["reset_at"] = rng.randrange(ep["len"])
                ep["reset_len"] = rng.choice([1, 1, 3, 20])
            ops.append(ep)
        else:
            ops.append({"op": "reset", "delay": delay, "len": 1})
        # after re-entry: at least one header to prove the state is fresh
        for _ in range(rng.randint(1, 3)):
            ops.append(c37.gen_header(rng, False, b2b_bias=0.0))
    return {"engine": ENGINE, "config": cfg, "ops": ops}


def run(scn):
    return c37.execute(scn, RULEMAP, PROBES)
