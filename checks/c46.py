"""
C46 -- SuperSpeed IN endpoints deliver data and signal readiness correctly.

DUT: luna.gateware.usb.usb3.endpoints.stream.SuperSpeedStreamInEndpoint(endpoint_number, max_packet_size) (real),
standalone, domain "ss", driven at its SuperSpeedEndpointInterface:

* producer      -- input stream words (full words; only the `last` word of a transfer may be partial) with a literal gap
                   pattern; holds valid+payload until ready;
* host          -- a legal USB3 bulk-IN host at the handshakes_in level: an IN request is an ACK TP with NumP=1 and the
                   sequence number the host expects; after a data packet it ACKs (next sequence, NumP=1 "and give me
                   more" or NumP=0), or asks for a retry (Rty=1, same sequence; or just the same sequence again); after an
                   NRDY it stays silent until ERDY; it also sends ACK TPs for other endpoints (must be ignored);
* data transmitter stub -- takes interface.tx with a literal ready pattern; like the real DataPacketTransmitter it samples
                   tx_sequence_number / tx_length / tx_endpoint_number in the first cycle tx.valid (or tx_zlp) is high;
* TP generator stub -- handshakes_out.ready high, done a literal number of cycles after a send_* request.

Oracle (host-side history): every IN request is answered exactly once -- by a data packet if a complete packet was buffered
(>= 6 cycles earlier), by NRDY otherwise; after an NRDY, ERDY is requested once a packet is available; each data packet
carries the sequence number the host expects; a retry re-sends the identical packet; the payloads the host accepts are
exactly the packetisation of the accepted input stream (max-packet-size chunks, short packet or ZLP at each `last`), in
order, once.
"""

import os
import hashlib

from dsim.kernel import make_bench, Violations
from models.usb3_proto import bytes_of_word, words_of

PROPERTY = "C46"
ENGINE = "usb3_proto"
CLOCK_HZ = 125e6
RULES = {
    "C46.data_or_nrdy": "every IN request is answered exactly once: data packet if a complete packet is held, NRDY otherwise; "
                        "nothing is sent unsolicited",
    "C46.erdy_after_nrdy": "after an NRDY the endpoint requests an ERDY once a packet becomes available",
    "C46.sequence_consecutive": "a data packet carries the sequence number the host expects (consecutive, advancing only on the "
                                "host's ACK)",
    "C46.retry_same_packet": "a retry request is answered with the same packet (sequence, length, payload)",
    "C46.conservation": "the packets accepted by the host carry the accepted input stream exactly once, in order, for this "
                        "endpoint, with a correct length field; everything buffered is eventually delivered",
    "C46.transfer_end": "packets are max-packet-size except at a `last`, where the transfer ends with a short packet or a ZLP",
}
PROBES = ["in_requests", "data_packets", "nrdy", "erdy", "zlp", "short_packet", "full_packet", "retry_requested",
          "retry_same_sequence_no_rty", "ack_without_request", "ack_and_request", "foreign_endpoint_ack", "tx_ready_stall",
          "request_before_data", "second_packet_after_ack", "transfers_completed", "sequence_wrap_31_to_0", "pipelined_short_transfer_runs"]
META = {
    "components_real": ["luna.gateware.usb.usb3.endpoints.stream.SuperSpeedStreamInEndpoint"],
    "components_stubbed": ["stream producer", "USB3 host at the TransactionPacketReceiver interface (handshakes_in)",
                           "DataPacketTransmitter (tx stream consumer, parameter sampling)",
                           "TransactionPacketGenerator (handshakes_out ready/done)"],
    "assumptions": ["legal host: one outstanding IN request; silent after NRDY until ERDY; sequence numbers per USB 3.2 8.12.1.2",
                    "only the last word of a transfer is partial; max packet size is a multiple of 4",
                    "the transaction packet generator is not ready from a request until its done, a literal number of cycles later",
                    "the transmitter samples sequence/length/endpoint in the first cycle of tx.valid or tx_zlp (as the real "
                    "DataPacketTransmitter does)"],
    "rule": "mps 16/32/64 (1024 in thorough), 1-5 transfers of 1..3*mps+ bytes (biased to multiples of mps and to sub-packet "
            "sizes) or one endless stream without `last`; host ops: IN requests with literal delays, ACK+more / ACK only / retry "
            "/ same-sequence, foreign-endpoint ACKs; ~20 % of runs fault-free (no retries, no foreign traffic, ready always)",
}
TIERS = {"quick": {"runs": 6000, "wall": 70}, "thorough": {"runs": 25000, "wall": 900}}

RESP_BOUND = 24          # cycles (not counting tx stalls before the first word) for a response to begin
HELD_MARGIN = 6          # a packet complete this many cycles before the request must be answered with data
ERDY_BOUND = 16
DRAIN_REQUESTS = 12


# ======================================================================================================
# generation
# ======================================================================================================
def gen(rng, tier, index):
    mps = rng.choice([16, 16, 32, 64] + ([1024] if tier != "quick" else []))
    ep = rng.choice([1, 5, 15])
    clean = rng.random() < 0.2
    endless = rng.random() < 0.2
    transfers = []
    if endless:
        n = mps * rng.randint(2, 5) + rng.choice([0, 4, 8])
        transfers.append({"data": bytes(rng.getrandbits(8) for _ in range(n)).hex(), "last": False})
    else:
        for _ in range(rng.randint(1, 5)):
            n = rng.choice([1, 3, 4, 5, mps - 4, mps - 1, mps, mps, mps + 1, mps + 4, 2 * mps, 2 * mps + 3, 3 * mps,
                            rng.randint(1, 3 * mps)])
            transfers.append({"data": bytes(rng.getrandbits(8) for _ in range(n)).hex(), "last": True})
    p_gap = rng.choice([0.0, 0.0, 0.2, 0.6])
    cfg = {
        "mps": mps, "ep": ep, "transfers": transfers,
        "producer_start": rng.choice([0, 0, 5, 30, 80]),
        "producer_gaps": [int(rng.random() < p_gap) * rng.randint(1, 6) for _ in range(rng.randint(3, 17))],
        "transfer_gap": rng.choice([0, 0, 3, 20, 60]),
        "tx_ready": [1] if (clean or rng.random() < 0.4) else [1] + [int(rng.random() < 0.6) for _ in range(rng.randint(3, 11))],
        "tp_delay": [rng.choice([1, 2, 5, 9]) for _ in range(rng.randint(1, 3))],
    }
    ops = []
    gentle = rng.random() < 0.25
    cfg["gentle"] = gentle
    if gentle:
        # nominal-path runs: an endless, gap-free stream that is always ahead of the host, transmitter always ready, the
        # host stops while at least two packets are still buffered and does not drain (retries are still exercised)
        npk = rng.randint(4, 9)
        if rng.random() < 0.35:
            # long nominal runs: more than 32 packets in a row, so the 5-bit sequence number wraps (31 -> 0) at least once
            npk = rng.randint(35, 46)
            mps = cfg["mps"] = 16
        cfg["transfers"] = [{"data": bytes(rng.getrandbits(8) for _ in range(mps * npk)).hex(), "last": False}]
        short = npk < 20 and mps >= 16 and rng.random() < 0.4
        if short:
            # nominal-path runs made of several pipelined SHORT transfers (word-aligned, more than one word, each ended by
            # `last`), the next one already buffered when the host acknowledges the previous one
            cfg["transfers"] = [{"data": bytes(rng.getrandbits(8) for _ in range(4 * rng.randint(2, mps // 4 - 1))).hex(), "last": True}
                                for _ in range(npk)]
        cfg.update({"producer_start": 0, "producer_gaps": [0], "transfer_gap": 0, "tx_ready": [1]})
        first_delay = mps // 4 * 2 + 12
        budget = npk - 2
        while budget > 0:
            then = rng.choice(["ack_more", "ack_more", "ack_stop", "retry", "retry_same_seq"])
            if short and then == "ack_more" and rng.random() < 0.6:
                then = "ack_stop"            # mostly: terminating ACK (NumP=0), then a separate IN request
            if then in ("ack_more", "ack_stop"):
                budget -= 1
            ops.append({"op": "in", "delay": (first_delay if not ops else rng.choice([0, 2, mps // 4 + 6])),
                        "ack_delay": rng.choice([1, 2, mps // 4 + 6]), "then": then})
            if rng.random() < 0.3:
                ops[-1]["foreign_before"] = {"ep": (ep + rng.randint(1, 14)) % 16, "numP": rng.choice([0, 1, 1]),
                                             "seq": rng.getrandbits(5), "retry": rng.getrandbits(1)}
        ops[-1]["then"] = "ack_stop"
        return {"engine": ENGINE, "config": cfg, "ops": ops}
    total = sum(len(t["data"]) // 2 for t in transfers)
    npk = total // mps + len(transfers) + 2
    for _ in range(rng.randint(2, npk + 3)):
        r = rng.random()
        then = "ack_more"
        if not clean:
            if r < 0.12:
                then = "retry"
            elif r < 0.18:
                then = "retry_same_seq"
            elif r < 0.45:
                then = "ack_stop"
        elif r < 0.3:
            then = "ack_stop"
        op = {"op": "in", "delay": rng.choice([0, 0, 1, 3, 10, 40]), "ack_delay": rng.choice([0, 1, 2, 6]), "then": then}
        if not clean and rng.random() < 0.15:
            op["foreign_before"] = {"ep": (ep + rng.randint(1, 14)) % 16, "numP": rng.choice([0, 1]), "seq": rng.getrandbits(5),
                                    "retry": rng.getrandbits(1)}
        ops.append(op)
    return {"engine": ENGINE, "config": cfg, "ops": ops}


# ======================================================================================================
# bench
# ======================================================================================================
_BENCHES = {}


def _bench(mps, ep):
    from dsim import kernel

    def factory():
        if os.environ.get("DSIM_C46_REFERENCE"):
            # oracle-soundness self-test: run the check against /verif's own simple correct endpoint
            from models.usb3_ref_endpoint import ReferenceStreamInEndpoint as SuperSpeedStreamInEndpoint
        else:
            from luna.gateware.usb.usb3.endpoints.stream import SuperSpeedStreamInEndpoint
        dut = SuperSpeedStreamInEndpoint(endpoint_number=ep, max_packet_size=mps)
        i = dut.interface
        hi, ho = i.handshakes_in, i.handshakes_out
        ins = {"s_valid": dut.stream.valid, "s_data": dut.stream.payload, "s_last": dut.stream.last, "s_first": dut.stream.first,
               "tx_ready": i.tx.ready,
               "hi_ep": hi.endpoint_number, "hi_retry": hi.retry_required, "hi_seq": hi.next_sequence,
               "hi_nump": hi.number_of_packets, "hi_ack": hi.ack_received,
               "ho_ready": ho.ready, "ho_done": ho.done, "ep_reset": i.ep_reset}
        outs = {"s_ready": dut.stream.ready, "tx_valid": i.tx.valid, "tx_data": i.tx.payload, "tx_first": i.tx.first,
                "tx_last": i.tx.last, "tx_zlp": i.tx_zlp, "tx_length": i.tx_length, "tx_ep": i.tx_endpoint_number,
                "tx_seq": i.tx_sequence_number, "nrdy": ho.send_nrdy, "erdy": ho.send_erdy, "ack_out": ho.send_ack,
                "stall_out": ho.send_stall}
        return make_bench(dut, clocks={"ss": 8e-9}, main="ss", ins=ins, outs=outs)
    if kernel.PUBLIC_API:
        return factory()
    key = (mps, ep)
    if key not in _BENCHES:
        _BENCHES[key] = factory()
    return _BENCHES[key]


def expected_packets(transfers_accepted, mps):
    """ transfers_accepted: list of (bytes accepted so far, ended?) -> list of (payload, complete?) in order.
    A packet is complete once all its bytes were accepted (a ZLP: once the `last` word before it was accepted). """
    out = []
    for data, ended in transfers_accepted:
        n = len(data)
        full = n // mps
        for k in range(full):
            out.append(bytes(data[k * mps:(k + 1) * mps]))
        if ended:
            out.append(bytes(data[full * mps:]))        # short packet, or ZLP if the transfer is a multiple of mps
    return out


# ======================================================================================================
# the world: producer + transmitter stub + TP stub + host + oracle in one actor (fixed evaluation order)
# ======================================================================================================
class _World:
    def __init__(self, scn, viol, probes):
        cfg = scn["config"]
        self.cfg, self.ops = cfg, scn["ops"]
        self.viol, self.probes = viol, probes
        self.mps, self.ep = cfg["mps"], cfg["ep"]
        # ---- producer ----
        self.words = []                       # (transfer index, word, mask, last)
        for ti, tr in enumerate(cfg["transfers"]):
            ws = words_of(bytes.fromhex(tr["data"]))
            for k, (w, m) in enumerate(ws):
                self.words.append((ti, w, m, int(tr["last"] and k == len(ws) - 1)))
        self.wi = 0
        self.gap_left = cfg["producer_start"]
        self.gap_idx = 0
        self.accepted = [[bytearray(), False] for _ in cfg["transfers"]]
        self.complete_at = []                 # cycle at which expected packet k became complete
        self.exp = []                         # expected packets of the stream accepted so far
        # ---- transmitter stub ----
        self.dp = None                        # packet being collected
        self.prev_last = 0
        self.dps = []                         # finished packets
        self.dp_started = []                  # start cycles of all packets (incl. the one in progress)
        # ---- TP stub ----
        self.tp_busy_until = None
        self.tp_kind = None
        self.tp_n = 0
        self.nrdy_cycles = []
        self.erdy_cycles = []
        self.erdy_done_cycles = []
        # ---- host ----
        self.i = 0
        self.hstate = "idle"                  # idle | wait_resp | rx_dp | ack_wait | flow_ctrl | drain_idle | done
        self.hcount = 0
        self.req_cycle = None
        self.req_wait = 0
        self.expected_seq = 0
        self.delivered = 0                    # packets accepted by the host
        self.last_dp = None
        self.awaiting_retry = False
        self.pending_pulse = None             # handshakes_in pins to drive in the next drive()
        self.cur_op = None
        self.implicit_request = False         # the previous ACK carried NumP=1: a response is already owed
        self.drain_left = DRAIN_REQUESTS
        self.flow_ctrl_since = None
        self.avail_since = None
        self.cur = {}
        self.dead = False
        self.classes = set()
        self.t_last_progress = 0

    # ------------------------------------------------------------------------------------------------
    def _fail(self, rule, t, msg, **shape):
        self.viol.add(rule, t, msg + f" [mps={self.mps} ep={self.ep}]", **shape)
        self.dead = True
        return True

    def _available(self, t, margin=0):
        """ number of expected packets complete at cycle <= t - margin """
        return sum(1 for c in self.complete_at if c <= t - margin)

    # ------------------------------------------------------------------------------------------------
    def drive(self, t):
        cfg = self.cfg
        pins = {"hi_ack": 0, "ho_ready": 1, "ho_done": 0, "ep_reset": 0, "s_first": 0}
        # producer
        if self.wi < len(self.words) and self.gap_left == 0:
            ti, w, m, last = self.words[self.wi]
            pins.update({"s_valid": m, "s_data": w, "s_last": last})
        else:
            pins.update({"s_valid": 0, "s_last": 0})
            if self.gap_left > 0:
                self.gap_left -= 1
        # transmitter stub
        pins["tx_ready"] = cfg["tx_ready"][t % len(cfg["tx_ready"])]
        # TP stub: not ready while a transaction packet is being sent
        if self.tp_busy_until is not None:
            pins["ho_ready"] = 0
            if t == self.tp_busy_until:
                pins["ho_done"] = 1
        # host
        if self.pending_pulse is not None:
            pins.update(self.pending_pulse)
            pins["hi_ack"] = 1
            self.pending_pulse = None
        self.cur = pins
        return pins

    # ------------------------------------------------------------------------------------------------
    def observe(self, t, o):
        if self.dead:
            return True
        pins = self.cur
        pr = self.probes
        mps = self.mps
        # ================= producer bookkeeping ========================================================
        if pins["s_valid"] and o["s_ready"]:
            ti, w, m, last = self.words[self.wi]
            before = len(self.exp)
            self.accepted[ti][0] += bytes_of_word(w, m)
            if last:
                self.accepted[ti][1] = True
                pr["transfers_completed"] += 1
            self.exp = expected_packets([(bytes(a), e) for a, e in self.accepted], mps)
            for _ in range(len(self.exp) - before):
                self.complete_at.append(t)
            self.wi += 1
            g = self.cfg["producer_gaps"][self.gap_idx % len(self.cfg["producer_gaps"])]
            self.gap_idx += 1
            self.gap_left = g + (self.cfg["transfer_gap"] if last else 0)
        # ================= TP stub ======================================================================
        if pins["ho_done"]:
            if self.tp_kind == "erdy":
                self.erdy_done_cycles.append(t)
            self.tp_busy_until = None
            self.tp_kind = None
        if o["ack_out"] or o["stall_out"]:
            return self._fail("C46.data_or_nrdy", t, "IN endpoint requested an ACK/STALL transaction packet", kind="bogus_tp")
        if o["nrdy"] and self.tp_busy_until is None:
            self.nrdy_cycles.append(t)
            pr["nrdy"] += 1
            self._tp_start(t, "nrdy")
        elif o["erdy"] and self.tp_busy_until is None and not pins["ho_done"]:
            self.erdy_cycles.append(t)
            pr["erdy"] += 1
            self._tp_start(t, "erdy")
        # ================= transmitter stub: collect data packets ===========================================
        finished = None
        if o["tx_zlp"]:
            if self.dp is not None:
                return self._fail("C46.data_or_nrdy", t, "tx_zlp while a data packet is on the tx stream", kind="zlp_during_packet")
            finished = {"start": t, "end": t, "seq": o["tx_seq"], "ep": o["tx_ep"], "length": 0, "payload": b"", "zlp": True}
            self.dp_started.append(t)
        elif not o["tx_valid"] and self.dp is not None:
            return self._fail("C46.conservation", t,
                              f"tx.valid dropped in the middle of a data packet ({len(self.dp['payload'])} of {self.dp['length']} bytes "
                              f"taken); the word offered in the previous cycle was{'' if self.prev_last else ' not'} the last word and "
                              f"had not been accepted (tx.ready low)", kind="word_withdrawn_while_not_ready",
                              last_word=bool(self.prev_last))
        elif o["tx_valid"]:
            if self.dp is None:
                self.dp = {"start": t, "seq": o["tx_seq"], "ep": o["tx_ep"], "length": o["tx_length"], "payload": bytearray(),
                           "zlp": False}
                self.dp_started.append(t)
            if not pins["tx_ready"]:
                pr["tx_ready_stall"] += 1
            else:
                chunk = bytes_of_word(o["tx_data"], o["tx_valid"])
                if chunk is None:
                    return self._fail("C46.conservation", t, f"tx byte-valid mask {o['tx_valid']:#06b} is not a run from byte 0",
                                      kind="valid_mask")
                self.dp["payload"] += chunk
                if o["tx_last"]:
                    self.dp["end"] = t
                    self.dp["payload"] = bytes(self.dp["payload"])
                    finished = self.dp
                    self.dp = None
                elif len(self.dp["payload"]) > mps + 8:
                    return self._fail("C46.transfer_end", t, f"data packet exceeds max packet size ({len(self.dp['payload'])} bytes, "
                                      f"no `last`)", kind="oversize")
        self.prev_last = o["tx_last"] if o["tx_valid"] else 0
        if finished is not None:
            self.dps.append(finished)
        # ================= host ==========================================================================
        r = self._host(t, o, finished)
        if r:
            return True
        # ================= ERDY obligation ================================================================
        if self.hstate == "flow_ctrl":
            undelivered = self._available(t) - self.delivered
            if undelivered > 0:
                if self.avail_since is None:
                    self.avail_since = t
                if not any(c >= self.flow_ctrl_since for c in self.erdy_cycles) and t - self.avail_since > ERDY_BOUND:
                    return self._fail("C46.erdy_after_nrdy", t,
                                      f"NRDY in cycle {self.flow_ctrl_since}; a packet has been available since cycle "
                                      f"{self.avail_since}; no ERDY requested within {ERDY_BOUND} cycles", kind="no_erdy")
        return self.hstate == "done"

    def _tp_start(self, t, kind):
        d = self.cfg["tp_delay"][self.tp_n % len(self.cfg["tp_delay"])]
        self.tp_n += 1
        self.tp_busy_until = t + d
        self.tp_kind = kind

    # ------------------------------------------------------------------------------------------------
    def _send_ack_tp(self, seq, nump, retry=0, ep=None):
        self.pending_pulse = {"hi_ep": self.ep if ep is None else ep, "hi_seq": seq & 31, "hi_nump": nump, "hi_retry": retry}

    def _host(self, t, o, finished):
        pr = self.probes
        st = self.hstate
        exp = self.exp
        # unsolicited output?
        if st in ("idle", "flow_ctrl", "drain_idle"):
            if self.dp_started and self.dp_started[-1] == t:
                return self._fail("C46.data_or_nrdy", t, f"data packet started in host state '{st}' with no IN request outstanding",
                                  kind="unsolicited_data")
            if self.nrdy_cycles and self.nrdy_cycles[-1] == t and st != "flow_ctrl":
                return self._fail("C46.data_or_nrdy", t, "NRDY with no IN request outstanding", kind="unsolicited_nrdy")
        if st == "idle" or st == "drain_idle":
            if st == "idle" and self.i >= len(self.ops):
                if self.cfg.get("gentle"):
                    self.hstate = "done"
                    return False
                self.hstate = st = "drain_idle"
                self.hcount = 0
            if st == "idle":
                op = self.ops[self.i]
                if self.hcount == 0 and "foreign_before" in op:
                    fb = op["foreign_before"]
                    self._send_ack_tp(fb["seq"], fb["numP"], fb["retry"], ep=fb["ep"])
                    pr["foreign_endpoint_ack"] += 1
                    self.hcount += 1
                    return False
                if self.hcount < op["delay"] + (2 if "foreign_before" in op else 0):
                    self.hcount += 1
                    return False
                self.cur_op = op
                self.i += 1
            else:
                undelivered = len(exp) - self.delivered
                if self.drain_left <= 0 or (undelivered == 0 and self.wi >= len(self.words) and self.hcount > 30):
                    if undelivered > 0:
                        return self._fail("C46.conservation", t, f"{undelivered} complete packet(s) of the accepted stream were never "
                                          f"delivered although the host kept polling ({self.delivered} delivered)", kind="undelivered")
                    self.hstate = "done"
                    return False
                if self.hcount < 3:
                    self.hcount += 1
                    return False
                if undelivered == 0 and self.wi >= len(self.words):
                    self.hcount += 1
                    return False
                self.cur_op = {"op": "in", "delay": 0, "ack_delay": 1, "then": "ack_stop"}
                self.drain_left -= 1
            # issue the IN request (drive happens in the next cycle)
            self._send_ack_tp(self.expected_seq, 1)
            self.req_cycle = t + 1
            self.hstate = "wait_resp"
            self.req_wait = 0
            pr["in_requests"] += 1
            if self._available(t + 1) - self.delivered <= 0:
                pr["request_before_data"] += 1
            return False
        if st == "wait_resp":
            if t < self.req_cycle:
                return False
            got_nrdy = bool(self.nrdy_cycles) and self.nrdy_cycles[-1] == t
            got_dp = bool(self.dp_started) and self.dp_started[-1] == t
            held = self._available(self.req_cycle, HELD_MARGIN) - self.delivered
            if got_nrdy and got_dp:
                return self._fail("C46.data_or_nrdy", t, "both NRDY and a data packet in answer to one IN request", kind="both")
            if got_nrdy:
                if held > 0 and not self.awaiting_retry:
                    return self._fail("C46.data_or_nrdy", t,
                                      f"IN request in cycle {self.req_cycle} answered with NRDY although a complete packet had been "
                                      f"buffered since cycle {self.complete_at[self.delivered]}", kind="nrdy_despite_data")
                if self.awaiting_retry:
                    return self._fail("C46.retry_same_packet", t, "retry request answered with NRDY", kind="nrdy_on_retry")
                self.hstate = "flow_ctrl"
                self.flow_ctrl_since = t
                self.avail_since = None
                self.classes.add("nrdy")
                return False
            if got_dp:
                self.hstate = "rx_dp"
                if finished is not None:
                    return self._dp_received(t, finished, exp)
                return False
            self.req_wait += 1
            if self.req_wait > RESP_BOUND:
                return self._fail("C46.data_or_nrdy", t,
                                  f"IN request in cycle {self.req_cycle} (sequence {self.expected_seq}) got neither a data packet nor "
                                  f"NRDY within {RESP_BOUND} cycles ({max(0, held)} packet(s) held)",
                                  kind="no_response", request_was_in_ack=self.implicit_request, data_held=bool(held > 0))
            return False
        if st == "rx_dp":
            if finished is not None:
                return self._dp_received(t, finished, exp)
            self.req_wait += 1
            if self.req_wait > RESP_BOUND + 8 * (self.mps // 4 + 4) * len(self.cfg["tx_ready"]):
                return self._fail("C46.conservation", t, "data packet never completed (no `last`)", kind="no_last")
            return False
        if st == "ack_wait":
            if self.dp_started and self.dp_started[-1] == t:
                return self._fail("C46.data_or_nrdy", t, "second data packet before the host answered the first", kind="unsolicited_data")
            if self.hcount < self.cur_op["ack_delay"]:
                self.hcount += 1
                return False
            then = self.cur_op["then"]
            if then in ("retry", "retry_same_seq"):
                self._send_ack_tp(self.expected_seq, 1, retry=int(then == "retry"))
                pr["retry_requested" if then == "retry" else "retry_same_sequence_no_rty"] += 1
                self.awaiting_retry = True
                self.implicit_request = True
                self.req_cycle = t + 1
                self.req_wait = 0
                self.hstate = "wait_resp"
                self.cur_op = self._next_then()
                pr["in_requests"] += 1
                return False
            # accept the packet
            self.awaiting_retry = False
            self.expected_seq = (self.expected_seq + 1) & 31
            if self.expected_seq == 0:
                pr["sequence_wrap_31_to_0"] += 1
            self.delivered += 1
            self.drain_left = DRAIN_REQUESTS
            if self.delivered == 2:
                pr["second_packet_after_ack"] += 1
            if then == "ack_more":
                self._send_ack_tp(self.expected_seq, 1)
                pr["ack_and_request"] += 1
                self.implicit_request = True
                self.req_cycle = t + 1
                self.req_wait = 0
                self.hstate = "wait_resp"
                self.cur_op = self._next_then()
                pr["in_requests"] += 1
            else:
                self._send_ack_tp(self.expected_seq, 0)
                pr["ack_without_request"] += 1
                self.implicit_request = False
                self.hstate = "idle"
                self.hcount = 0
            return False
        if st == "flow_ctrl":
            # silent until the ERDY transaction packet has been sent
            if any(c >= self.flow_ctrl_since for c in self.erdy_done_cycles):
                self.hstate = "idle"
                self.hcount = 0
                self.implicit_request = False
            elif self.wi >= len(self.words) and self._available(t) - self.delivered <= 0:
                # nothing will ever become available: the run is over
                self.hcount += 1
                if self.hcount > 40:
                    self.hstate = "done"
            return False
        return False

    def _next_then(self):
        """ the op that governs what the host does after the *next* packet """
        if self.i < len(self.ops):
            op = self.ops[self.i]
            self.i += 1
            return op
        self.drain_left -= 1
        return {"op": "in", "delay": 0, "ack_delay": 1, "then": "ack_stop" if self.drain_left <= 0 else "ack_more"}

    # ------------------------------------------------------------------------------------------------
    def _dp_received(self, t, dp, exp):
        pr = self.probes
        pr["data_packets"] += 1
        if dp["zlp"]:
            pr["zlp"] += 1
        elif len(dp["payload"]) < self.mps:
            pr["short_packet"] += 1
        else:
            pr["full_packet"] += 1
        ctx = dict(zlp=dp["zlp"], single_word=bool(0 < len(dp["payload"]) <= 4), after_retry=self.awaiting_retry)
        if self.awaiting_retry:
            as_expected = self.last_dp is not None and dp["payload"] == self.last_dp["payload"] and dp["zlp"] == self.last_dp["zlp"]
        else:
            as_expected = self.delivered < len(exp) and dp["payload"] == exp[self.delivered]
        if dp["ep"] != self.ep:
            ctx = dict(ctx, carries_expected_payload=bool(as_expected))
            return self._fail("C46.conservation", t,
                              f"data packet (zlp={dp['zlp']}) sent with tx_endpoint_number={dp['ep']}: it is not delivered to "
                              f"endpoint {self.ep}", kind="packet_for_other_endpoint", **ctx)
        if dp["seq"] != self.expected_seq:
            return self._fail("C46.sequence_consecutive", t,
                              f"data packet #{self.delivered} (zlp={dp['zlp']}, {len(dp['payload'])} bytes) carries sequence "
                              f"{dp['seq']}; the host's request asked for sequence {self.expected_seq}", kind="wrong_sequence", **ctx)
        if dp["length"] != len(dp["payload"]):
            return self._fail("C46.conservation", t, f"tx_length={dp['length']} but the packet carried {len(dp['payload'])} bytes",
                              kind="length_mismatch", **ctx)
        if self.awaiting_retry:
            prev = self.last_dp
            if prev is None or dp["payload"] != prev["payload"] or dp["zlp"] != prev["zlp"]:
                return self._fail("C46.retry_same_packet", t,
                                  f"retry of packet #{self.delivered}: first attempt {prev['payload'].hex() if prev else None} "
                                  f"(zlp={prev['zlp'] if prev else None}), resent {dp['payload'].hex()} (zlp={dp['zlp']})",
                                  kind="different_packet", **ctx)
        else:
            k = self.delivered
            want = exp[k] if k < len(exp) else None
            if want is None or dp["payload"] != want:
                # where in the accepted stream does this payload sit?
                flat = b"".join(bytes(a) for a, _ in self.accepted)
                offset = sum(len(p) for p in exp[:k])
                same_bytes = flat[offset:offset + len(dp["payload"])] == dp["payload"]
                rule = "C46.transfer_end" if same_bytes else "C46.conservation"
                return self._fail(rule, t,
                                  f"packet #{k}: got {len(dp['payload'])} bytes {dp['payload'].hex()[:48]} (zlp={dp['zlp']}), expected "
                                  f"{'nothing yet' if want is None else str(len(want)) + ' bytes ' + want.hex()[:48]} "
                                  f"(stream offset {offset}, transfers {[len(bytes(a)) for a, _ in self.accepted]})",
                                  kind="wrong_boundary" if same_bytes else "wrong_bytes",
                                  expected_zlp=bool(want is not None and len(want) == 0), **ctx)
        self.classes.add(("dp", dp["zlp"], len(dp["payload"]) == self.mps, self.awaiting_retry, min(self.delivered, 3)))
        self.last_dp = dp
        self.hstate = "ack_wait"
        self.hcount = 0
        return False


def run(scn):
    cfg = scn["config"]
    bench = _bench(cfg["mps"], cfg["ep"])
    viol = Violations()
    probes = {p: 0 for p in PROBES}
    world = _World(scn, viol, probes)
    total_words = len(world.words)
    npackets = total_words * 4 // cfg["mps"] + len(cfg["transfers"]) + 1
    budget = (cfg["producer_start"] + total_words * 8 + len(cfg["transfers"]) * cfg["transfer_gap"]
              + (len(scn["ops"]) + npackets + DRAIN_REQUESTS + 4)
              * (60 + RESP_BOUND + (cfg["mps"] // 4 + 4) * len(cfg["tx_ready"]) * 2) + 400)
    log = bench.run([world], max_cycles=budget)
    if not viol and world.hstate != "done":
        raise RuntimeError(f"host script did not finish (state {world.hstate}, op {world.i}/{len(scn['ops'])})")
    sig = hashlib.blake2b(repr((cfg["mps"], sorted(map(repr, world.classes)),
                                sorted(k for k, v in probes.items() if v))).encode(), digest_size=8).hexdigest()
    if scn["config"].get("gentle") and len(scn["config"]["transfers"]) > 1:
        probes["pipelined_short_transfer_runs"] += 1
    faults = {"retry_request": probes["retry_requested"] + probes["retry_same_sequence_no_rty"],
              "foreign_endpoint_ack": probes["foreign_endpoint_ack"], "ready_stall": probes["tx_ready_stall"],
              "request_before_data": probes["request_before_data"]}
    return {"violations": viol.items, "cycles": log.cycles, "faults": faults, "probes": probes, "sig": sig,
            "nontrivial": probes["data_packets"] > 0 or probes["nrdy"] > 0 or bool(viol),
            "digest": log.digest, "fsm": len(log.fsm_vectors)}


def shrink_candidates(scn):
    import copy
    cfg = scn["config"]
    for key, val in (("tx_ready", [1]), ("producer_gaps", [0]), ("transfer_gap", 0), ("producer_start", 0), ("tp_delay", [1])):
        if cfg[key] != val:
            cand = copy.deepcopy(scn)
            cand["config"][key] = val
            yield cand
    for i in range(len(cfg["transfers"]) - 1, 0, -1):
        cand = copy.deepcopy(scn)
        cand["config"]["transfers"] = cfg["transfers"][:i]
        yield cand
    for i, op in enumerate(scn["ops"]):
        if op["then"] != "ack_more" or op["delay"] or "foreign_before" in op:
            cand = copy.deepcopy(scn)
            cand["ops"][i] = {"op": "in", "delay": 0, "ack_delay": op["ack_delay"], "then": "ack_more"}
            yield cand
