"""
C14 -- data toggles advance only on success and reset on CLEAR_FEATURE(ENDPOINT_HALT).

DUT: a complete USBDevice (V1 / V2 timing) with the standard control endpoint, USBStreamInEndpoint on 1 and 2 and
USBStreamOutEndpoint on 1 and 2.  The host mixes IN transactions (ACK delivered / missing / garbled), OUT transactions (clean,
lost device ACK -> retransmission, wrong toggle, corrupted) and CLEAR_FEATURE(ENDPOINT_HALT) control transfers naming any
endpoint number / direction (existing or not), whose SETUP and status stages are separate ops, so that other transactions
fall between them and the request may be completed, left without its status ACK, or abandoned.

Transactions that complete nothing are part of the histories as well: PING tokens (ACKed while a whole packet fits, NAKed
otherwise, unanswered on an endpoint number nobody owns) and OUT data that is NAKed because the consumer of the endpoint is
held off by the script (`hold` / `release` ops) until the two-packet buffer is full.  None of them may move a toggle.

Toggles are observed on the wire only: IN = the DATA PID of every packet; OUT = whether an ACKed packet is delivered to the
consumer (expected toggle) or skipped (repeated toggle).  Outside hold windows the consumers are always ready and every packet
fits the buffer, so delivery is attributed to the transaction in whose time window it happens.  Inside a hold window nothing
can be delivered; when the window ends the bytes that drain must be exactly the concatenation of the packets that the
reference toggle says were new (ACKed with the expected toggle), in order -- the first packet at which the drained bytes
diverge is the toggle observation that fails.  What PING / NAK answers should be (room accounting) is C13's business, not
asserted here.
"""

import hashlib

from dsim.kernel import Violations
from models.usb2_wire import gen_idle_data
from models.usb2 import UTMIHost, parse_data
from models import streams_usb2 as su
from engines.usb2_device import device_bench, IDLE_INIT

PROPERTY = "C14"
ENGINE = "usb2_device"
CLOCK_HZ = 60e6
RULES = {
    "C14.advance_once_per_success": "after a successful transaction (host ACK seen by the device for IN, device ACK of new data "
                                    "for OUT) the endpoint's toggle has advanced exactly once",
    "C14.no_advance_otherwise": "the toggle does not change without a successful transaction (missing/garbled ACK, NAKed data, "
                                "repeated or corrupted packet, PING whether ACKed or NAKed -- a PING carries no data)",
    "C14.clear_halt_resets_named": "after a completed CLEAR_FEATURE(ENDPOINT_HALT) the named endpoint/direction continues with DATA0",
    "C14.clear_halt_only_named": "a completed CLEAR_FEATURE(ENDPOINT_HALT) leaves every other endpoint/direction's toggle alone",
    "C14.incomplete_clear_halt_no_effect": "a CLEAR_FEATURE(ENDPOINT_HALT) whose status stage has not been ACKed changes no toggle",
    "C14.response": "transactions are answered at all (IN: NAK or DATA0/1; valid OUT data: ACK or NAK; SETUP: ACK)",
}
PROBES = ["clear_halt_completed", "clear_halt_named_existing_in", "clear_halt_named_existing_out", "clear_halt_named_missing",
          "clear_halt_status_unacked", "clear_halt_abandoned", "txn_between_setup_and_status", "ack_between_setup_and_status",
          "reset_observed_in_data1_to_data0", "reset_observed_out", "halt_strobe_coincides_packet_ready", "in_retry_across_clear_halt",
          "out_dup_skipped", "other_feature_request", "v2_runs",
          "ping_acked", "ping_naked", "ping_unanswered", "ping_between_setup_and_status", "toggle_observed_after_ping_ack",
          "toggle_observed_after_ping_nak", "out_naked_no_room", "toggle_observed_after_out_nak", "hold_windows_checked",
          "held_packets_checked", "in_toggle_observed_after_ping"]
META = {
    "components_real": ["USBDevice", "USBControlEndpoint", "USBSetupDecoder", "StandardRequestHandler", "USBStreamInEndpoint",
                        "USBInTransferManager", "USBStreamOutEndpoint", "USBEndpointMultiplexer", "USBTokenDetector",
                        "USBHandshakeDetector", "USBHandshakeGenerator", "USBDataPacketReceiver", "USBDataPacketGenerator"],
    "components_stubbed": ["UTMI PHY + host (models.usb2.UTMIHost + models.streams_usb2 transactions)",
                           "stream producers / consumers (models.streams_usb2): consumers always ready except inside "
                           "script-controlled hold windows"],
    "assumptions": ["legal UTMI; legal host timing (>= 2 bit times between packets)",
                    "a request 'completes' when the device's zero-length DATA1 status packet is ACKed by the host and that ACK "
                    "reaches the device", "the host may schedule bulk transactions of other endpoints between the stages of a "
                    "control transfer", "OUT payloads are 1..mps bytes so delivery vs. skip is observable",
                    "PING is sent on every variant (as C13 does); its answer is recorded, not judged",
                    "a hold window starts and ends between transactions, with the endpoint's buffer drained at its start; the "
                    "consumer takes everything within 2*mps+12 cycles of being released"],
    "rule": "op list of IN/OUT transactions on endpoints 1-2 with lost/garbled ACKs, wrong toggles and corruption, and "
            "CLEAR_FEATURE transfers (SETUP op, 0-2 ops in between, status op with good/missing ACK or none at all) naming "
            "endpoint 0-3 IN/OUT, plus a few other feature selectors / recipients; producers synchronise a packet-completing "
            "byte with the status ACK in some runs; per-run PING rate 0-20 % (endpoints 1-2, rarely the unowned 3), per-run "
            "rate of hold windows on an OUT endpoint's consumer (traffic is biased to a held endpoint so that its buffer "
            "fills: ACK, ACK, NAK.., PING NAK, release, PING ACK, retry); PINGs / holds also fall between the stages of a "
            "CLEAR_FEATURE transfer",
}
TIERS = {"quick": {"runs": 800, "wall": 75}, "thorough": {"runs": 7000, "wall": 900}}

CONFIGS = [(v, m) for m in (8, 16) for v in ("V1", "V2")] + [("V2", 64), ("V1", 8)]
EPS = (1, 2)


def dev_cfg(variant, mps):
    return {"variant": variant, "control": "standard", "spy": True,
            "endpoints": [{"kind": "stream_in", "ep": 1, "mps": mps}, {"kind": "stream_in", "ep": 2, "mps": mps},
                          {"kind": "stream_out", "ep": 1, "mps": mps, "buffer": 2 * mps},
                          {"kind": "stream_out", "ep": 2, "mps": mps, "buffer": 2 * mps}]}


def gen(rng, tier, index):
    variant, mps = CONFIGS[(index // 8) % len(CONFIGS)]
    bit = 5 if variant == "V2" else 1
    fault_free = rng.random() < 0.15
    n_main = rng.randint(8, 26 if tier == "quick" else 60)
    p_cf = rng.choice([0.1, 0.2, 0.3])
    p_none = 0 if fault_free else rng.choice([0, 0.1, 0.25])
    p_corrupt = 0 if fault_free else rng.choice([0, 0.1, 0.2])
    p_outf = 0 if fault_free else rng.choice([0, 0.15, 0.3])
    p_ping = rng.choice([0, 0.06, 0.12, 0.2])
    p_hold = 0 if fault_free else rng.choice([0, 0.04, 0.08, 0.15])
    big = p_hold > 0 and rng.random() < 0.6                 # mostly full-size OUT packets: a held endpoint's buffer fills quickly
    held = {}                                               # endpoint -> basic ops left until its consumer is released
    ops = []

    def out_ep():
        # traffic is biased towards an endpoint whose consumer is held, so that its buffer fills up
        return rng.choice(sorted(held)) if held and rng.random() < 0.75 else rng.choice(EPS)

    def basic():
        for ep in sorted(held):
            held[ep] -= 1
            if held[ep] < 0:
                del held[ep]
                return {"op": "release", "ep": ep}
        if len(held) < len(EPS) and rng.random() < p_hold:
            ep = rng.choice([e for e in EPS if e not in held])
            held[ep] = rng.choice([1, 2, 3, 4, 5, 6, 8])
            return {"op": "hold", "ep": ep}
        if rng.random() < (2 * p_ping if held else p_ping):
            return {"op": "ping", "ep": 3 if rng.random() < 0.08 else out_ep()}
        r = rng.random()
        if held and r < 0.5 and rng.random() < 0.5:
            r = 0.6                                         # more OUT traffic while a consumer is held
        if r < 0.5:
            q = rng.random()
            ack = "none" if q < p_none else ("corrupt" if q < p_none + p_corrupt else "good")
            op = {"op": "in", "ep": rng.choice(EPS), "ack": ack}
            if ack == "corrupt":
                op["bit"] = rng.randrange(8)
            return op
        if r < 0.9:
            op = {"op": "out", "ep": out_ep()}
            if rng.random() < p_outf:
                k = rng.choice(["lost_ack", "lost_ack", "wrong_toggle", "corrupt_bit"])
                op["fault"] = {"kind": k, "bits": [rng.randrange(64)]} if k == "corrupt_bit" else {"kind": k}
            return op
        if r < 0.95:
            return {"op": "sof", "frame": rng.getrandbits(11)}
        return {"op": "idle", "n": rng.choice([1, 5, 30, 120])}

    while len(ops) < n_main:
        if rng.random() < p_cf:
            ep = rng.choice([1, 1, 2, 2, 1, 2, 0, 3])
            is_in = rng.random() < 0.6
            s = bytearray(su.clear_halt_setup(ep, is_in))
            if rng.random() < 0.12:
                # not an ENDPOINT_HALT request: another feature selector or another recipient -> must have no effect
                if rng.random() < 0.5:
                    s[2] = rng.choice([1, 2])
                else:
                    s[0] = rng.choice([0x00, 0x01])
            ops.append({"op": "setup", "bytes": bytes(s).hex()})
            style = rng.random()
            between = 0 if (fault_free or style < 0.45) else rng.choice([1, 1, 2])
            for _ in range(between):
                ops.append(basic())
            if fault_free or style < 0.8:
                ops.append({"op": "status_in", "ack": "good"})
            elif style < 0.92:
                ops.append({"op": "status_in", "ack": "none"})
            # else: abandoned without a status stage
        else:
            ops.append(basic())
    # input streams: many small transfers so that polls usually find data
    streams = {}
    for ep in EPS:
        trs = []
        p_wait = rng.choice([0, 0.15, 0.4])
        for i in range(rng.randint(6, 14)):
            L = rng.choice([1, 2, mps - 1, mps, mps + 1, rng.randint(1, mps)])
            tr = {"data": bytes(rng.getrandbits(8) for _ in range(L)).hex(), "last": 1, "first": 1,
                  "pre": rng.choice([0, 0, 3, 20]), "gaps": [0]}
            if rng.random() < p_wait:
                # hold the byte that completes a packet until the ACK of a status stage of a clear-halt naming this endpoint
                tr["wait"], tr["off"], tr["patience"] = f"cf_in{ep}", rng.choice([0, 0, 0, 1, 2]), rng.choice([200, 600, 2000]) * bit
            trs.append(tr)
        streams[str(ep)] = trs
    sizes = [mps, mps, mps, mps - 1, rng.randint(1, mps)] if big else [1, 2, mps - 1, mps, rng.randint(1, mps)]
    queues = {str(ep): [bytes(rng.getrandbits(8) for _ in range(rng.choice(sizes))).hex()
                        for _ in range(rng.randint(4, 16))] for ep in EPS}
    cfg = {"variant": variant, "mps": mps, "byte_period": rng.choice([1, 1, 2]), "pre": rng.choice([1, 1, 2]),
           "post": rng.choice([0, 0, 1]), "turn": bit * rng.choice([2, 2, 3, 6]), "tok_gap": bit * rng.choice([2, 3]),
           "txready": rng.choice(["always", "always", ["every", 2]]), "streams": streams, "queues": queues}
    cfg["idle_data"] = gen_idle_data(rng)
    return {"engine": ENGINE, "config": cfg, "ops": ops}


def shrink_candidates(scn):
    import copy
    cfg = scn["config"]
    for ep in cfg["streams"]:
        for i, tr in enumerate(cfg["streams"][ep]):
            if tr.get("wait") is not None:
                c = copy.deepcopy(scn)
                for k in ("wait", "off", "patience"):
                    c["config"]["streams"][ep][i].pop(k, None)
                yield c
    for key, val in (("txready", "always"), ("byte_period", 1), ("post", 0), ("pre", 1)):
        if cfg.get(key) != val:
            c = copy.deepcopy(scn)
            c["config"][key] = val
            yield c
    if any(op.get("op") in ("hold", "release") for op in scn["ops"]):
        c = copy.deepcopy(scn)
        c["ops"] = [op for op in c["ops"] if op.get("op") not in ("hold", "release")]
        yield c
    for i, op in enumerate(scn["ops"]):
        if op.get("op") == "in" and op.get("ack") != "good":
            c = copy.deepcopy(scn)
            c["ops"][i] = {"op": "in", "ep": op["ep"], "ack": "good"}
            yield c


def _named(s):
    return ("in" if s[4] & 0x80 else "out", s[4] & 0xF)


def run(scn):
    cfg = scn["config"]
    variant, mps = cfg["variant"], cfg["mps"]
    bench = device_bench(dev_cfg(variant, mps))
    init = dict(IDLE_INIT)
    if variant == "V2":
        init["full_speed_only"] = 1
    viol = Violations()
    probes = {p: 0 for p in PROBES}
    ctx = su.HostCtx(variant, turn=cfg["turn"], tok_gap=cfg["tok_gap"])
    prods, conss = {}, {}
    for ep in EPS:
        prods[ep] = su.StreamProducer(f"in{ep}_", su.expand_beats(cfg["streams"][str(ep)]), events=ctx.events)
        conss[ep] = su.StreamConsumer(f"out{ep}_", [])
        ctx.out_queue[ep] = [bytes.fromhex(q) for q in cfg["queues"][str(ep)]]
    ops = scn["ops"]

    held = {}                               # OUT endpoint -> cycle at which its consumer was held off

    def release(h, ep):
        conss[ep].hold = False
        yield from h.idle(2 * mps + 12)                     # everything buffered (at most 2*mps bytes) drains
        ctx.txns.append({"kind": "release", "ep": ep, "t_hold": held.pop(ep), "t_drained": h.t})

    def script(h):
        yield from h.idle(4)
        in_cf = False
        for op in ops:
            k = op["op"]
            if in_cf and k in ("in", "out"):
                probes["txn_between_setup_and_status"] += 1
            if in_cf and k == "ping":
                probes["ping_between_setup_and_status"] += 1
            if k == "in":
                rec = yield from su.txn_in(h, ctx, op["ep"], ack=op["ack"], ack_bit=op.get("bit", 4))
                if in_cf and rec.get("acked"):
                    probes["ack_between_setup_and_status"] += 1
            elif k == "out":
                rec = yield from su.txn_out(h, ctx, op["ep"], fault=op.get("fault"))
                if rec is not None:
                    yield from h.idle(mps + 8)              # let the (always ready) consumer drain before the next transaction
                    rec["t_drained"] = h.t
                    rec["held"] = op["ep"] in held
            elif k == "ping":
                yield from su.txn_ping(h, ctx, op["ep"])
            elif k == "hold":
                if op["ep"] not in held:
                    # (every earlier packet of this endpoint has drained: see the idle after each OUT transaction)
                    conss[op["ep"]].hold = True
                    held[op["ep"]] = h.t
                    ctx.fault("consumer_hold")
            elif k == "release":
                if op["ep"] in held:
                    yield from release(h, op["ep"])
            elif k == "setup":
                rec = yield from su.txn_setup(h, ctx, bytes.fromhex(op["bytes"]))
                in_cf = rec["resp"] == "ACK"
            elif k == "status_in":
                yield from su.txn_status_in(h, ctx, ack=op["ack"])
                in_cf = False
            elif k == "sof":
                yield from su.txn_sof(h, ctx, op["frame"])
            elif k == "idle":
                yield from h.idle(op["n"])
            else:
                raise ValueError(k)
        for ep in EPS:
            if ep in held:
                yield from release(h, ep)
        yield from h.idle(mps + 20)

    txr = cfg["txready"] if cfg["txready"] == "always" else tuple(cfg["txready"])
    host = UTMIHost(script, idle_data=cfg.get("idle_data"), byte_period=cfg["byte_period"], pre=cfg["pre"], post=cfg["post"], txready=txr)

    class HaltSpy:
        """ probe only (spy endpoint outputs): when did the clear-halt strobe fire """
        def __init__(self):
            self.strobes = []

        def observe(self, t, o):
            if o["spy_halt_enable"]:
                self.strobes.append((t, o["spy_halt_direction"], o["spy_halt_number"]))

    spy = HaltSpy()
    per_txn = (mps + 14) * (cfg["byte_period"] + (0 if txr == "always" else 1)) + 2 * ctx.timeout + 4 * ctx.turn + ctx.tok_gap + mps + 60
    max_cycles = 600 + sum(op.get("n", 0) for op in ops) + (len(ops) + len(EPS)) * per_txn
    log = bench.run([host] + [prods[e] for e in EPS] + [conss[e] for e in EPS] + [spy], max_cycles, init=init)
    if not host._done:
        raise RuntimeError(f"host script did not finish within {max_cycles} cycles")
    if host.tx_during_rx:
        raise RuntimeError("host model transmitted while the device was transmitting (harness bug)")

    # ---------------------------------------------------------------------------------------------------------
    # oracle: reference toggles per (direction, endpoint), judged from the wire
    # ---------------------------------------------------------------------------------------------------------
    base = {"variant": variant}
    keys = [("in", e) for e in EPS] + [("out", e) for e in EPS]
    model = {k: 0 for k in keys}
    since = {k: [] for k in keys}           # control events since this endpoint's toggle was last observed
    unacked = {e: None for e in EPS}        # IN: PID of a packet the device has not seen acknowledged
    unacked_reset = {e: False for e in EPS}
    pending = None                          # CLEAR_FEATURE(ENDPOINT_HALT) whose SETUP was ACKed and that has not completed
    dangling = []                           # endpoints named by the wIndex of CLEAR_FEATURE requests that never completed
    last_cf = None
    n_obs = 0

    group = {e: [] for e in EPS}            # OUT packets sent while the endpoint's consumer was held: judged at the release

    def attribute(key, default_rule):
        ev = since[key]
        if any(kind == "done" and named == key for kind, named in ev):
            return "C14.clear_halt_resets_named", "after_completed_clear_halt_naming_it"
        if any(kind in ("started", "incomplete") for kind, named in ev):
            if any(kind in ("started", "incomplete") and named == key for kind, named in ev):
                tag = "clear_halt_not_completed_naming_it"
            elif any(kind in ("started", "incomplete") and named[0] == "other_request" for kind, named in ev):
                tag = "other_request_not_completed"
            else:
                tag = "clear_halt_not_completed_naming_other"
            return "C14.incomplete_clear_halt_no_effect", tag
        if key in dangling:
            # an earlier CLEAR_FEATURE whose wIndex names this endpoint never completed (abandoned, status not ACKed or
            # STALLed) -- and yet the toggle was reset later on
            return "C14.incomplete_clear_halt_no_effect", "stale_uncompleted_clear_feature_naming_it"
        if any(kind == "done" for kind, named in ev):
            return "C14.clear_halt_only_named", "after_completed_clear_halt_naming_other"
        # transactions that complete nothing since the previous observation of this toggle
        if any(kind == "ping" and named == "ACK" for kind, named in ev):
            return "C14.no_advance_otherwise", "after_ping_ack"
        if any(kind == "ping" for kind, named in ev):
            return "C14.no_advance_otherwise", "after_ping_nak"
        if any(kind == "nak" for kind, named in ev):
            return "C14.no_advance_otherwise", "after_naked_out"
        return default_rule, "no_clear_halt_involved"

    def observed(key):
        """ probes: which non-completing transactions preceded this observation of the toggle; then forget them """
        ev = since[key]
        if any(kind == "done" and nm == key for kind, nm in ev):
            probes["reset_observed_in_data1_to_data0" if key[0] == "in" else "reset_observed_out"] += 1
        if key[0] == "out":
            if ("ping", "ACK") in ev:
                probes["toggle_observed_after_ping_ack"] += 1
            if ("ping", "NAK") in ev:
                probes["toggle_observed_after_ping_nak"] += 1
            if any(kind == "nak" for kind, nm in ev):
                probes["toggle_observed_after_out_nak"] += 1
        elif any(kind == "ping" for kind, nm in ev):
            probes["in_toggle_observed_after_ping"] += 1
        since[key] = [x for x in ev if x[0] == "started"]

    for x in ctx.txns:
        kind = x["kind"]
        if kind == "setup":
            s = x["bytes"]
            if x["resp"] != "ACK":
                viol.add("C14.response", x["t_data_end"], f"SETUP {s.hex()} answered with {x['resp']!r}", kind="setup_not_acked", **base)
                break
            last_cf = None
            if (s[0] & 0x60) == 0 and s[1] == 0x01:
                last_cf = _named(s)
                dangling.append(last_cf)
            if su._is_clear_halt(s):
                pending = _named(s)
                for k in keys:
                    since[k].append(("started", pending))
            else:
                # some other request (another feature selector / recipient): it must never touch a toggle
                pending = None
                for k in keys:
                    since[k].append(("started", ("other_request", s.hex())))
                if s[1] == 0x01:
                    probes["other_feature_request"] += 1
        elif kind == "status_in":
            if x.get("completed") and su._is_clear_halt(x.get("setup")):
                named = _named(x["setup"])
                probes["clear_halt_completed"] += 1
                if last_cf is not None and last_cf in dangling:
                    dangling.remove(last_cf)
                last_cf = None
                if named in model:
                    probes["clear_halt_named_existing_" + named[0]] += 1
                    if named[0] == "in" and unacked[named[1]] is not None:
                        unacked_reset[named[1]] = True
                        probes["in_retry_across_clear_halt"] += 1
                    model[named] = 0
                else:
                    probes["clear_halt_named_missing"] += 1
                for k in keys:
                    since[k] = [e for e in since[k] if e[0] != "started"] + [("done", named)]
                pending = None
            elif pending is not None:
                probes["clear_halt_status_unacked"] += 1
                for k in keys:
                    since[k] = [e for e in since[k] if e[0] != "started"] + [("incomplete", pending)]
            else:
                for k in keys:
                    since[k] = [("incomplete", e[1]) if e[0] == "started" else e for e in since[k]]
        elif kind == "in":
            e = x["ep"]
            key = ("in", e)
            resp = x.get("resp")
            t = x.get("t_resp", x["t_tok"])
            if resp not in su.DATA01 and resp != "NAK":
                viol.add("C14.response", t, f"IN ep{e} answered with {resp!r}", kind="in_bad_response", **base)
                break
            if resp == "NAK":
                continue
            n_obs += 1
            pid = 1 if resp == "DATA1" else 0
            if unacked[e] is not None and not unacked_reset[e]:
                exp, default = unacked[e], "C14.no_advance_otherwise"
                why = "re-sent after a missing ACK"
            else:
                exp, default = model[key], "C14.advance_once_per_success"
                why = "re-sent after a missing ACK and a clear-halt" if unacked[e] is not None else "new packet"
            if pid != exp:
                rule, cause = attribute(key, default)
                viol.add(rule, t, f"IN ep{e}: {why} carries DATA{pid}, reference toggle says DATA{exp}; control events since "
                         f"the previous packet of this endpoint: {since[key]}", kind="in_toggle", cause=cause, got=pid, **base)
                break
            observed(key)
            if x["acked"]:
                model[key] = pid ^ 1
                unacked[e] = None
            else:
                unacked[e] = pid
            unacked_reset[e] = False
        elif kind == "ping":
            e = x["ep"]
            resp = x["resp"]
            if resp == "ACK":
                probes["ping_acked"] += 1
            elif resp == "NAK":
                probes["ping_naked"] += 1
            else:
                probes["ping_unanswered"] += 1
            if e in EPS and resp in ("ACK", "NAK"):
                # a PING transfers nothing: the reference toggles stay as they are, whatever the answer
                since[("out", e)].append(("ping", resp))
                since[("in", e)].append(("ping", resp))
        elif kind == "out":
            e = x["ep"]
            key = ("out", e)
            d = parse_data(x["wire"])
            t = x.get("t_resp", x["t_data_end"])
            is_held = bool(x.get("held"))
            # inside a hold window nothing can be delivered: what was buffered is judged when the window ends
            delivered = 0 if is_held else conss[e].count_at(x.get("t_drained", x["t_done"])) - conss[e].count_at(x["t_tok_start"])
            if d is None or d[0] not in su.DATA01:
                if x["resp"] == "ACK" or delivered:
                    viol.add("C14.no_advance_otherwise", t, f"OUT ep{e}: corrupted packet was {'ACKed' if x['resp'] == 'ACK' else ''} "
                             f"{'delivered' if delivered else ''}", kind="out_corrupt", cause="no_clear_halt_involved", got=-1, **base)
                    break
                if is_held:
                    group[e].append({"type": "corrupt", "payload": bytes(x["wire"][1:-2]), "t": t})
                continue
            if x["resp"] not in ("ACK", "NAK"):
                viol.add("C14.response", t, f"OUT ep{e}: valid packet answered with {x['resp']!r}", kind="out_no_handshake", **base)
                break
            wire_tog = 1 if d[0] == "DATA1" else 0
            n = len(d[1])
            if x["resp"] == "NAK":
                if delivered:
                    viol.add("C14.no_advance_otherwise", t, f"OUT ep{e}: NAKed packet delivered", kind="out_nak_delivered",
                             cause="no_clear_halt_involved", got=-1, **base)
                    break
                probes["out_naked_no_room"] += 1
                since[key].append(("nak", "out"))
                if is_held:
                    group[e].append({"type": "nak", "payload": d[1], "t": t})
                continue
            n_obs += 1
            if is_held:
                # reference verdict; the device's verdict becomes visible when the consumer is released
                new = wire_tog == model[key]
                # (should the device turn out to disagree, the divergence is classified by what had happened up to here)
                group[e].append({"type": "new" if new else "repeat", "payload": d[1], "t": t, "wire_tog": wire_tog,
                                 "model": model[key], "since": list(since[key]),
                                 "attr": attribute(key, "C14.advance_once_per_success" if new else "C14.no_advance_otherwise")})
                probes["held_packets_checked"] += 1
                observed(key)
                if new:
                    model[key] ^= 1
                else:
                    probes["out_dup_skipped"] += 1
                continue
            device_tog = wire_tog if delivered == n else (wire_tog ^ 1 if delivered == 0 else None)
            if device_tog is None:
                viol.add("C14.no_advance_otherwise", t, f"OUT ep{e}: ACKed {n}-byte packet, {delivered} bytes delivered",
                         kind="out_partial", cause="no_clear_halt_involved", got=-1, **base)
                break
            if device_tog != model[key]:
                rule, cause = attribute(key, "C14.advance_once_per_success" if device_tog != wire_tog else "C14.no_advance_otherwise")
                viol.add(rule, t, f"OUT ep{e}: DATA{wire_tog} packet was ACKed and {'delivered' if delivered else 'skipped'}, so the "
                         f"endpoint expected DATA{device_tog}; reference toggle says DATA{model[key]}; events since the "
                         f"previous ACKed packet of this endpoint: {since[key]}", kind="out_toggle", cause=cause, got=device_tog, **base)
                break
            observed(key)
            if delivered:
                model[key] ^= 1
            else:
                probes["out_dup_skipped"] += 1
        elif kind == "release":
            # end of a hold window: the drained bytes must be exactly the packets the reference toggle calls new, in order
            e = x["ep"]
            key = ("out", e)
            got = bytes(b for tt, b, _, _ in conss[e].taken if x["t_hold"] <= tt <= x["t_drained"])
            probes["hold_windows_checked"] += 1
            p = 0
            passed = []                    # packets since the last match that should have contributed nothing
            bad = None

            def intruder():
                for g in passed:
                    if len(g["payload"]) and got[p:p + len(g["payload"])] == g["payload"]:
                        return g
                return None

            for g in group[e]:
                if g["type"] != "new":
                    passed.append(g)
                    continue
                pl = g["payload"]
                if got[p:p + len(pl)] == pl:
                    p += len(pl)
                    passed = []
                    continue
                bad = intruder() or g
                break
            if bad is None and p < len(got):
                bad = intruder() or {"type": "extra", "payload": got[p:], "t": x["t_drained"]}
            group[e] = []
            if bad is not None:
                ctxt = f"hold window of OUT ep{e} (cycles {x['t_hold']}..{x['t_drained']}): {len(got)} bytes drained, the first {p} " \
                       f"match the packets the reference toggle calls new; then "
                pl = bad["payload"]
                if bad["type"] == "new":
                    rule, cause = bad["attr"]
                    viol.add(rule, bad["t"], ctxt + f"the ACKed DATA{bad['wire_tog']} packet {pl[:8].hex()}.. ({len(pl)} bytes) is missing "
                             f"(stream continues {got[p:p + 8].hex()}..): it was skipped, so the endpoint expected "
                             f"DATA{bad['wire_tog'] ^ 1}; reference toggle says DATA{bad['model']}; events since the previous ACKed "
                             f"packet of this endpoint: {bad['since']}", kind="out_toggle", cause=cause, got=bad["wire_tog"] ^ 1, **base)
                elif bad["type"] == "repeat":
                    rule, cause = bad["attr"]
                    viol.add(rule, bad["t"], ctxt + f"the ACKed DATA{bad['wire_tog']} packet {pl[:8].hex()}.. ({len(pl)} bytes) follows: "
                             f"it was delivered, so the endpoint expected DATA{bad['wire_tog']}; reference toggle says "
                             f"DATA{bad['model']} (a repeat); events since the previous ACKed packet of this endpoint: {bad['since']}",
                             kind="out_toggle", cause=cause, got=bad["wire_tog"], **base)
                elif bad["type"] == "nak":
                    viol.add("C14.no_advance_otherwise", bad["t"], ctxt + f"the NAKed packet {pl[:8].hex()}.. follows",
                             kind="out_nak_delivered", cause="no_clear_halt_involved", got=-1, **base)
                elif bad["type"] == "corrupt":
                    viol.add("C14.no_advance_otherwise", bad["t"], ctxt + f"the corrupted packet {pl[:8].hex()}.. follows",
                             kind="out_corrupt", cause="no_clear_halt_involved", got=-1, **base)
                else:
                    viol.add("C14.no_advance_otherwise", bad["t"], ctxt + f"{len(pl)} bytes {pl[:8].hex()}.. that belong to no packet "
                             f"ACKed as new", kind="out_partial", cause="no_clear_halt_involved", got=-1, **base)
                break
    if len(host.tx_packets) != ctx.n_recv and not viol:
        viol.add("C14.response", host.tx_packets[-1]["start"], "unsolicited device transmission", kind="unsolicited", **base)

    # ---- probes ----
    n_setups = sum(1 for x in ctx.txns if x["kind"] == "setup" and su._is_clear_halt(x["bytes"]))
    n_status = sum(1 for x in ctx.txns if x["kind"] == "status_in")
    probes["clear_halt_abandoned"] += max(0, n_setups - n_status)
    for e in EPS:
        acc_cycles = set(a[0] for a in prods[e].accepted)
        for name, t in prods[e].synced:
            if t in acc_cycles and any(st[0] == t and st[1] == 1 and st[2] == e for st in spy.strobes):
                probes["halt_strobe_coincides_packet_ready"] += 1
    if variant == "V2":
        probes["v2_runs"] += 1
    if txr != "always":
        ctx.fault("txready_stall")
    if n_setups:
        ctx.fault("control_transfer_interleaved" if probes["txn_between_setup_and_status"] else "control_transfer")
    outcome = sorted(set(f"{x['kind']}:{x.get('resp')}" for x in ctx.txns))
    sig = hashlib.blake2b(repr((variant, mps, sorted(log.fsm_vectors), sorted(ctx.faults), outcome)).encode(),
                          digest_size=8).hexdigest()
    return {"violations": viol.items, "cycles": log.cycles, "faults": ctx.faults, "probes": probes, "sig": sig,
            "nontrivial": n_obs > 2 and n_setups > 0, "digest": log.digest, "fsm": len(log.fsm_vectors)}
