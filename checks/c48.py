"""
C48 -- SuperSpeed control requests are decoded and answered exactly.

Two standalone DUTs (config["dut"]), both real, domain "ss":

* "setup":      luna.gateware.usb.usb3.application.request.SuperSpeedSetupDecoder.  The bench plays data packets the way
                the link layer's DataPacketReceiver presents them: header (setup flag) stable from before the first word,
                32-bit words with a byte-valid mask, `first` on the first word, `last` from the moment at most one word
                remains, optional idle cycles between words, then one rx_good or rx_bad strobe (good only after the last
                word; bad also in the middle of the payload = aborted packet).
                Oracle: a request is reported (packet.received) iff the packet was good, had the setup flag and carried
                exactly 8 bytes; the reported fields equal those bytes (USB 2.0/3.2 sec. 9.3 layout).
* "descriptor": luna.gateware.usb.usb3.application.descriptor.GetDescriptorHandler over a DeviceDescriptorCollection of
                raw descriptors.  The bench holds value/length, pulses start, and takes the tx stream with a literal
                ready pattern.  Oracle: bytes carried by the stream (data + byte-valid mask, up to `last`) equal the
                first min(wLength, len) bytes of the addressed descriptor, tx_length equals that count, no stall; an
                unknown (type, index) gives a stall strobe and no data.
"""

import hashlib

from dsim.kernel import make_bench, cached_bench, Violations
from models.usb3_proto import parse_setup, words_of, bytes_of_word

PROPERTY = "C48"
ENGINE = "usb3_proto"
CLOCK_HZ = 125e6
RULES = {
    "C48.setup_iff": "a request is reported iff a good data packet with the setup flag carries exactly eight bytes",
    "C48.setup_fields": "the reported request fields equal the eight payload bytes",
    "C48.descriptor_bytes": "GET_DESCRIPTOR streams exactly the first min(wLength, length) bytes of the requested descriptor",
    "C48.tx_length": "tx_length equals min(wLength, length) while the response is on the stream",
    "C48.stall_unknown": "an unknown descriptor is answered with a stall strobe and no data; a known one is never stalled",
}
PROBES = ["setup_reported", "setup_bad_crc", "setup_aborted", "setup_short", "setup_long", "setup_len4", "setup_len5to7",
          "setup_no_flag_8bytes", "setup_after_malformed", "setup_word_gap", "setup_back_to_back", "setup_bad_strobe_with_word",
          "desc_requests", "desc_truncated_by_wlength", "desc_wlength_exceeds", "desc_unknown", "desc_ready_stall",
          "desc_partial_last_word", "desc_wlength_not_multiple_of_4"]
META = {
    "components_real": ["luna.gateware.usb.usb3.application.request.SuperSpeedSetupDecoder",
                        "luna.gateware.usb.usb3.application.descriptor.GetDescriptorHandler",
                        "luna.gateware.stream.generator.ConstantStreamGenerator",
                        "usb_protocol DeviceDescriptorCollection (container for raw descriptors)"],
    "components_stubbed": ["link-layer DataPacketReceiver (payload words, header, good/bad strobes)",
                           "control endpoint / request handler FSM (value, length, start)", "data transmitter (tx.ready)"],
    "assumptions": ["the packet header (setup flag) is stable from before the first payload word until the next packet",
                    "rx_good comes >= 1 cycle after the last payload word and before the next packet's first word; rx_bad may "
                    "come at any time after the first word (aborted packet) and then no further words of that packet follow",
                    "value/length are held and no new start is given until the previous response was taken completely",
                    "wLength >= 1 for known descriptors (a zero-length data stage is not requested)"],
    "rule": "setup: 3-14 packets of length 0..20 (biased to 8, 4, 5-7, 12) with/without setup flag, good/bad/aborted, word "
            "gaps, strobe delays 1..6; descriptor: 6 canned collections, 3-10 requests with wLength around the descriptor "
            "length and around multiples of 4, unknown types/indices, ready density 30-100 %",
}
TIERS = {"quick": {"runs": 15000, "wall": 70}, "thorough": {"runs": 60000, "wall": 900}}

REPORT_WINDOW = 4          # cycles after rx_good within which the report must appear
RESP_START = 8             # cycles after start within which the response / stall must appear


# ======================================================================================================
# generation
# ======================================================================================================
def _gen_setup(rng, tier):
    n = rng.randint(3, 14 if tier == "quick" else 40)
    malformed = rng.random() < 0.6          # runs that include setup-flagged packets whose length is not 8
    ops = []
    for _ in range(n):
        r = rng.random()
        setup = int(rng.random() < 0.8)
        if r < 0.55 or not malformed:
            length = 8
        else:
            length = rng.choice([0, 1, 3, 4, 4, 5, 6, 7, 9, 12, 12, 16, 20, rng.randint(0, 24)])
        if not malformed and rng.random() < 0.25:
            setup, length = 0, rng.choice([0, 3, 4, 8, 8, 12, 16])
        verdict = rng.choice(["good", "good", "good", "good", "bad", "abort"])
        nwords = (length + 3) // 4
        op = {"op": "pkt", "setup": setup, "data": bytes(rng.getrandbits(8) for _ in range(length)).hex(),
              "verdict": verdict,
              "gaps": [rng.choice([0, 0, 0, 1, 2]) for _ in range(nwords)],
              "strobe_delay": rng.randint(1, 6), "idle_after": rng.choice([0, 0, 1, 3, 6]),
              "header_lead": rng.choice([1, 1, 2, 4])}
        if verdict == "abort":
            op["abort_after_words"] = rng.randint(1, nwords) if nwords else 0
            op["strobe_delay"] = rng.randint(0, 3)
            if op["abort_after_words"] and rng.random() < 0.4:
                # what the real DataPacketReceiver does on a framing error: rx_bad in the very cycle it still presents the
                # offending word as valid
                op["bad_with_word"] = True
        ops.append(op)
    return {"engine": ENGINE, "config": {"dut": "setup"}, "ops": ops}


def _collection(k):
    """ canned raw-descriptor collections: list of (type, index, bytes) """
    import random
    rng = random.Random(0xC48 + k)
    lengths = {
        0: [18, 9, 4, 5],
        1: [18, 32, 2, 7, 16],
        2: [1, 3, 6, 64],
        3: [18, 44, 10, 22, 8, 12],
        4: [18, 25, 15, 70],
        5: [5, 13, 128, 33],
    }[k]
    out = []
    types = [1, 2, 3, 3, 15, 3, 2]
    for i, ln in enumerate(lengths):
        t = types[i % len(types)]
        idx = sum(1 for (tt, _, _) in out if tt == t) + (1 if t == 3 else 0)
        raw = bytes([ln & 0xFF, t] + [rng.getrandbits(8) | 1 for _ in range(max(0, ln - 2))])[:ln]
        if ln == 1:
            raw = bytes([1])
        out.append((t, idx, raw))
    return out


N_COLLECTIONS = 6


def _gen_descriptor(rng, tier):
    k = rng.randrange(N_COLLECTIONS)
    coll = _collection(k)
    p = rng.choice([1.0, 1.0, 0.8, 0.5, 0.3])
    ready = [1] + [int(rng.random() < p) for _ in range(rng.randint(4, 19))] if p < 1.0 else [1]
    ops = []
    for _ in range(rng.randint(3, 10)):
        if rng.random() < 0.2:
            t, i = rng.choice([(1, 1), (2, 5), (3, 9), (4, 0), (6, 0), (15, 3), (0x21, 0), (rng.randrange(256), rng.randrange(256))])
            ops.append({"op": "get", "value": (t << 8) | i, "length": rng.choice([1, 8, 18, 255, 0xFFFF, rng.randint(1, 300)]),
                        "idle_before": rng.choice([0, 1, 3])})
            continue
        t, i, raw = rng.choice(coll)
        ln = len(raw)
        length = rng.choice([ln, ln, ln - 1, ln + 1, ln + 3, 255, 0xFFFF, 1, 2, 3, 4, 5, 8, 9, (ln // 4) * 4, (ln // 4) * 4 + 1,
                             rng.randint(1, ln + 8), 0x100, 0x101 if ln > 200 else 64])
        ops.append({"op": "get", "value": (t << 8) | i, "length": max(1, length), "idle_before": rng.choice([0, 0, 1, 3])})
    return {"engine": ENGINE, "config": {"dut": "descriptor", "collection": k, "ready": ready}, "ops": ops}


def gen(rng, tier, index):
    if rng.random() < 0.55:
        return _gen_setup(rng, tier)
    return _gen_descriptor(rng, tier)


# ======================================================================================================
# setup decoder
# ======================================================================================================
def _setup_bench():
    def factory():
        from luna.gateware.usb.usb3.application.request import SuperSpeedSetupDecoder
        dut = SuperSpeedSetupDecoder()
        ins = {"valid": dut.sink.valid, "first": dut.sink.first, "last": dut.sink.last, "data": dut.sink.data,
               "good": dut.rx_good, "bad": dut.rx_bad, "hdr_setup": dut.header_in.setup}
        p = dut.packet
        outs = {"received": p.received, "recipient": p.recipient, "type": p.type, "is_in": p.is_in_request,
                "request": p.request, "value": p.value, "index": p.index, "length": p.length}
        return make_bench(dut, clocks={"ss": 8e-9}, main="ss", ins=ins, outs=outs)
    return cached_bench(("c48", "setup"), factory)


def _setup_script(ops):
    """ expands packet ops into per-cycle pin rows + per-packet bookkeeping.
    returns rows: list of dicts, packets: list of {first_cycle, strobe_cycle, ...} """
    rows = []
    packets = []
    idle = {"valid": 0, "first": 0, "last": 0, "data": 0, "good": 0, "bad": 0}
    hdr = 0

    def emit(**kw):
        r = dict(idle)
        r.update(kw)
        r["hdr_setup"] = hdr
        rows.append(r)

    for op in ops:
        data = bytes.fromhex(op["data"])
        words = words_of(data)
        hdr = op["setup"]
        for _ in range(op["header_lead"]):
            emit()
        pk = {"op": op, "first_cycle": None, "strobe_cycle": None, "words_sent": 0}
        nwords = len(words)
        limit = op.get("abort_after_words", nwords) if op["verdict"] == "abort" else nwords
        remaining = len(data)
        for wi in range(limit):
            for _ in range(op["gaps"][wi]):
                emit(first=int(wi == 0), last=int(remaining <= 4))          # receiver keeps first/last up while idle
            w, mask = words[wi]
            if pk["first_cycle"] is None:
                pk["first_cycle"] = len(rows)
            emit(valid=mask, first=int(wi == 0), last=int(remaining <= 4), data=w)
            remaining -= 4
            pk["words_sent"] += 1
        if op.get("bad_with_word") and op["verdict"] == "abort" and pk["words_sent"]:
            rows[-1]["bad"] = 1                       # the strobe coincides with the last word presented
            pk["strobe_cycle"] = len(rows) - 1
            pk["bad_with_word"] = True
        else:
            for _ in range(op["strobe_delay"]):
                emit()
            pk["strobe_cycle"] = len(rows)
            if op["verdict"] == "good":
                emit(good=1)
            else:
                emit(bad=1)
        for _ in range(op["idle_after"]):
            emit()
        packets.append(pk)
    for _ in range(REPORT_WINDOW + 3):
        emit()
    return rows, packets


class _SetupActor:
    def __init__(self, rows):
        self.rows = rows
        self.obs = []

    def drive(self, t):
        return self.rows[t] if t < len(self.rows) else None

    def observe(self, t, o):
        self.obs.append(o)
        return t >= len(self.rows) - 1


def _bucket(n):
    return "none" if n is None else ("shorter_than_8" if n < 8 else "longer_than_8")


def _run_setup(scn):
    bench = _setup_bench()
    viol = Violations()
    probes = {p: 0 for p in PROBES}
    rows, packets = _setup_script(scn["ops"])
    actor = _SetupActor(rows)
    log = bench.run([actor], max_cycles=len(rows) + 2)
    if len(actor.obs) < len(rows):
        raise RuntimeError("setup script did not finish")
    obs = actor.obs
    # ---- expectation per packet ---------------------------------------------------------------------
    report_cycles = [t for t, o in enumerate(obs) if o["received"]]
    used = set()
    classes = set()
    last_malformed = None          # length of the most recent setup-flagged packet whose length was not 8
    prev_end = None
    for pi, pk in enumerate(packets):
        op = pk["op"]
        data = bytes.fromhex(op["data"])
        qualifies = bool(op["setup"]) and len(data) == 8 and op["verdict"] == "good"
        lo, hi = pk["strobe_cycle"] + 1, pk["strobe_cycle"] + REPORT_WINDOW
        nxt_first = packets[pi + 1]["first_cycle"] if pi + 1 < len(packets) else None
        mine = [t for t in report_cycles if lo <= t <= hi and t not in used]
        # reports outside every good packet's window are handled below
        classes.add((op["setup"], min(len(data), 13), op["verdict"], last_malformed is not None))
        if op["verdict"] == "bad":
            probes["setup_bad_crc"] += 1
        if op["verdict"] == "abort":
            probes["setup_aborted"] += 1
            if pk.get("bad_with_word"):
                probes["setup_bad_strobe_with_word"] += 1
        if op["setup"] and len(data) < 8:
            probes["setup_short"] += 1
        if op["setup"] and len(data) > 8:
            probes["setup_long"] += 1
        if op["setup"] and len(data) == 4:
            probes["setup_len4"] += 1
        if op["setup"] and 5 <= len(data) <= 7:
            probes["setup_len5to7"] += 1
        if not op["setup"] and len(data) == 8 and op["verdict"] == "good":
            probes["setup_no_flag_8bytes"] += 1
        if any(op["gaps"][1:]):
            probes["setup_word_gap"] += 1
        if prev_end is not None and pk["first_cycle"] is not None and pk["first_cycle"] - prev_end <= 2:
            probes["setup_back_to_back"] += 1
        if qualifies:
            if last_malformed is not None:
                probes["setup_after_malformed"] += 1
            if not mine:
                viol.add("C48.setup_iff", hi,
                         f"packet {pi}: good 8-byte packet with the setup flag (bytes {data.hex()}, rx_good in cycle "
                         f"{pk['strobe_cycle']}) was not reported within {REPORT_WINDOW} cycles",
                         dut="setup", kind="missed", after_malformed_setup=_bucket(last_malformed))
                break
            t = mine[0]
            used.add(t)
            probes["setup_reported"] += 1
            want = parse_setup(data)
            o = obs[t]
            got = {"recipient": o["recipient"], "type": o["type"], "is_in_request": o["is_in"], "request": o["request"],
                   "value": o["value"], "index": o["index"], "length": o["length"]}
            if got != want:
                bad = [k for k in want if want[k] != got[k]]
                viol.add("C48.setup_fields", t, f"packet {pi} bytes {data.hex()}: reported {got}, expected {want}",
                         dut="setup", field=bad[0], after_malformed_setup=_bucket(last_malformed))
                break
        else:
            if op["verdict"] == "good" and mine:
                used.add(mine[0])
                viol.add("C48.setup_iff", mine[0],
                         f"packet {pi} (setup flag {op['setup']}, {len(data)} bytes {data.hex()}, good) was reported as a setup "
                         f"request", dut="setup", kind="spurious", setup_flag=op["setup"], length_is_8=bool(len(data) == 8),
                         after_malformed_setup=_bucket(last_malformed))
                break
        if op["setup"] and len(data) != 8:
            last_malformed = min(len(data), 13)
        prev_end = pk["strobe_cycle"]
    if not viol:
        stray = [t for t in report_cycles if t not in used]
        if stray:
            viol.add("C48.setup_iff", stray[0], f"request reported in cycle {stray[0]} although no good packet ended in the "
                     f"preceding {REPORT_WINDOW} cycles", dut="setup", kind="stray_report",
                     after_malformed_setup="none")
    sig = hashlib.blake2b(repr(("setup", sorted(map(repr, classes)))).encode(), digest_size=8).hexdigest()
    faults = {"dpp_crc32": probes["setup_bad_crc"], "abort_rx": probes["setup_aborted"],
              "wrong_length": probes["setup_short"] + probes["setup_long"], "invalid_word_gap": probes["setup_word_gap"]}
    return {"violations": viol.items, "cycles": log.cycles, "faults": faults, "probes": probes, "sig": sig,
            "nontrivial": probes["setup_reported"] > 0 or bool(viol), "digest": log.digest, "fsm": len(log.fsm_vectors)}


# ======================================================================================================
# descriptor handler
# ======================================================================================================
def _descriptor_bench(k):
    def factory():
        from luna.gateware.usb.usb3.application.descriptor import GetDescriptorHandler
        from usb_protocol.emitters.descriptors import DeviceDescriptorCollection
        coll = DeviceDescriptorCollection(automatic_language_descriptor=False)
        for t, i, raw in _collection(k):
            coll.add_descriptor(raw, index=i, descriptor_type=t)
        dut = GetDescriptorHandler(coll)
        ins = {"value": dut.value, "length": dut.length, "start": dut.start, "ready": dut.tx.ready}
        outs = {"valid": dut.tx.valid, "data": dut.tx.data, "first": dut.tx.first, "last": dut.tx.last,
                "tx_length": dut.tx_length, "stall": dut.stall}
        return make_bench(dut, clocks={"ss": 8e-9}, main="ss", ins=ins, outs=outs)
    return cached_bench(("c48", "descriptor", k), factory)


class _DescriptorActor:
    def __init__(self, scn, viol, probes):
        cfg = scn["config"]
        self.ops = scn["ops"]
        self.ready_pat = cfg["ready"]
        self.known = {(t << 8) | i: raw for t, i, raw in _collection(cfg["collection"])}
        self.viol, self.probes = viol, probes
        self.i = 0
        self.phase = "idle"
        self.count = 0
        self.cur = None
        self.got = bytearray()
        self.stalled = False
        self.started_at = None
        self.first_valid_seen = False
        self.tail = 0
        self.dead = False
        self.classes = set()

    def drive(self, t):
        ready = self.ready_pat[t % len(self.ready_pat)]
        d = {"ready": ready, "start": 0}
        if self.i < len(self.ops):
            op = self.ops[self.i]
            d["value"], d["length"] = op["value"], op["length"]
            if self.phase == "idle":
                if self.count >= op["idle_before"]:
                    d["start"] = 1
                    self.phase = "wait"
                    self.started_at = t
                    self.got = bytearray()
                    self.stalled = False
                    self.first_valid_seen = False
                else:
                    self.count += 1
        self.cur = d
        return d

    def _fail(self, rule, t, msg, **shape):
        self.viol.add(rule, t, msg, dut="descriptor", **shape)
        self.dead = True
        return True

    def _finish(self):
        self.i += 1
        self.phase = "idle"
        self.count = 0

    def observe(self, t, o):
        if self.dead:
            return True
        pr = self.probes
        ready = self.cur["ready"]
        if self.i >= len(self.ops):
            if o["valid"] or o["stall"]:
                return self._fail("C48.descriptor_bytes" if o["valid"] else "C48.stall_unknown", t,
                                  "output after the last request was completed", kind="trailing_output")
            self.tail += 1
            return self.tail > 4
        op = self.ops[self.i]
        if self.phase == "idle":
            if o["valid"]:
                return self._fail("C48.descriptor_bytes", t, "tx valid although no request is in progress", kind="unrequested_data")
            if o["stall"]:
                return self._fail("C48.stall_unknown", t, "stall although no request was started", kind="unrequested_stall")
            return False
        raw = self.known.get(op["value"])
        age = t - self.started_at
        if raw is None:
            # ---------------- unknown descriptor ------------------------------------------------------
            if o["valid"]:
                return self._fail("C48.stall_unknown", t, f"data on tx for unknown descriptor value {op['value']:#06x}",
                                  kind="data_for_unknown")
            if o["stall"]:
                self.stalled = True
            if age >= RESP_START:
                if not self.stalled:
                    return self._fail("C48.stall_unknown", t, f"unknown descriptor value {op['value']:#06x}: no stall strobe within "
                                      f"{RESP_START} cycles of start", kind="no_stall")
                pr["desc_unknown"] += 1
                self.classes.add("unknown")
                self._finish()
            return False
        # -------------------- known descriptor ------------------------------------------------------------
        want = raw[:min(op["length"], len(raw))]
        if o["stall"]:
            return self._fail("C48.stall_unknown", t, f"stall for known descriptor value {op['value']:#06x}", kind="stall_on_known")
        if not o["valid"]:
            if not self.first_valid_seen and age > RESP_START:
                return self._fail("C48.descriptor_bytes", t, f"no response within {RESP_START} cycles of start (value "
                                  f"{op['value']:#06x}, wLength {op['length']})", kind="no_response")
            if self.first_valid_seen and age > RESP_START + 6 * (len(want) + 8):
                return self._fail("C48.descriptor_bytes", t, "response stalled without `last`", kind="no_last")
            return False
        self.first_valid_seen = True
        if o["tx_length"] != len(want):
            return self._fail("C48.tx_length", t, f"value {op['value']:#06x} wLength {op['length']} descriptor length {len(raw)}: "
                              f"tx_length={o['tx_length']}, expected {len(want)}", kind="tx_length",
                              wlength_vs_len="lt" if op["length"] < len(raw) else ("eq" if op["length"] == len(raw) else "gt"))
        if not ready:
            pr["desc_ready_stall"] += 1
            return False
        chunk = bytes_of_word(o["data"], o["valid"])
        if chunk is None:
            return self._fail("C48.descriptor_bytes", t, f"byte-valid mask {o['valid']:#06b} is not a run starting at byte 0",
                              kind="valid_mask")
        if len(chunk) < 4 and not o["last"]:
            return self._fail("C48.descriptor_bytes", t, f"partial word (mask {o['valid']:#06b}) that is not the last word",
                              kind="valid_mask")
        self.got += chunk
        if o["last"] or len(self.got) > len(want) + 8:
            if bytes(self.got) != want:
                rel = "lt" if op["length"] < len(raw) else ("eq" if op["length"] == len(raw) else "gt")
                return self._fail("C48.descriptor_bytes", t,
                                  f"value {op['value']:#06x} wLength {op['length']} descriptor length {len(raw)}: streamed "
                                  f"{len(self.got)} bytes {bytes(self.got).hex()}, expected {len(want)} bytes {want.hex()}",
                                  kind="bytes", wlength_vs_len=rel, expected_len_mod4=len(want) % 4)
            pr["desc_requests"] += 1
            if op["length"] < len(raw):
                pr["desc_truncated_by_wlength"] += 1
            if op["length"] > len(raw):
                pr["desc_wlength_exceeds"] += 1
            if len(want) % 4:
                pr["desc_partial_last_word"] += 1
            if op["length"] % 4:
                pr["desc_wlength_not_multiple_of_4"] += 1
            self.classes.add(("known", min(len(want), 20), op["length"] < len(raw), op["length"] > len(raw)))
            self._finish()
        return False


def _run_descriptor(scn):
    cfg = scn["config"]
    bench = _descriptor_bench(cfg["collection"])
    viol = Violations()
    probes = {p: 0 for p in PROBES}
    actor = _DescriptorActor(scn, viol, probes)
    slow = -(-len(cfg["ready"]) // max(1, sum(cfg["ready"])))
    log = bench.run([actor], max_cycles=len(scn["ops"]) * (RESP_START + 16 + 40 * slow * 2) + 20)
    if not viol and actor.i < len(scn["ops"]):
        raise RuntimeError("descriptor script did not finish")
    sig = hashlib.blake2b(repr(("desc", cfg["collection"], cfg["ready"] == [1], sorted(map(repr, actor.classes)))).encode(),
                          digest_size=8).hexdigest()
    faults = {"ready_stall": probes["desc_ready_stall"], "unknown_descriptor": probes["desc_unknown"],
              "short_wlength": probes["desc_truncated_by_wlength"]}
    return {"violations": viol.items, "cycles": log.cycles, "faults": faults, "probes": probes, "sig": sig,
            "nontrivial": probes["desc_requests"] > 0 or probes["desc_unknown"] > 0 or bool(viol),
            "digest": log.digest, "fsm": len(log.fsm_vectors)}


def run(scn):
    if scn["config"]["dut"] == "setup":
        return _run_setup(scn)
    return _run_descriptor(scn)


def shrink_candidates(scn):
    import copy
    cfg = scn["config"]
    if cfg["dut"] == "setup":
        for i, op in enumerate(scn["ops"]):
            if any(op["gaps"]) or op["idle_after"] or op["strobe_delay"] > 1 or op["header_lead"] > 1:
                cand = copy.deepcopy(scn)
                c = cand["ops"][i]
                c["gaps"] = [0] * len(c["gaps"])
                c["idle_after"] = 0
                c["strobe_delay"] = 1 if c["verdict"] != "abort" else 0
                c["header_lead"] = 1
                yield cand
    else:
        if cfg["ready"] != [1]:
            cand = copy.deepcopy(scn)
            cand["config"]["ready"] = [1]
            yield cand
