"""
C41 -- the LTSSM reaches U0 only through training and honours resets and timeouts.

DUT: luna.gateware.usb.usb3.link.ltssm.LTSSMController(ss_clock_frequency=f, loosen_requirements=L), real, standalone,
domain "ss"; f = 100/200/250 kHz through the public parameter, so 2 / 12 / 360 ms are 200 / 1200 / 36000 cycles (x1, x2,
x2.5) and keep their ratios.

Environment (one actor, no randomness): a PHY + link-partner model that reacts to what the DUT asks for -- receiver
detection results, LFPS burst counter and polling detects, TSEQ/TS1/TS2 burst-complete cadence of the DUT's own emitters,
partner TS1 / inverted TS1 / TS2 detects with hot-reset / loopback / no-scrambling bits, idle-handshake completion --
each with literal delays or withheld (to force every timeout), plus injected faults: warm / power-on resets of literal
length at literal cycles or aligned to an environment event (same cycle as idle-handshake completion, burst completion,
TS2 detect, ...), spurious strobes, trigger_link_recovery, partner-initiated recovery (TS1 in U0).

Oracle: monitors over the *input history* and the outputs (no internal state):
  ready_requires_training  necessary conditions for link_ready exactly as the statement lists them;
  reset_removes_ready      in_usb_reset high in cycle t => link_ready low in cycle t+1;
  timeouts                 a sub-state recognised by its output signature (LFPS polling / TS1 / TS2 / idle handshake /
                           quiet) lasts no longer than its documented timeout (+2 cycles; TS2 + one burst period because
                           the synthetic Configuration.Exit sub-state shares the signature);
  scrambling               in U0 enable_scrambling == neither side asked to disable it.
"""

import hashlib

from dsim.kernel import make_bench, Violations

PROPERTY = "C41"
ENGINE = "usb3_link"
CLOCK_HZ = 1e5
RULES = {
    "C41.ready_requires_training": "link_ready only after (since reset) partner detected, polling LFPS (or TS1 if loosened) seen, "
                                   "and (since the last entry to polling/recovery/hot reset) TS2 seen, TS2 burst completed and "
                                   "idle handshake completed",
    "C41.reset_removes_ready": "in_usb_reset high in cycle t => link_ready low in cycle t+1 (removed within one cycle, kept out "
                               "of U0 while the reset lasts)",
    "C41.timeouts": "LFPS-polling / TS1 / TS2 / idle-handshake / quiet sub-states are left no later than 360 / 12 / 12 / 2 / 12 ms",
    "C41.scrambling": "in U0 enable_scrambling is high iff neither disable_scrambling nor the partner's no-scrambling bit was set",
}
PROBES = ["u0_entered", "u0_via_recovery", "u0_via_hot_reset", "loopback_entered", "polarity_inverted", "loosened_ts1_path",
          "timeout_ts1", "timeout_ts2", "timeout_idle", "timeout_quiet", "timeout_lfps", "no_partner_quiet",
          "reset_in_u0", "reset_same_cycle_idle_complete", "reset_same_cycle_burst_complete", "reset_same_cycle_ts_detect",
          "reset_one_cycle", "reset_long", "spurious_strobe", "trigger_recovery_in_u0", "partner_ts1_in_u0",
          "scrambling_disabled_by_us", "scrambling_disabled_by_partner"]
META = {
    "components_real": ["luna.gateware.usb.usb3.link.ltssm.LTSSMController"],
    "components_stubbed": ["physical layer (phy_ready, receiver detection, LFPS counter/detector)",
                           "TSTransceiver (burst_complete cadence, TS detects + configuration bits)", "IdleHandshakeHandler",
                           "link partner behaviour (scripted)"],
    "assumptions": ["ss_clock_frequency is scaled through the public constructor parameter",
                    "power-on reset reaches the LTSSM as in_usb_reset (as in USB3LinkLayer); the unused power_on_reset port is "
                    "driven together with it",
                    "the DUT's own emitters complete a burst at least every `burst_period` cycles while one is requested",
                    "the PHY answers every receiver-detection request (Rx.Detect.Active has no timeout)",
                    "disable_scrambling is constant during a run; the partner's configuration bits are presented only while "
                    "TS2s are being exchanged",
                    "an input strobe counts for the necessary conditions only in a cycle in which the DUT's outputs ask for it"],
    "rule": "per run: f, loosen, delays and per-phase scripts (detect / no-detect, LFPS detect offsets or withheld, TS1 / inverted "
            "TS1 / TS2 / nothing, TS2 with hot-reset / loopback / no-scrambling, idle completion delay or withheld) consumed "
            "cyclically; 0-6 faults, a third of them aligned to the cycle of an environment event; ~15 % fault-free",
}
TIERS = {"quick": {"runs": 1600, "wall": 70}, "thorough": {"runs": 10000, "wall": 900}}

INPUTS = ["in_usb_reset", "power_on_reset", "trigger_link_recovery", "phy_ready", "disable_scrambling",
          "link_partner_detected", "no_link_partner_detected", "lfps_polling_detected", "lfps_cycles_sent",
          "tseq_detected", "ts1_detected", "inverted_ts1_detected", "ts2_detected", "hot_reset_requested",
          "loopback_requested", "no_scrambling_requested", "ts_burst_complete", "idle_handshake_complete"]
OUTPUTS = ["link_ready", "entering_u0", "tx_electrical_idle", "engage_terminations", "invert_rx_polarity", "train_equalizer",
           "perform_rx_detection", "send_lfps_polling", "send_tseq_burst", "send_ts1_burst", "send_ts2_burst",
           "request_hot_reset", "request_no_scrambling", "enable_scrambling", "perform_idle_handshake", "act_as_loopback"]
SPURIOUS = ["link_partner_detected", "no_link_partner_detected", "lfps_polling_detected", "ts1_detected",
            "inverted_ts1_detected", "ts2_detected", "ts_burst_complete", "idle_handshake_complete", "tseq_detected"]
EVENTS = ["rx_result", "lfps_detect", "tseq_done", "burst_done_ts1", "ts1_phase_detect", "ts2_detect", "burst_done_ts2",
          "idle_complete", "u0"]


# ======================================================================================================
# generation
# ======================================================================================================
def gen(rng, tier, index):
    f = rng.choice([100000, 100000, 100000, 200000, 250000])
    scale = f // 100000 if f != 250000 else 2.5
    T2, T12 = int(200 * scale), int(1200 * scale)
    fault_free = rng.random() < 0.15
    lfps_timeout_run = (f == 100000) and rng.random() < 0.05
    cfg = {
        "f": f, "loosen": rng.random() < 0.5, "disable_scrambling": int(rng.random() < 0.2),
        "phy_ready_at": rng.choice([0, 0, 3, 20, 100]),
        "burst_period": rng.choice([16, 16, 32, 64, 80]), "tseq_len": rng.choice([20, 40, 64, 120]),
        "lfps_step": rng.choice([2, 3, 5, 8]),
    }
    ok = fault_free or rng.random() < 0.3          # mostly-successful partner
    def rx_script():
        # (a PHY may take longer than the 12 ms of the neighbouring states to answer a detection request: Rx.Detect.Active and
        # SS.Inactive.Disconnect.Detect have no timeout of their own)
        return [{"result": "yes" if (ok or rng.random() < 0.75) else "no",
                 "delay": rng.choice([1, 2, 5, 20, 20, T12 + rng.choice([7, 60, T12 // 2, T12 + 40])])}
                for _ in range(rng.randint(1, 4))]
    def lfps_script():
        out = []
        for _ in range(rng.randint(1, 3)):
            r = rng.random()
            if lfps_timeout_run:
                out.append({"detect": [] if rng.random() < 0.5 else [rng.randint(0, 30)], "ts1": None, "stall_counter": True})
            elif r < 0.75 or ok:
                first = rng.choice([0, 5, 20, 60, 150])
                out.append({"detect": [first, first + rng.randint(5, 40)], "ts1": None})
            elif r < 0.9:
                out.append({"detect": [], "ts1": rng.choice([10, 100, 200])})
            else:
                out.append({"detect": [rng.randint(0, 50)], "ts1": rng.choice([None, 150]), "stall_counter": True})
        return out
    def ts1_script():
        out = []
        for _ in range(rng.randint(1, 4)):
            r = rng.random()
            if ok or r < 0.7:
                det = rng.choice(["ts1", "ts1", "ts1", "its1", "ts2"])
            else:
                det = None
            out.append({"det": det, "delay": rng.choice([0, 3, cfg["burst_period"] - 1, cfg["burst_period"], cfg["burst_period"] + 1,
                                                         100, T12 - 3, T12 - 1, T12]), "rep": rng.choice([8, 32, 50])})
        return out
    def ts2_script():
        out = []
        for _ in range(rng.randint(1, 5)):
            r = rng.random()
            e = {"det_delay": rng.choice([0, 1, 10, cfg["burst_period"] - 1, cfg["burst_period"], 150, T12 - 2, T12]),
                 "rep": rng.choice([8, 32]), "hot": 0, "loop": 0, "noscr": 0, "hot_clear_after": None}
            if not ok and r < 0.15:
                e["det_delay"] = None
            elif r < 0.3 and not fault_free:
                e["hot"] = 1
                e["hot_clear_after"] = rng.choice([None, 40, 200])
            elif r < 0.36 and not fault_free:
                e["loop"] = 1
            if rng.random() < 0.2:
                e["noscr"] = 1
            out.append(e)
        return out
    def idle_script():
        return [{"delay": (rng.choice([0, 1, 4, 50, T2 - 2, T2 - 1, T2, T2 + 1]) if (ok or rng.random() < 0.8) else None)}
                for _ in range(rng.randint(1, 4))]
    cfg["rx"], cfg["lfps"], cfg["ts1"], cfg["ts2"], cfg["idle"] = rx_script(), lfps_script(), ts1_script(), ts2_script(), idle_script()
    horizon = rng.choice([3000, 5000, 8000]) * (2 if f > 100000 else 1)
    if lfps_timeout_run:
        horizon = 36000 + 2500
    cfg["horizon"] = horizon
    ops = []
    if not fault_free:
        for _ in range(rng.randint(0, 6)):
            r = rng.random()
            if r < 0.4:
                trig = {"on": rng.choice(["idle_complete", "idle_complete", "idle_complete", "burst_done_ts2", "burst_done_ts2",
                                          "ts2_detect", "ts1_phase_detect", "burst_done_ts1", "tseq_done", "rx_result", "lfps_detect"]),
                        "nth": rng.choice([1, 1, 1, 2, 3]), "offset": rng.choice([0, 0, 0, 1, 2])}
            elif r < 0.65:
                trig = {"on": "u0", "nth": rng.randint(1, 3), "offset": rng.choice([1, 1, 2, 5, 30, 200])}
            else:
                trig = {"at": rng.randint(0, horizon - 1)}
            k = rng.random()
            if k < 0.5:
                op = {"trig": trig, "kind": "reset", "len": rng.choice([1, 1, 1, 2, 3, 10, 50, 400]),
                      "power_on": rng.random() < 0.3}
            elif k < 0.7:
                op = {"trig": trig, "kind": "spurious", "sig": rng.choice(SPURIOUS), "len": rng.choice([1, 1, 2])}
            elif k < 0.85:
                op = {"trig": trig, "kind": "recovery", "len": 1}
            else:
                op = {"trig": trig, "kind": "partner_ts1", "len": 1}
            ops.append(op)
    return {"engine": ENGINE, "config": cfg, "ops": ops}


# ======================================================================================================
# bench
# ======================================================================================================
_BENCHES = {}


def _bench(f, loosen):
    from dsim import kernel

    def factory():
        from luna.gateware.usb.usb3.link.ltssm import LTSSMController
        dut = LTSSMController(ss_clock_frequency=float(f), loosen_requirements=bool(loosen))
        ins = {n: getattr(dut, n) for n in INPUTS}
        outs = {n: getattr(dut, n) for n in OUTPUTS}
        return make_bench(dut, clocks={"ss": 1 / f}, main="ss", ins=ins, outs=outs)
    if kernel.PUBLIC_API:
        return factory()
    key = (f, bool(loosen))
    if key not in _BENCHES:
        _BENCHES[key] = factory()
    return _BENCHES[key]


def _signature(o):
    if o["send_lfps_polling"]:
        return "lfps"
    if o["send_tseq_burst"]:
        return "tseq"
    if o["send_ts1_burst"]:
        return "ts1"
    if o["send_ts2_burst"]:
        return "ts2"
    if o["perform_idle_handshake"]:
        return "idle"
    if o["perform_rx_detection"]:
        return "rxdet"
    if o["link_ready"]:
        return "u0"
    if o["act_as_loopback"]:
        return "loopback"
    if o["tx_electrical_idle"] and o["engage_terminations"]:
        return "quiet"
    if o["tx_electrical_idle"]:
        return "off"
    return "other"


# ======================================================================================================
# environment + oracle
# ======================================================================================================
class _Env:
    def __init__(self, scn, viol, probes):
        cfg = scn["config"]
        self.cfg = cfg
        self.ops = scn["ops"]
        self.viol, self.probes = viol, probes
        f = cfg["f"]
        self.T = {"idle": -(-2 * f // 1000), "ts1": -(-12 * f // 1000), "ts2": -(-12 * f // 1000) + cfg["burst_period"] + 1,
                  "quiet": -(-12 * f // 1000), "lfps": -(-360 * f // 1000)}
        # ---- environment state ----
        self.prev = None                # previous sample
        self.prev2_ready = 0
        self.phase = None
        self.phase_start = 0
        self.script_idx = {"rx": 0, "lfps": 0, "ts1": 0, "ts2": 0, "idle": 0}
        self.entry = None
        self.lfps_count = 0
        self.since_burst = 0
        self.ev_count = {e: 0 for e in EVENTS}
        self.pending = []               # (cycle, op) faults scheduled relative to events
        self.active = []                # (end_cycle, pins)
        self.cur = None
        self.abs_ops = {}
        for op in self.ops:
            if "at" in op["trig"]:
                self.abs_ops.setdefault(op["trig"]["at"], []).append(op)
        # ---- oracle state ----
        self.stage = 0                  # since reset: 0 nothing, 1 partner detected, 2 LFPS (or TS1 if loosened) seen
        self.e_ts2 = False
        self.e_burst = False
        self.e_idle = False
        self.partner_noscr = False
        self.sig = None
        self.sig_len = 0
        self.prev_in = None
        self.prev_out = None
        self.episode = "polling"
        self.reset_in_substate = "none"
        self.reset_lost_progress = False    # a reset wiped training progress that the oracle had recorded
        self.dead = False
        self.classes = set()
        self.sig_trace = []

    # ------------------------------------------------------------------------------------------------
    def _event(self, name, t):
        self.ev_count[name] += 1
        n = self.ev_count[name]
        for op in self.ops:
            tr = op["trig"]
            if tr.get("on") == name and tr["nth"] == n:
                self.pending.append((t + tr["offset"], op))

    def _next_entry(self, kind):
        lst = self.cfg[kind]
        e = lst[self.script_idx[kind] % len(lst)]
        self.script_idx[kind] += 1
        return e

    def drive(self, t):
        cfg = self.cfg
        p = self.prev
        pins = {n: 0 for n in INPUTS}
        pins["phy_ready"] = int(t >= cfg["phy_ready_at"])
        pins["disable_scrambling"] = cfg["disable_scrambling"]
        # ---- what did the DUT ask for in the previous cycle? -------------------------------------------
        phase = _signature(p) if p is not None else None
        if phase != self.phase:
            self.phase = phase
            self.phase_start = t
            self.entry = None
            self.since_burst = 0
            if phase == "rxdet":
                self.entry = self._next_entry("rx")
            elif phase == "lfps":
                self.entry = self._next_entry("lfps")
                self.lfps_count = 0
            elif phase == "ts1":
                self.entry = self._next_entry("ts1")
            elif phase == "ts2":
                self.entry = self._next_entry("ts2")
            elif phase == "idle":
                self.entry = self._next_entry("idle")
        age = t - self.phase_start
        e = self.entry
        if p is not None and p["link_ready"] and not self.prev2_ready:
            self._event("u0", t)
        if phase == "rxdet":
            if age == e["delay"]:
                pins["link_partner_detected" if e["result"] == "yes" else "no_link_partner_detected"] = 1
                self._event("rx_result", t)
        elif phase == "lfps":
            if not e.get("stall_counter") or self.lfps_count < 14:
                if age % cfg["lfps_step"] == cfg["lfps_step"] - 1:
                    self.lfps_count = min(self.lfps_count + 1, 65535)
            if age in e["detect"]:
                pins["lfps_polling_detected"] = 1
                self._event("lfps_detect", t)
            if e["ts1"] is not None and age >= e["ts1"] and (age - e["ts1"]) % 40 == 0:
                pins["ts1_detected"] = 1
        elif phase == "tseq":
            if age == cfg["tseq_len"]:
                pins["ts_burst_complete"] = 1
                self._event("tseq_done", t)
        elif phase in ("ts1", "ts2"):
            self.since_burst += 1
            if self.since_burst >= cfg["burst_period"]:
                self.since_burst = 0
                pins["ts_burst_complete"] = 1
                self._event("burst_done_" + phase, t)
            if phase == "ts1":
                if e["det"] is not None and age >= e["delay"] and (age - e["delay"]) % e["rep"] == 0:
                    pins[{"ts1": "ts1_detected", "its1": "inverted_ts1_detected", "ts2": "ts2_detected"}[e["det"]]] = 1
                    self._event("ts1_phase_detect", t)
            else:
                hot = e["hot"] and (e["hot_clear_after"] is None or age < e["hot_clear_after"])
                pins["hot_reset_requested"] = int(bool(hot))
                pins["loopback_requested"] = e["loop"]
                pins["no_scrambling_requested"] = e["noscr"]
                if e["det_delay"] is not None and age >= e["det_delay"] and (age - e["det_delay"]) % e["rep"] == 0:
                    pins["ts2_detected"] = 1
                    self._event("ts2_detect", t)
        elif phase == "idle":
            if e["delay"] is not None and age >= e["delay"]:
                pins["idle_handshake_complete"] = 1
                if age == e["delay"]:
                    self._event("idle_complete", t)
        pins["lfps_cycles_sent"] = self.lfps_count if phase == "lfps" else 0
        # ---- faults ----------------------------------------------------------------------------------
        for op in self.abs_ops.get(t, ()):
            self.pending.append((t, op))
        still = []
        for when, op in self.pending:
            if when <= t:
                self.active.append([t + op["len"], op])
            else:
                still.append((when, op))
        self.pending = still
        self.active = [a for a in self.active if a[0] > t]
        for _, op in self.active:
            k = op["kind"]
            if k == "reset":
                pins["in_usb_reset"] = 1
                if op.get("power_on"):
                    pins["power_on_reset"] = 1
            elif k == "spurious":
                pins[op["sig"]] = 1
                self.probes["spurious_strobe"] += 1
            elif k == "recovery":
                pins["trigger_link_recovery"] = 1
            elif k == "partner_ts1":
                pins["ts1_detected"] = 1
        self.cur = pins
        return pins

    # ------------------------------------------------------------------------------------------------
    def _fail(self, rule, t, msg, **shape):
        self.viol.add(rule, t, msg + f" [f={self.cfg['f']} loosen={self.cfg['loosen']}]", **shape)
        self.dead = True
        return True

    def observe(self, t, o):
        if self.dead:
            return True
        i = self.cur
        pr = self.probes
        pi, po = self.prev_in, self.prev_out
        cfg = self.cfg
        sig = _signature(o)
        # ================= reset removes ready ========================================================
        if pi is not None and pi["in_usb_reset"] and o["link_ready"]:
            co = [n for n in ("idle_handshake_complete", "ts_burst_complete", "ts2_detected", "ts1_detected",
                              "trigger_link_recovery") if pi[n]]
            return self._fail("C41.reset_removes_ready", t,
                              f"in_usb_reset was high in cycle {t - 1} and link_ready is high in cycle {t} "
                              f"(link_ready in cycle {t - 1}: {po['link_ready']}; previous sub-state signature "
                              f"{_signature(po)}; other inputs high in cycle {t - 1}: {co})",
                              kind="entered_u0_during_reset" if not po["link_ready"] else "ready_not_removed",
                              coincident=co[0] if co else "none", from_substate=_signature(po))
        # ================= ready requires training ====================================================
        if o["link_ready"] and not (po is not None and po["link_ready"]):
            missing = []
            if self.stage < 1:
                missing.append("partner_detected_since_reset")
            if self.stage < 2:
                missing.append("polling_lfps_since_reset")
            if not self.e_ts2:
                missing.append("ts2_detected_in_episode")
            if not self.e_burst:
                missing.append("ts2_burst_complete_in_episode")
            if not self.e_idle:
                missing.append("idle_handshake_in_episode")
            if missing:
                return self._fail("C41.ready_requires_training", t,
                                  f"link_ready rose although the input history lacks: {missing} (episode kind {self.episode})",
                                  missing=missing[0], episode=self.episode, after_reset=self.reset_lost_progress,
                                  reset_in_substate=self.reset_in_substate if self.reset_lost_progress else "none")
            pr["u0_entered"] += 1
            if self.episode == "recovery":
                pr["u0_via_recovery"] += 1
            if self.episode == "hot_reset":
                pr["u0_via_hot_reset"] += 1
            self.classes.add(("u0", self.episode))
        # ================= scrambling ==================================================================
        if o["link_ready"]:
            want = int(not (cfg["disable_scrambling"] or self.partner_noscr))
            if o["enable_scrambling"] != want:
                return self._fail("C41.scrambling", t,
                                  f"in U0 enable_scrambling={o['enable_scrambling']}, expected {want} (disable_scrambling="
                                  f"{cfg['disable_scrambling']}, partner no-scrambling bit seen in this training: {self.partner_noscr})",
                                  ours=cfg["disable_scrambling"], partner=int(self.partner_noscr))
            if not want and (po is None or not po["link_ready"]):
                pr["scrambling_disabled_by_us" if cfg["disable_scrambling"] else "scrambling_disabled_by_partner"] += 1
        # ================= timeouts ====================================================================
        if sig == self.sig:
            self.sig_len += 1
        else:
            if self.sig in self.T and self.sig_len >= self.T[self.sig] - (cfg["burst_period"] + 1 if self.sig == "ts2" else 0):
                pr["timeout_" + self.sig] += 1
            if self.sig == "idle" and sig == "ts2":
                self.episode = "hot_reset"             # Polling/Recovery.Idle -> Hot Reset.Active: a new entry
                self.e_ts2 = self.e_burst = self.e_idle = False
            if sig in ("lfps", "tseq", "ts1"):         # (re-)entry to polling / recovery: the exchange starts afresh
                self.episode = "recovery" if self.sig == "u0" else ("polling" if sig != "ts1" else self.episode)
                self.e_ts2 = self.e_burst = self.e_idle = False
                self.partner_noscr = False
            self.sig, self.sig_len = sig, 1
            self.classes.add(("sig", sig))
            if sig == "loopback":
                pr["loopback_entered"] += 1
        if sig in self.T and self.sig_len > self.T[sig] + 2:
            return self._fail("C41.timeouts", t,
                              f"sub-state with signature '{sig}' has lasted {self.sig_len} cycles; its timeout is "
                              f"{self.T[sig]} cycles", substate=sig)
        # ================= update the history-derived facts with this cycle's inputs ========================
        if po is not None and po["link_ready"] and not o["link_ready"]:
            self.episode = "recovery"
            self.e_ts2 = self.e_burst = self.e_idle = False
            self.partner_noscr = False
        if i["in_usb_reset"]:
            if self.stage or self.e_ts2 or self.e_burst:
                self.reset_lost_progress = True
                self.reset_in_substate = sig
            self.stage = 0
            self.e_ts2 = self.e_burst = self.e_idle = False
            self.partner_noscr = False
            self.episode = "polling"
            if o["link_ready"]:
                pr["reset_in_u0"] += 1
            if i["idle_handshake_complete"] and o["perform_idle_handshake"]:
                pr["reset_same_cycle_idle_complete"] += 1
            if i["ts_burst_complete"] and (o["send_ts2_burst"] or o["send_ts1_burst"]):
                pr["reset_same_cycle_burst_complete"] += 1
            if i["ts2_detected"] or i["ts1_detected"] or i["inverted_ts1_detected"]:
                pr["reset_same_cycle_ts_detect"] += 1
            if pi is None or not pi["in_usb_reset"]:
                pass
        else:
            if pi is not None and pi["in_usb_reset"]:
                pass
            if i["link_partner_detected"] and o["perform_rx_detection"] and self.stage == 0:
                self.stage = 1
                self.reset_lost_progress = False
            if o["send_lfps_polling"] and self.stage == 1:
                if i["lfps_polling_detected"]:
                    self.stage = 2
                elif cfg["loosen"] and i["ts1_detected"]:
                    self.stage = 2
                    pr["loosened_ts1_path"] += 1
            if i["no_link_partner_detected"] and o["perform_rx_detection"]:
                pr["no_partner_quiet"] += 1
            if i["idle_handshake_complete"] and o["perform_idle_handshake"] and self.e_burst:
                self.e_idle = True
            if i["ts_burst_complete"] and o["send_ts2_burst"] and self.e_ts2:
                self.e_burst = True
            if i["ts2_detected"]:
                self.e_ts2 = True
            if i["no_scrambling_requested"]:
                self.partner_noscr = True
            if o["link_ready"] and i["trigger_link_recovery"]:
                pr["trigger_recovery_in_u0"] += 1
            if o["link_ready"] and i["ts1_detected"]:
                pr["partner_ts1_in_u0"] += 1
        if o["invert_rx_polarity"] and (po is None or not po["invert_rx_polarity"]):
            pr["polarity_inverted"] += 1
        # ---- bookkeeping ------------------------------------------------------------------------------
        self.prev2_ready = self.prev["link_ready"] if self.prev is not None else 0
        self.prev = o
        self.prev_in, self.prev_out = i, o
        return t >= cfg["horizon"]


def run(scn):
    cfg = scn["config"]
    bench = _bench(cfg["f"], cfg["loosen"])
    viol = Violations()
    probes = {p: 0 for p in PROBES}
    env = _Env(scn, viol, probes)
    log = bench.run([env], max_cycles=cfg["horizon"] + 4)
    if not viol and log.cycles <= cfg["horizon"]:
        raise RuntimeError("run stopped early")
    resets = [op for op in scn["ops"] if op["kind"] == "reset"]
    probes["reset_one_cycle"] += sum(1 for op in resets if op["len"] == 1)
    probes["reset_long"] += sum(1 for op in resets if op["len"] >= 10)
    sig = hashlib.blake2b(repr((cfg["f"], cfg["loosen"], sorted(map(repr, env.classes)),
                                sorted(k for k, v in probes.items() if v))).encode(), digest_size=8).hexdigest()
    faults = {"usb3_reset": len(resets), "spurious_strobe": sum(1 for op in scn["ops"] if op["kind"] == "spurious"),
              "withhold_event": sum(probes["timeout_" + k] for k in ("ts1", "ts2", "idle", "quiet", "lfps")),
              "trigger_link_recovery": probes["trigger_recovery_in_u0"], "partner_recovery": probes["partner_ts1_in_u0"],
              "hot_reset_request": probes["u0_via_hot_reset"], "loopback_request": probes["loopback_entered"]}
    return {"violations": viol.items, "cycles": log.cycles, "faults": faults, "probes": probes, "sig": sig,
            "nontrivial": probes["u0_entered"] > 0 or faults["withhold_event"] > 0 or bool(viol),
            "digest": log.digest, "fsm": len(log.fsm_vectors)}


def shrink_candidates(scn):
    import copy
    cfg = scn["config"]
    # shorter horizon, single-entry scripts, shorter resets
    for h in (cfg["horizon"] // 2, cfg["horizon"] * 3 // 4):
        if h >= 600:
            cand = copy.deepcopy(scn)
            cand["config"]["horizon"] = h
            yield cand
    for k in ("rx", "lfps", "ts1", "ts2", "idle"):
        if len(cfg[k]) > 1:
            cand = copy.deepcopy(scn)
            cand["config"][k] = cfg[k][:1]
            yield cand
            cand = copy.deepcopy(scn)
            cand["config"][k] = cfg[k][1:]
            yield cand
    for i, op in enumerate(scn["ops"]):
        if op["kind"] == "reset" and op["len"] > 1:
            cand = copy.deepcopy(scn)
            cand["ops"][i]["len"] = 1
            yield cand
