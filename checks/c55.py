"""
C55 -- strobe stretching holds the output for exactly the requested time.

DUT: luna.gateware.utils.cdc.stretch_strobe_signal (real) inside a tiny wrapper Elaboratable (the function only
adds statements to a Module).  Actor: literal per-cycle strobe waveform.  Oracle: sliding-window OR.
"""

import hashlib

from dsim.kernel import make_bench, cached_bench, Violations

PROPERTY = "C55"
ENGINE = "periph"
CLOCK_HZ = 60e6
RULES = {
    "C55.high_in_window": "output is high in every cycle within to_cycles cycles after (and including) a strobe",
    "C55.low_otherwise": "output is low in every cycle that is not within to_cycles cycles of a strobe",
}
PROBES = ["isolated_strobe", "gap_exactly_n", "gap_n_minus_1", "gap_n_plus_1", "overlapping", "back_to_back", "n_is_1",
          "delay_allowed", "long_high", "output_fell", "non_sync_domain_runs"]
META = {
    "components_real": ["luna.gateware.utils.cdc.stretch_strobe_signal"],
    "components_stubbed": ["10-line wrapper Elaboratable that calls the function", "strobe source: literal waveform"],
    "assumptions": ["strobe changes only on the clock",
                    "without allow_delay the window starts in the strobe's own cycle; with allow_delay the window may start in "
                    "the strobe's cycle or one cycle later, but with ONE offset for the whole run (delay is allowed, not demanded: "
                    "to_cycles=1 is wired through undelayed by design)"],
    "rule": "to_cycles 1..40, allow_delay on/off, output signal supplied or created, explicit/implicit domain; strobe waveform "
            "built from segments: isolated strobes, strobes spaced exactly N-1/N/N+1 apart, overlapping bursts, "
            "back-to-back strobes, long highs, random noise",
}
TIERS = {"quick": {"runs": 60000, "wall": 70}, "thorough": {"runs": 200000, "wall": 900}}


def gen(rng, tier, index):
    n = rng.choice([1, 2, 2, 3, 3, 4, 5, 6, 7, 8, 9, 12, 15, 16, 17, 24, 31, 32, 33, 40, rng.randint(1, 40)])
    cfg = {"to_cycles": n, "allow_delay": rng.random() < 0.5, "own_output": rng.random() < 0.5,
           "explicit_domain": rng.random() < 0.3}
    if index % 5 == 3:
        # the stretcher lives in another clock domain (`domain=m.d.fast`), next to a `sync` domain that runs at a quarter of
        # its rate: "cycles" are cycles of the requested domain
        cfg["explicit_domain"] = "fast"
    bits = []
    total = rng.randint(3 * n + 10, 8 * n + (120 if tier == "quick" else 600))
    while len(bits) < total:
        k = rng.choice(["isolated", "gap_n", "gap_nm1", "gap_np1", "overlap", "b2b", "long", "noise", "idle"])
        if k == "isolated":
            bits += [1] + [0] * (n + rng.randint(1, 6))
        elif k == "gap_n":
            bits += [1] + [0] * (n - 1) + [1] + [0] * (n + rng.randint(0, 3))
        elif k == "gap_nm1":
            bits += [1] + [0] * max(0, n - 2) + [1] + [0] * (n + rng.randint(0, 3))
        elif k == "gap_np1":
            bits += [1] + [0] * n + [1] + [0] * (n + rng.randint(0, 3))
        elif k == "overlap":
            for _ in range(rng.randint(2, 5)):
                bits += [1] + [0] * rng.randint(0, max(0, n - 1))
            bits += [0] * rng.randint(0, n + 2)
        elif k == "b2b":
            bits += [1] * rng.randint(2, 5) + [0] * rng.randint(0, n + 2)
        elif k == "long":
            bits += [1] * (n + rng.randint(0, 6)) + [0] * rng.randint(0, n + 2)
        elif k == "noise":
            p = rng.choice([0.05, 0.2, 0.5])
            bits += [int(rng.random() < p) for _ in range(rng.randint(3, 2 * n + 6))]
        else:
            bits += [0] * rng.randint(1, n + 3)
    return {"engine": ENGINE, "config": cfg, "ops": bits[:total]}


def _bench(cfg):
    from amaranth import Module, Signal, Elaboratable, ClockDomain
    from luna.gateware.utils.cdc import stretch_strobe_signal
    n, delay, own, expl = cfg["to_cycles"], cfg["allow_delay"], cfg["own_output"], cfg["explicit_domain"]

    class Wrap(Elaboratable):
        def __init__(self):
            self.strobe = Signal()
            self.out = Signal()

        def elaborate(self, platform):
            m = Module()
            m.domains.sync = ClockDomain()      # to_cycles=1 is purely combinational
            kw = {}
            if expl == "fast":
                m.domains.fast = ClockDomain()
                kw["domain"] = m.d.fast
                tick = Signal()
                m.d.sync += tick.eq(~tick)       # keeps the (slower) sync domain alive in the design
            elif expl:
                kw["domain"] = m.d.sync
            if own:
                stretch_strobe_signal(m, self.strobe, to_cycles=n, output=self.out, allow_delay=delay, **kw)
            else:
                o = stretch_strobe_signal(m, self.strobe, to_cycles=n, allow_delay=delay, **kw)
                m.d.comb += self.out.eq(o)
            return m

    def factory():
        w = Wrap()
        if expl == "fast":
            return make_bench(w, clocks={"fast": 1 / 240e6, "sync": 1 / 60e6}, main="fast", ins={"strobe": w.strobe}, outs={"out": w.out})
        return make_bench(w, clocks={"sync": 1 / 60e6}, main="sync", ins={"strobe": w.strobe}, outs={"out": w.out})
    return cached_bench(("c55", n, delay, own, expl), factory)


class _Actor:
    def __init__(self, scn, viol, probes):
        self.bits = scn["ops"]
        self.n = scn["config"]["to_cycles"]
        self.delay = scn["config"]["allow_delay"]
        self.viol, self.probes = viol, probes
        self.offsets = [0, 1] if self.delay else [0]
        self.died = {}
        self.stop = False
        self.end = len(self.bits) + self.n + 3
        self.prev_out = 0
        self.last_strobe = None
        self.classes = set()

    def drive(self, t):
        return {"strobe": self.bits[t] if t < len(self.bits) else 0}

    def _strobe(self, t):
        return self.bits[t] if 0 <= t < len(self.bits) else 0

    def observe(self, t, o):
        if self.stop:
            return True
        out = o["out"]
        n = self.n
        keep = []
        for off in self.offsets:
            exp = 0
            for k in range(t - off - n + 1, t - off + 1):
                if self._strobe(k):
                    exp = 1
                    break
            if exp == out:
                keep.append(off)
            else:
                self.died[off] = (t, exp)
        if not keep:
            off = max(self.died, key=lambda k: (self.died[k][0], -k))
            exp = self.died[off][1]
            last = max((k for k in range(max(0, t - 3 * n - 3), t + 1) if self._strobe(k)), default=None)
            rule = "C55.high_in_window" if exp else "C55.low_otherwise"
            self.viol.add(rule, t, f"output={out} expected {exp} (to_cycles={n}, allow_delay={self.delay}, window offset {off}); "
                          f"most recent strobe at cycle {last}",
                          allow_delay=bool(self.delay), n_is_1=bool(n == 1), expected=exp,
                          since_last_strobe=(t - last) if last is not None else -1)
            self.stop = True
            return True
        self.offsets = keep
        # probes
        pr = self.probes
        s = self._strobe(t)
        if s:
            if self.last_strobe is not None:
                gap = t - self.last_strobe
                if gap == n:
                    pr["gap_exactly_n"] += 1
                elif gap == n - 1 and gap > 1:
                    pr["gap_n_minus_1"] += 1
                elif gap == n + 1:
                    pr["gap_n_plus_1"] += 1
                elif gap == 1:
                    pr["back_to_back"] += 1
                elif gap < n:
                    pr["overlapping"] += 1
                elif gap > n + 1:
                    pr["isolated_strobe"] += 1
                self.classes.add(("gap", min(gap, n + 2) - n))
            self.last_strobe = t
        if self.prev_out and not out:
            pr["output_fell"] += 1
        self.prev_out = out
        return t >= self.end


def run(scn):
    cfg = scn["config"]
    bench = _bench(cfg)
    viol = Violations()
    probes = {p: 0 for p in PROBES}
    actor = _Actor(scn, viol, probes)
    if cfg["to_cycles"] == 1:
        probes["n_is_1"] += 1
    if cfg["allow_delay"]:
        probes["delay_allowed"] += 1
    if cfg.get("explicit_domain") == "fast":
        probes["non_sync_domain_runs"] += 1
    run_len = 0
    for b in scn["ops"]:
        run_len = run_len + 1 if b else 0
        if run_len == cfg["to_cycles"] + 1:
            probes["long_high"] += 1
    log = bench.run([actor], max_cycles=actor.end + 4)
    if not actor.stop and log.cycles <= actor.end:
        raise RuntimeError("run ended early")
    sig = hashlib.blake2b(repr((cfg["to_cycles"], cfg["allow_delay"], sorted(actor.classes))).encode(), digest_size=8).hexdigest()
    faults = {"overlapping_strobe": probes["overlapping"] + probes["back_to_back"] + probes["gap_n_minus_1"],
              "boundary_spacing": probes["gap_exactly_n"] + probes["gap_n_plus_1"]}
    return {"violations": viol.items, "cycles": log.cycles, "faults": faults, "probes": probes, "sig": sig,
            "nontrivial": probes["output_fell"] > 0, "digest": log.digest, "fsm": len(log.fsm_vectors)}


def shrink_candidates(scn):
    import copy
    ops = scn["ops"]
    for i in range(len(ops) - 1, -1, -1):
        if ops[i]:
            cand = copy.deepcopy(scn)
            cand["ops"][i] = 0
            yield cand
