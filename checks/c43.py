"""
C43 -- training ordered sets are emitted and detected exactly.

Three DUT families (config["dut"]), all real, domain "ss":

* "emitter":     TSEmitter(set kind, burst length n, include_config) -- start pulses / levels, literal ready pattern,
                 link-functionality request bits.  Oracle (per-cycle monitor): a start seen while the emitter is idle
                 begins a burst within 3 cycles; a burst is exactly n consecutive sets (valid never drops inside a
                 burst) whose words equal the specification's symbols (word 1 carries the requested hot-reset / loopback
                 / no-scrambling bits for TS2); done is high when the last word of the burst is transferred and in no
                 cycle in which that word is not on the stream; nothing is emitted without a start.
* "detector":    TSBurstDetector(set kind, sets_in_burst n, include_config) -- literal word stream made of well-formed
                 sets, idle (invalid) gaps between and inside sets, corrupted / truncated sets, foreign ordered sets and
                 random words.  Oracle (history): models.usb3_proto.TSDetectorModel -- exactly one report per n
                 consecutive well-formed sets, at one consistent latency of 1..4 cycles after the last word; no other
                 report; reported configuration bits equal those of the sets.
* "transceiver": TSTransceiver -- the same detector oracle for its four detectors (TSEQ x32, TS1 x8, inverted TS1 x8,
                 TS2 x8 + configuration bits) on one sink stream, and the emitter oracle for the TS1 / TS2 (x16) and
                 TSEQ (word correctness only, the 65536-set burst is never completed) generators selected by level.
"""

import hashlib

from dsim.kernel import make_bench, cached_bench, Violations
from models.usb3_proto import (TS_SETS, ts_word, parse_ts_stream, TSDetectorModel, LF_HOT_RESET, LF_LOOPBACK,
                               LF_NO_SCRAMBLING)

PROPERTY = "C43"
ENGINE = "usb3_link"
CLOCK_HZ = 125e6
RULES = {
    "C43.emit": "a requested burst is exactly n consecutive ordered sets with the specified symbols and requested "
                "link-functionality bits; done marks its last word; nothing is emitted unrequested",
    "C43.detect": "one report for every n consecutive well-formed ordered sets (idle gaps allowed), at one consistent latency",
    "C43.no_false": "no report unless n complete well-formed sets were received since the last report",
    "C43.config": "hot-reset / loopback / no-scrambling flags at a report equal the link-functionality bits of the sets",
}
PROBES = ["emit_bursts", "emit_ready_stall", "emit_start_held_over_done", "emit_start_pulse_mid_burst", "emit_config_bits",
          "detect_reports", "detect_gap_inside_set", "detect_gap_between_sets", "detect_corrupted_set", "detect_truncated_set",
          "detect_foreign_set", "detect_garbage_word", "detect_config_nonzero", "detect_short_run_no_report",
          "trx_switch_after_burst", "trx_switch_mid_burst", "trx_detect_reports"]
META = {
    "components_real": ["luna.gateware.usb.usb3.link.ordered_sets.TSEmitter", "...TSBurstDetector", "...TSTransceiver"],
    "components_stubbed": ["physical-layer receive stream (literal words)", "transmit stream consumer (literal ready pattern)",
                           "LTSSM (start / send_* levels, request bits)"],
    "assumptions": ["request_hot_reset/loopback/no_scrambling only change while the emitter is idle (or deselected)",
                    "at most one send_* level of the transceiver is high at a time",
                    "a start pulse while a burst is in progress may or may not queue another burst (not fixed by the statement)",
                    "whether valid garbage between sets breaks 'consecutive' is not fixed by the statement: both readings are "
                    "accepted (nondeterministic reference); idle gaps never break it",
                    "the reserved symbol 4 of TS1/TS2 is ignored by a detector that reports configuration bits"],
    "rule": "emitter: 2-6 bursts with start pulses/levels and 40-100 % ready; detector: 3-14 stream items (runs of 1..2n+2 "
            "sets, gaps, corrupted/truncated/foreign sets, random words), n in 1..8 (TSEQ up to 32); ~35 % of detector runs "
            "contain only well-formed sets and idle gaps",
}
TIERS = {"quick": {"runs": 15000, "wall": 70}, "thorough": {"runs": 60000, "wall": 900}}

KINDS = ["TSEQ", "TS1", "TS2", "ITS1"]
MAX_LAT = 4


# ======================================================================================================
# generation
# ======================================================================================================
def _ready_pattern(rng):
    p = rng.choice([1.0, 1.0, 0.9, 0.7, 0.4])
    return [1] + [int(rng.random() < p) for _ in range(rng.randint(4, 22))] if p < 1.0 else [1]


def _gen_emitter(rng, tier):
    kind, n, inc = rng.choice([("TS1", 1, False), ("TS1", 16, False), ("TS1", 3, True), ("TS2", 1, True), ("TS2", 2, True),
                               ("TS2", 16, True), ("TS2", 16, True), ("TSEQ", 2, False), ("TSEQ", 3, False), ("ITS1", 5, False)])
    cfg = {"dut": "emitter", "kind": kind, "n": n, "include_config": inc, "ready": _ready_pattern(rng)}
    ops = []
    for _ in range(rng.randint(2, 6)):
        hold = rng.choice([1, 1, 2, "done", "done", "past_done"])
        op = {"op": "burst", "idle_before": rng.choice([0, 0, 1, 2, 5]), "hold": hold,
              "lf": rng.choice([0, 0, LF_HOT_RESET, LF_LOOPBACK, LF_NO_SCRAMBLING, rng.choice([1, 4, 8, 5, 9, 12, 13])])
              if cfg["include_config"] else 0,
              "mid_pulses": sorted(rng.randint(2, 4 * n * 4) for _ in range(rng.choice([0, 0, 0, 1, 2])))}
        ops.append(op)
    return {"engine": ENGINE, "config": cfg, "ops": ops}


def _set_words(kind, lf=0, sym4=0):
    out = []
    for i in range(len(TS_SETS[kind]["words"])):
        d, c = ts_word(kind, i, lf)
        if i == 1 and sym4:
            d |= sym4
        out.append([1, d, c])
    return out


def _gap(rng, n):
    mode = rng.choice(["zero", "random", "word0"])
    out = []
    for _ in range(n):
        if mode == "zero":
            out.append([0, 0, 0])
        elif mode == "random":
            out.append([0, rng.getrandbits(32), rng.getrandbits(4)])
        else:
            out.append([0, 0xBCBCBCBC, 0b1111])
    return out


def _stream_items(rng, kind, n, config, clean, max_items):
    """ returns (rows, stats) """
    rows = []
    stats = {"gap_in": 0, "gap_between": 0, "corrupt": 0, "trunc": 0, "foreign": 0, "garbage": 0, "cfg": 0}
    others = [k for k in KINDS if k != kind]
    nitems = rng.randint(3, max_items)
    for _ in range(nitems):
        what = "sets" if clean else rng.choice(["sets", "sets", "sets", "corrupt", "trunc", "foreign", "garbage", "garbage_isolated"])
        if what == "sets":
            count = rng.choice([1, n - 1, n, n, n + 1, 2 * n, 2 * n + 1, rng.randint(1, 2 * n + 2)])
            count = max(1, min(count, 40))
            lf = 0
            if config:
                lf = rng.choice([0, 0, LF_HOT_RESET, LF_LOOPBACK, LF_NO_SCRAMBLING, rng.getrandbits(8)])
            sym4 = rng.getrandbits(8) if config and rng.random() < 0.15 else 0
            vary = config and rng.random() < 0.15
            p_between = rng.choice([0.0, 0.0, 0.3, 1.0])
            p_inside = rng.choice([0.0, 0.0, 0.0, 0.15])
            for _ in range(count):
                l = rng.getrandbits(4) if vary else lf
                if l:
                    stats["cfg"] += 1
                for w in _set_words(kind, l, sym4):
                    if rng.random() < p_inside:
                        rows += _gap(rng, rng.randint(1, 2))
                        stats["gap_in"] += 1
                    rows.append(w)
                if rng.random() < p_between:
                    rows += _gap(rng, rng.randint(1, 3))
                    stats["gap_between"] += 1
        elif what == "corrupt":
            ws = _set_words(kind, 0)
            k = rng.randrange(len(ws))
            if rng.random() < 0.7:
                ws[k][1] ^= 1 << rng.randrange(32)
                if k == 1 and config:
                    ws[k][1] ^= 1 << rng.randrange(16, 32)
            else:
                ws[k][2] ^= 1 << rng.randrange(4)
            rows += ws
            stats["corrupt"] += 1
            if rng.random() < 0.5:
                rows += _gap(rng, rng.randint(1, 2))
        elif what == "trunc":
            ws = _set_words(kind, 0)
            rows += ws[:rng.randint(1, len(ws) - 1)]
            stats["trunc"] += 1
            if rng.random() < 0.5:
                rows += _gap(rng, rng.randint(1, 2))
        elif what == "foreign":
            rows += _set_words(rng.choice(others), 0) * rng.randint(1, 3)
            stats["foreign"] += 1
            if rng.random() < 0.5:
                rows += _gap(rng, rng.randint(1, 2))
        elif what == "garbage":
            for _ in range(rng.randint(1, 3)):
                rows.append([1, rng.choice([rng.getrandbits(32), 0, 0x4A4A4A4A, 0xBCBCBCBC]), rng.choice([0, 0, 15, rng.getrandbits(4)])])
            stats["garbage"] += 1
        else:
            rows += _gap(rng, rng.randint(1, 2))
            rows.append([1, rng.getrandbits(32) | 0x01010101, 0])
            rows += _gap(rng, rng.randint(1, 2))
            stats["garbage"] += 1
    rows += _gap(rng, 2)
    return rows, stats


def _gen_detector(rng, tier):
    kind, n, config = rng.choice([("TS1", 1, False), ("TS1", 3, False), ("TS1", 8, False), ("TS1", 8, False), ("TS1", 2, True),
                                  ("TS2", 1, True), ("TS2", 2, True), ("TS2", 8, True), ("TS2", 8, True), ("ITS1", 2, False),
                                  ("ITS1", 8, False), ("TSEQ", 1, False), ("TSEQ", 4, False),
                                  ("TSEQ", 32, False) if tier != "quick" else ("TSEQ", 4, False)])
    clean = rng.random() < 0.35
    rows, stats = _stream_items(rng, kind, n, config, clean, 10 if tier == "quick" else 24)
    lead = rng.choice([1, 1, 2, 3])             # invalid cycles before the stream starts (the DUT leaves reset)
    rows = [[0, 0, 0]] * lead + rows
    return {"engine": ENGINE, "config": {"dut": "detector", "kind": kind, "n": n, "include_config": config, "clean": clean,
                                         "stats": stats}, "ops": rows}


def _gen_transceiver(rng, tier):
    # sink side: a stream mixing the four kinds (each detector sees the other kinds as foreign data)
    rows = [[0, 0, 0]]
    stats = {"gap_in": 0, "gap_between": 0, "corrupt": 0, "trunc": 0, "foreign": 0, "garbage": 0, "cfg": 0}
    clean = rng.random() < 0.4
    for _ in range(rng.randint(1, 4)):
        kind = rng.choice(["TS1", "TS2", "ITS1", "TSEQ"])
        n = 32 if kind == "TSEQ" else 8
        r, s = _stream_items(rng, kind, n, kind == "TS2", clean, 3)
        rows += r
        for k in stats:
            stats[k] += s[k]
    # source side
    sends = []
    for _ in range(rng.randint(1, 4)):
        sends.append({"kind": rng.choice(["TS1", "TS2", "TS1", "TS2", "TSEQ", None]),
                      "until": rng.choice(["burst", "burst", "two_bursts", rng.randint(3, 90)]),
                      "lf": rng.choice([0, LF_HOT_RESET, LF_NO_SCRAMBLING, LF_LOOPBACK, 13])})
    return {"engine": ENGINE, "config": {"dut": "transceiver", "clean": clean, "ready": _ready_pattern(rng), "sends": sends,
                                         "stats": stats}, "ops": rows}


def gen(rng, tier, index):
    r = rng.random()
    if r < 0.3:
        return _gen_emitter(rng, tier)
    if r < 0.8:
        return _gen_detector(rng, tier)
    return _gen_transceiver(rng, tier)


# ======================================================================================================
# benches (about 25 small designs; kept for the life of the worker, the kernel's 6-entry cache would thrash)
# ======================================================================================================
_BENCHES = {}


def _cached(key, factory):
    from dsim import kernel
    if kernel.PUBLIC_API:
        return factory()
    if key not in _BENCHES:
        _BENCHES[key] = factory()
    return _BENCHES[key]


def _luna_sets():
    from luna.gateware.usb.usb3.link import ordered_sets as o
    return {"TSEQ": (o.TSEQ_SET_DATA, 0b0001), "TS1": (o.TS1_SET_DATA, 0b1111), "TS2": (o.TS2_SET_DATA, 0b1111),
            "ITS1": (o.INVERTED_TS1_SET_DATA, 0b1111)}


def _emitter_bench(kind, n, include_config):
    def factory():
        from luna.gateware.usb.usb3.link.ordered_sets import TSEmitter
        data, ctrl = _luna_sets()[kind]
        dut = TSEmitter(set_data=data, first_word_ctrl=ctrl, transmit_burst_length=n, include_config=include_config)
        ins = {"start": dut.start, "ready": dut.source.ready}
        if include_config:
            ins.update({"hot": dut.request_hot_reset, "loop": dut.request_loopback, "noscr": dut.request_no_scrambling})
        outs = {"valid": dut.source.valid, "data": dut.source.data, "ctrl": dut.source.ctrl, "done": dut.done}
        return make_bench(dut, clocks={"ss": 8e-9}, main="ss", ins=ins, outs=outs)
    return _cached(("c43", "emitter", kind, n, include_config), factory)


def _detector_bench(kind, n, include_config):
    def factory():
        from luna.gateware.usb.usb3.link.ordered_sets import TSBurstDetector
        data, ctrl = _luna_sets()[kind]
        dut = TSBurstDetector(set_data=data, first_word_ctrl=ctrl, sets_in_burst=n, include_config=include_config)
        ins = {"valid": dut.sink.valid, "data": dut.sink.data, "ctrl": dut.sink.ctrl}
        outs = {"detected": dut.detected}
        if include_config:
            outs.update({"hot": dut.hot_reset, "loop": dut.loopback_requested, "noscr": dut.scrambling_disabled})
        return make_bench(dut, clocks={"ss": 8e-9}, main="ss", ins=ins, outs=outs)
    return _cached(("c43", "detector", kind, n, include_config), factory)


def _transceiver_bench():
    def factory():
        from luna.gateware.usb.usb3.link.ordered_sets import TSTransceiver
        dut = TSTransceiver()
        ins = {"valid": dut.sink.valid, "data": dut.sink.data, "ctrl": dut.sink.ctrl,
               "send_TSEQ": dut.send_tseq_burst, "send_TS1": dut.send_ts1_burst, "send_TS2": dut.send_ts2_burst,
               "hot": dut.request_hot_reset, "loop": dut.request_loopback, "noscr": dut.request_no_scrambling,
               "ready": dut.source.ready}
        outs = {"det_TSEQ": dut.tseq_detected, "det_TS1": dut.ts1_detected, "det_ITS1": dut.inverted_ts1_detected,
                "det_TS2": dut.ts2_detected, "rx_hot": dut.hot_reset_requested, "rx_loop": dut.loopback_requested,
                "rx_noscr": dut.no_scrambling_requested,
                "src_valid": dut.source.valid, "src_data": dut.source.data, "src_ctrl": dut.source.ctrl,
                "burst_complete": dut.burst_complete}
        return make_bench(dut, clocks={"ss": 8e-9}, main="ss", ins=ins, outs=outs)
    return _cached(("c43", "transceiver"), factory)


# ======================================================================================================
# emitter oracle (per-cycle monitor); also used per generator of the transceiver
# ======================================================================================================
class EmitterMonitor:
    def __init__(self, kind, n, check_count=True):
        self.kind, self.n = kind, n
        self.nwords = len(TS_SETS[kind]["words"])
        self.total = n * self.nwords
        self.check_count = check_count
        self.state = "idle"
        self.pos = 0
        self.req_age = None         # cycles since a start was seen while idle and not yet answered
        self.recent_start = 0       # start seen in one of the last 3 monitored cycles
        self.restart_ok = False
        self.mid_pulse = False
        self.bursts = 0
        self.prev_start = 0

    def step(self, start, valid, ready, data, ctrl, done, lf):
        """ one monitored cycle; returns None or (kind, message) """
        res = None
        if self.state == "after":
            if valid:
                if not self.restart_ok:
                    return ("extra_words", f"stream still valid after the {self.n}-set burst completed and no further start")
                self.state, self.pos, self.mid_pulse = "burst", 0, False
            else:
                self.state = "idle"
                self.req_age = None
        if self.state == "idle":
            if valid:
                if not self.recent_start:
                    return ("unrequested", "stream became valid without a start request in the preceding 3 cycles")
                self.state, self.pos, self.mid_pulse = "burst", 0, False
                self.req_age = None
            else:
                if done:
                    return ("done", "done high while the emitter is idle")
                if self.req_age is not None:
                    self.req_age += 1
                    if self.req_age > 3:
                        return ("no_burst", "start seen while idle, no burst began within 3 cycles")
                elif start:
                    self.req_age = 0
        if self.state == "burst":
            if not valid:
                return ("burst_interrupted", f"valid dropped after {self.pos} of {self.total} words of the burst "
                                             f"({self.pos // self.nwords} complete sets)")
            w = self.pos % self.nwords
            last = self.check_count and self.pos == self.total - 1
            if done and not last:
                return ("done", f"done high on word {w} of set {self.pos // self.nwords} (burst length {self.n})")
            if start and self.pos > 0 and not self.prev_start and not last:
                self.mid_pulse = True
            if ready:
                want_d, want_c = ts_word(self.kind, w, lf)
                if data != want_d or ctrl != want_c:
                    return ("symbols", f"word {w} of set {self.pos // self.nwords}: data={data:#010x} ctrl={ctrl:#x}, expected "
                                       f"data={want_d:#010x} ctrl={want_c:#x} (link functionality {lf:#x})")
                if last:
                    if not done:
                        return ("done", "done low while the last word of the burst is transferred")
                    self.bursts += 1
                    self.state = "after"
                    self.restart_ok = bool(start) or self.mid_pulse
                    self.pos = 0
                else:
                    self.pos += 1
                    if not self.check_count and self.pos == self.total:
                        self.pos = 0
        self.recent_start = ((self.recent_start << 1) | int(bool(start))) & 0b111
        self.prev_start = start
        return res


class _EmitterActor:
    """ Plays the burst ops: waits until the emitter is idle, sets the request bits, then drives start as a pulse of
    literal length, as a level until done, or as a level until a few cycles past done; extra one-cycle start pulses at
    literal offsets inside the burst. """

    def __init__(self, scn, viol, probes):
        cfg = scn["config"]
        self.cfg, self.ops = cfg, scn["ops"]
        self.viol, self.probes = viol, probes
        self.mon = EmitterMonitor(cfg["kind"], cfg["n"])
        self.ready_pat = cfg["ready"]
        self.i = 0
        self.phase = "idle_before"
        self.count = 0              # cycles in the current phase
        self.lf = 0
        self.cur = None
        self.last_valid = 0
        self.was_valid = False      # the burst of the current op has begun
        self.done_at = None         # phase-cycle of the first done of the current op
        self.burst_cycle = 0        # valid cycles of the current op
        self.level = 0
        self.tail = 0
        self.dead = False
        self.classes = set()

    def drive(self, t):
        ready = self.ready_pat[t % len(self.ready_pat)]
        start = 0
        if self.i < len(self.ops):
            op = self.ops[self.i]
            if self.phase == "idle_before":
                if self.count >= op["idle_before"] and not self.last_valid:
                    self.phase, self.count = "run", 0
                    self.lf = op["lf"]
                    self.was_valid, self.done_at, self.burst_cycle = False, None, 0
                    self.level = 1
            if self.phase == "run":
                hold = op["hold"]
                if hold == "done":
                    start = int(self.done_at is None)
                elif hold == "past_done":
                    start = int(self.done_at is None or self.count <= self.done_at + 3)
                else:
                    start = int(self.count < hold)
                if self.was_valid and self.burst_cycle in op["mid_pulses"]:
                    start = 1
            self.count += 1
        self.cur = (start, ready)
        d = {"start": start, "ready": ready}
        if self.cfg["include_config"]:
            d.update({"hot": int(bool(self.lf & LF_HOT_RESET)), "loop": int(bool(self.lf & LF_LOOPBACK)),
                      "noscr": int(bool(self.lf & LF_NO_SCRAMBLING))})
        return d

    def observe(self, t, o):
        if self.dead:
            return True
        start, ready = self.cur
        pr = self.probes
        before = self.mon.bursts
        was_mid = self.mon.mid_pulse
        r = self.mon.step(start, o["valid"], ready, o["data"], o["ctrl"], o["done"], self.lf)
        if r:
            self.viol.add("C43.emit", t, f"{self.cfg['kind']} emitter, burst length {self.cfg['n']}: {r[1]}",
                          dut="emitter", kind=r[0])
            self.dead = True
            return True
        if o["valid"] and not ready:
            pr["emit_ready_stall"] += 1
        if self.mon.mid_pulse and not was_mid:
            pr["emit_start_pulse_mid_burst"] += 1
        if self.mon.bursts > before:
            pr["emit_bursts"] += 1
            if self.lf:
                pr["emit_config_bits"] += 1
            if start:
                pr["emit_start_held_over_done"] += 1
            self.classes.add(("burst", bool(start), bool(self.lf), was_mid))
        self.last_valid = o["valid"]
        if self.phase == "run":
            if o["valid"]:
                self.was_valid = True
                self.burst_cycle += 1
            if o["done"] and self.done_at is None:
                self.done_at = self.count - 1
            if self.was_valid and not o["valid"]:
                self.i += 1                      # the emitter is idle again: next op
                self.phase, self.count = "idle_before", 0
            elif not self.was_valid and self.count > 8:
                raise RuntimeError("emitter never started (the monitor should have flagged this)")
        if self.i >= len(self.ops):
            self.tail += 1
            return self.tail > 6
        return False


def _run_emitter(scn):
    cfg = scn["config"]
    bench = _emitter_bench(cfg["kind"], cfg["n"], cfg["include_config"])
    viol = Violations()
    probes = {p: 0 for p in PROBES}
    actor = _EmitterActor(scn, viol, probes)
    slow = -(-len(cfg["ready"]) // max(1, sum(cfg["ready"])))            # ceil(1 / ready density)
    per_burst = cfg["n"] * len(TS_SETS[cfg["kind"]]["words"]) * slow + 40
    log = bench.run([actor], max_cycles=(len(scn["ops"]) * 3 + 2) * per_burst)
    if not viol and actor.i < len(scn["ops"]):
        raise RuntimeError("emitter script did not finish")
    sig = hashlib.blake2b(repr(("emitter", cfg["kind"], cfg["n"], cfg["ready"] == [1], sorted(map(repr, actor.classes)))).encode(),
                          digest_size=8).hexdigest()
    faults = {"ready_stall": probes["emit_ready_stall"], "spurious_strobe": probes["emit_start_pulse_mid_burst"]}
    return {"violations": viol.items, "cycles": log.cycles, "faults": faults, "probes": probes, "sig": sig,
            "nontrivial": probes["emit_bursts"] > 0, "digest": log.digest, "fsm": len(log.fsm_vectors)}


# ======================================================================================================
# detector oracle (history)
# ======================================================================================================
def check_detector(rows, detected, flags, kind, n, config):
    """
    rows: per-cycle (valid, data, ctrl); detected: per-cycle 0/1; flags: per-cycle (hot, loop, noscr) or None.
    Returns (violation or None, reports, events).  violation = (rule, cycle, message, shape)
    """
    events = parse_ts_stream(rows, kind, config)
    ncyc = len(rows)
    best = None
    for d in range(1, MAX_LAT + 1):
        model = TSDetectorModel(n)
        v = None
        group_lfs = []
        context = "clean"             # clean < isolated_garbage_only < garbage_adjacent_or_partial_set (whole prefix)
        for c in range(ncyc):
            rep = detected[c + d] if c + d < len(detected) else 0
            ev = events[c]
            if c < d and detected[c]:
                v = ("C43.no_false", c, "report before any ordered set could have been received", {"kind": "early"})
                break
            if ev is not None and ev[0] == "garbage":
                group_lfs = []
                isolated = (ev[1] == 0 and (c == 0 or not rows[c - 1][0]) and (c + 1 >= ncyc or not rows[c + 1][0]))
                if not isolated:
                    context = "garbage_adjacent_or_partial_set"
                elif context == "clean":
                    context = "isolated_garbage_only"
            if ev is not None and ev[0] == "set":
                group_lfs.append(ev[1])
            r = model.step(ev, rep)
            if r:
                shape = {"kind": r[0], "context": context}
                v = ("C43." + r[0], c + d if r[0] == "no_false" else c, f"{kind} detector x{n}: {r[1]} "
                     f"[set/word in cycle {c}, latency hypothesis {d}, context {context}]", shape)
                break
            if rep and ev is not None and ev[0] == "set":
                if config and flags is not None:
                    lfs = group_lfs[-n:]
                    if len(set(lfs)) == 1:
                        lf = lfs[0]
                        want = (int(bool(lf & LF_HOT_RESET)), int(bool(lf & LF_LOOPBACK)), int(bool(lf & LF_NO_SCRAMBLING)))
                        got = flags[c + d]
                        if got != want:
                            v = ("C43.config", c + d, f"{kind} detector x{n}: sets carried link functionality {lf:#04x}: expected "
                                 f"(hot_reset, loopback, no_scrambling)={want}, reported {got}", {"kind": "config"})
                            break
                group_lfs = []
        if v is None:
            return None, sum(detected), events
        # report the hypothesis under which most reports line up with completed sets
        aligned = sum(1 for c in range(ncyc) if events[c] and events[c][0] == "set" and c + d < len(detected) and detected[c + d])
        if best is None or aligned > best[0]:
            best = (aligned, v)
    return best[1], sum(detected), events


class _DetectorActor:
    def __init__(self, rows):
        self.rows = rows
        self.detected = []
        self.flags = []

    def drive(self, t):
        if t < len(self.rows):
            v, d, c = self.rows[t]
            return {"valid": v, "data": d, "ctrl": c}
        return {"valid": 0}

    def observe(self, t, o):
        self.detected.append(o["detected"])
        if "hot" in o:
            self.flags.append((o["hot"], o["loop"], o["noscr"]))
        return t >= len(self.rows) + MAX_LAT + 2


def _stream_probes(probes, stats, prefix="detect"):
    probes["detect_gap_inside_set"] += stats["gap_in"]
    probes["detect_gap_between_sets"] += stats["gap_between"]
    probes["detect_corrupted_set"] += stats["corrupt"]
    probes["detect_truncated_set"] += stats["trunc"]
    probes["detect_foreign_set"] += stats["foreign"]
    probes["detect_garbage_word"] += stats["garbage"]
    probes["detect_config_nonzero"] += stats["cfg"]


def _run_detector(scn):
    cfg = scn["config"]
    bench = _detector_bench(cfg["kind"], cfg["n"], cfg["include_config"])
    viol = Violations()
    probes = {p: 0 for p in PROBES}
    actor = _DetectorActor(scn["ops"])
    log = bench.run([actor], max_cycles=len(scn["ops"]) + MAX_LAT + 6)
    if log.cycles < len(scn["ops"]) + MAX_LAT:
        raise RuntimeError("detector run stopped early")
    v, reports, events = check_detector(scn["ops"], actor.detected, actor.flags if cfg["include_config"] else None,
                                        cfg["kind"], cfg["n"], cfg["include_config"])
    if v:
        viol.add(v[0], v[1], v[2], dut="detector", **v[3])
    nsets = sum(1 for e in events if e and e[0] == "set")
    probes["detect_reports"] += reports
    if nsets and not reports:
        probes["detect_short_run_no_report"] += 1
    _stream_probes(probes, cfg.get("stats", {k: 0 for k in ("gap_in", "gap_between", "corrupt", "trunc", "foreign", "garbage", "cfg")}))
    st = cfg.get("stats", {})
    sig = hashlib.blake2b(repr(("detector", cfg["kind"], cfg["n"], cfg["include_config"], min(reports, 3), min(nsets, 20),
                                sorted((k, min(val, 2)) for k, val in st.items()))).encode(), digest_size=8).hexdigest()
    faults = {"invalid_word_gap": st.get("gap_in", 0) + st.get("gap_between", 0), "corrupt_word": st.get("corrupt", 0),
              "truncate": st.get("trunc", 0), "other_data": st.get("foreign", 0) + st.get("garbage", 0)}
    return {"violations": viol.items, "cycles": log.cycles, "faults": faults, "probes": probes, "sig": sig,
            "nontrivial": nsets > 0, "digest": log.digest, "fsm": len(log.fsm_vectors)}


# ======================================================================================================
# transceiver
# ======================================================================================================
class _TransceiverActor:
    def __init__(self, scn, viol, probes):
        cfg = scn["config"]
        self.cfg = cfg
        self.rows = scn["ops"]
        self.sends = cfg["sends"]
        self.ready_pat = cfg["ready"]
        self.viol, self.probes = viol, probes
        self.det = {k: [] for k in ("TSEQ", "TS1", "ITS1", "TS2")}
        self.flags = []
        self.mon = {"TS1": EmitterMonitor("TS1", 16), "TS2": EmitterMonitor("TS2", 16),
                    "TSEQ": EmitterMonitor("TSEQ", 65536, check_count=False)}
        self.interrupted = {"TS1": False, "TS2": False, "TSEQ": False}
        self.i = 0
        self.sel = None
        self.lf = 0
        self.bursts_in_seg = 0
        self.cycles_in_seg = 0
        self.seg_started = False
        self.cur = None
        self.dead = False
        self.src_done = False
        self.classes = set()

    def _begin_segment(self):
        if self.i < len(self.sends):
            s = self.sends[self.i]
            self.sel, self.lf = s["kind"], s["lf"]
        else:
            self.sel = None
            self.src_done = True
        self.bursts_in_seg = 0
        self.cycles_in_seg = 0

    def drive(self, t):
        if not self.seg_started:
            self._begin_segment()
            self.seg_started = True
        ready = self.ready_pat[t % len(self.ready_pat)]
        d = {"send_TSEQ": int(self.sel == "TSEQ"), "send_TS1": int(self.sel == "TS1"), "send_TS2": int(self.sel == "TS2"),
             "ready": ready, "hot": int(bool(self.lf & LF_HOT_RESET)), "loop": int(bool(self.lf & LF_LOOPBACK)),
             "noscr": int(bool(self.lf & LF_NO_SCRAMBLING))}
        if t < len(self.rows):
            v, dat, c = self.rows[t]
            d.update({"valid": v, "data": dat, "ctrl": c})
        else:
            d["valid"] = 0
        self.cur = (self.sel, ready, self.lf)
        return d

    def observe(self, t, o):
        if self.dead:
            return True
        for k in self.det:
            self.det[k].append(o["det_" + k])
        self.flags.append((o["rx_hot"], o["rx_loop"], o["rx_noscr"]))
        sel, ready, lf = self.cur
        pr = self.probes
        if sel is None:
            if o["src_valid"]:
                self.viol.add("C43.emit", t, "transceiver source valid although no send_* level is high", dut="transceiver",
                              kind="unrequested")
                self.dead = True
                return True
        elif not self.interrupted[sel]:
            mon = self.mon[sel]
            r = mon.step(1, o["src_valid"], ready, o["src_data"], o["src_ctrl"], o["burst_complete"], lf if sel == "TS2" else 0)
            if r:
                self.viol.add("C43.emit", t, f"transceiver {sel} generator: {r[1]}", dut="transceiver", kind=r[0])
                self.dead = True
                return True
        if sel is not None:
            self.cycles_in_seg += 1
            if o["burst_complete"]:
                self.bursts_in_seg += 1
                self.classes.add(("burst", sel, bool(lf)))
            until = self.sends[self.i]["until"]
            switch = False
            if until == "burst" and self.bursts_in_seg >= 1:
                switch = True
            elif until == "two_bursts" and self.bursts_in_seg >= 2:
                switch = True
            elif isinstance(until, int) and self.cycles_in_seg >= until:
                switch = True
                if not o["burst_complete"]:
                    self.interrupted[sel] = True       # generator left mid-burst: its later output is not checked
                    pr["trx_switch_mid_burst"] += 1
            elif sel == "TSEQ" and self.cycles_in_seg >= 60:
                switch = True
                self.interrupted[sel] = True
                pr["trx_switch_mid_burst"] += 1
            if switch:
                if o["burst_complete"]:
                    pr["trx_switch_after_burst"] += 1
                self.i += 1
                self._begin_segment()
        else:
            self.cycles_in_seg += 1
            if not self.src_done and self.cycles_in_seg >= 3:
                self.i += 1
                self._begin_segment()
        return self.src_done and t >= len(self.rows) + MAX_LAT + 2


def _run_transceiver(scn):
    cfg = scn["config"]
    bench = _transceiver_bench()
    viol = Violations()
    probes = {p: 0 for p in PROBES}
    actor = _TransceiverActor(scn, viol, probes)
    slow = -(-len(cfg["ready"]) // max(1, sum(cfg["ready"])))
    budget = len(scn["ops"]) + len(cfg["sends"]) * (2 * 16 * 4 * slow + 120) + 40
    log = bench.run([actor], max_cycles=budget)
    if not viol and not actor.src_done:
        raise RuntimeError("transceiver script did not finish")
    rows = scn["ops"] + [[0, 0, 0]] * (log.cycles - len(scn["ops"]))
    if not viol:
        for kind, n, config in (("TS1", 8, False), ("ITS1", 8, False), ("TS2", 8, True), ("TSEQ", 32, False)):
            v, reports, _ = check_detector(rows, actor.det[kind], actor.flags if config else None, kind, n, config)
            probes["trx_detect_reports"] += reports
            if v:
                viol.add(v[0], v[1], v[2], dut="transceiver", **v[3])
                break
    _stream_probes(probes, cfg["stats"])
    sig = hashlib.blake2b(repr(("trx", sorted(map(repr, actor.classes)), min(probes["trx_detect_reports"], 4),
                                sorted((k, min(v, 2)) for k, v in cfg["stats"].items()))).encode(), digest_size=8).hexdigest()
    st = cfg["stats"]
    faults = {"invalid_word_gap": st["gap_in"] + st["gap_between"], "corrupt_word": st["corrupt"], "truncate": st["trunc"],
              "other_data": st["foreign"] + st["garbage"], "ready_stall": sum(1 for r in cfg["ready"] if not r),
              "select_change_mid_burst": probes["trx_switch_mid_burst"]}
    return {"violations": viol.items, "cycles": log.cycles, "faults": faults, "probes": probes, "sig": sig,
            "nontrivial": bool(actor.classes) or probes["trx_detect_reports"] > 0, "digest": log.digest,
            "fsm": len(log.fsm_vectors)}


def run(scn):
    dut = scn["config"]["dut"]
    if dut == "emitter":
        return _run_emitter(scn)
    if dut == "detector":
        return _run_detector(scn)
    return _run_transceiver(scn)


def shrink_candidates(scn):
    import copy
    cfg = scn["config"]
    if cfg["dut"] in ("detector", "transceiver"):
        rows = scn["ops"]
        # drop idle-gap cycles one at a time, then whole leading quarters (generic ddmin handles chunks)
        for i in range(len(rows) - 1, -1, -1):
            if not rows[i][0] and (rows[i][1] or rows[i][2]):
                cand = copy.deepcopy(scn)
                cand["ops"][i] = [0, 0, 0]
                yield cand
    if cfg["dut"] in ("emitter", "transceiver") and cfg["ready"] != [1]:
        cand = copy.deepcopy(scn)
        cand["config"]["ready"] = [1]
        yield cand
    if cfg["dut"] == "transceiver":
        for i in range(len(cfg["sends"])):
            cand = copy.deepcopy(scn)
            del cand["config"]["sends"][i]
            yield cand
