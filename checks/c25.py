"""
C25 -- the gateware full-speed PHY encodes and decodes USB line signalling.

DUT: the real GatewarePHY (TxPipeline, RxPipeline and their parts) on an I/O record with d_p, d_n, pullup, pulldown,
vbus_valid; two clock domains owned by the scheduler: usb_io (4x) and usb (1x), rising edges coincident, with the
alignment of the usb edge inside the PHY's free-running /4 bit-strobe counter chosen per run (k = 0..3).
(The simulated periods are 20 ns / 80 ns so that 4 * T(usb_io) == T(usb) exactly in the simulator's femtosecond grid; the
gateware has no notion of absolute time, only the 4:1 ratio matters.)

Actors: a UTMI user (holds each transmit byte until tx_ready at a usb edge; samples rx_* at usb edges) and the line
(models.fs_line: SYNC + NRZI + bit stuffing + EOP waveform sampled at the usb_io ticks with a per-packet sub-tick phase
and a clock-rate error of up to +-2500 ppm; optional bit-stuffing violation).

Oracle: independent encoder/decoder from USB 2.0 chapter 7.
"""

import hashlib
from collections import deque

from amaranth.hdl.rec import Record, DIR_FANIN, DIR_FANOUT

from dsim.kernel import make_bench, cached_bench, Violations
from models import fs_line
from models.fs_line import J, K, SE0

PROPERTY = "C25"
ENGINE = "gateware_phy"
CLOCK_HZ = 48e6
RULES = {
    "C25.tx_waveform": "driven D+/D- == SYNC | NRZI(stuffed bytes, LSB first) | SE0 SE0 J, 4 ticks per bit, then released",
    "C25.tx_accept_once": "every transmit byte is accepted exactly once via tx_ready (no stall beyond 40 usb cycles, no extra strobes)",
    "C25.rx_bytes": "a correctly encoded packet is delivered as exactly its bytes within one rx_active frame; nothing is delivered otherwise",
    "C25.rx_error": "a bit-stuffing violation is reported on rx_error (as seen at a usb clock edge) during that packet",
    "C25.never_drive_nondriving": "d_p.oe / d_n.oe stay low whenever op_mode == 1 (UTMI non-driving)",
    "C25.pullup_follows_term_select": "pullup.o equals term_select",
    "C25.pulldown_follows_request": "pulldown.o equals dp_pulldown | dm_pulldown",
}
PROBES = ["tx_packets", "tx_stuffed_bits", "tx_stuff_at_packet_end", "tx_first_byte_five_ones", "rx_packets", "rx_stuffed_bits",
          "rx_fast_line", "rx_slow_line", "rx_min_gap", "bitstuff_error_injected", "opmode1_with_tx_valid", "opmode2_with_tx_valid", "opmode1_selected_mid_packet",
          "pulldown_requested", "term_select_toggles", "rx_after_error_packet", "tx_first_byte_cyclic_six_ones"]
META = {
    "components_real": ["GatewarePHY", "TxPipeline", "TxShifter", "TxBitstuffer", "TxNRZIEncoder", "RxPipeline", "RxClockDataRecovery",
                        "RxNRZIDecoder", "RxPacketDetect", "RxBitstuffRemover", "RxShifter", "AsyncFIFOBuffered x2"],
    "components_stubbed": ["UTMI user (transmit source / receive sink)", "the USB line and the host (models.fs_line)"],
    "assumptions": ["usb and usb_io are phase related (coincident rising edges, ratio exactly 4)",
                    "UTMI inputs change only right after a usb edge; the transmitter holds tx_data until tx_ready and drops tx_valid in the "
                    "usb cycle after the last byte was taken",
                    "half duplex: the host never transmits while the device transmits; inter-packet idle >= 2 bit times",
                    "D+ and D- switch simultaneously (no skew); line rate within +-2500 ppm",
                    "whether the closing 1 of SYNC counts towards the six 1s is left open for transmit (both encodings accepted); "
                    "received packets never start with five 1s, so both readings coincide",
                    "operating modes change only while nothing is being transmitted"],
    "rule": "5-12 ops per run: transmit 1-40 bytes (runs of FFh, stuffing at byte/packet end), receive 1-24 bytes with per-packet phase "
            "and ppm, bitstuff_error, op_mode 1/2 with tx_valid, term_select / pull-down requests; usb edge alignment k per run",
}
TIERS = {"quick": {"runs": 2400, "wall": 75, "chunk": 8}, "thorough": {"runs": 6000, "wall": 900, "chunk": 8}}

VALID_PIDS = [0xD2, 0x5A, 0x1E, 0xC3, 0x4B, 0x69, 0xE1, 0x2D, 0xA5, 0x96, 0x3C, 0x78, 0xB4, 0xF0]


def _payload(rng, n):
    r = rng.random()
    if r < 0.25:
        return bytes([0xFF] * n)
    if r < 0.4:
        return bytes(rng.choice([0xFF, 0x7F, 0xFE, 0x3F, 0xFC, 0x00]) for _ in range(n))
    if r < 0.5:
        return bytes([0x00] * n)
    return bytes(rng.getrandbits(8) for _ in range(n))


def gen(rng, tier, index):
    fault_free = rng.random() < 0.15
    cfg = {"k": rng.randrange(4), "io": rng.choice(["full", "full", "full", "no_pulldown"]),
           "term_select": rng.getrandbits(1), "vbus": 1}
    ops = []
    nops = rng.randint(5, 9 if tier == "quick" else 12)
    for _ in range(nops):
        r = rng.random()
        if r < 0.35:
            n = rng.choice([1, 1, 2, 3, 4, 8, 9, 12, 24, 40] if tier != "quick" else [1, 1, 2, 3, 4, 8, 9, 12, 24])
            body = _payload(rng, n)
            if rng.random() < 0.6:
                body = bytes([rng.choice(VALID_PIDS)]) + body[1:]
            ops.append({"op": "tx", "data": body.hex(), "gap": rng.choice([2, 3, 5, 9])})
        elif r < 0.75:
            n = rng.choice([1, 1, 2, 3, 4, 8, 11, 12, 24])
            body = _payload(rng, n)
            first = rng.choice(VALID_PIDS) if rng.random() < 0.6 else body[0]
            if first & 0x1F == 0x1F:
                first &= 0xEF
            body = bytes([first]) + body[1:]
            op = {"op": "rx", "data": body.hex(), "gap_bits": rng.choice([2, 2, 3, 5, 8, 20]),
                  "phase_u": 0 if fault_free else rng.randrange(fs_line.UNIT),
                  "ppm": 0 if fault_free else rng.choice([0, 0, 500, -500, 2500, -2500, rng.randint(-2500, 2500)])}
            if not fault_free and rng.random() < 0.15:
                op["fault"] = {"kind": "bitstuff_error", "at": rng.randrange(8)}
                if not fs_line.stuff(fs_line.data_bits(body), 1)[1]:
                    body = body + b"\xff\xff"
                    op["data"] = body.hex()
            ops.append(op)
        elif r < 0.88 and not fault_free:
            sets = {}
            for nm in rng.sample(["term_select", "dp_pulldown", "dm_pulldown"], rng.randint(1, 2)):
                sets[nm] = rng.getrandbits(1)
            ops.append({"op": "ctrl", "set": sets})
        elif not fault_free:
            m = rng.choice([1, 1, 2])
            if rng.random() < 0.35:
                # non-driving mode selected while a packet that started in normal mode is still on its way out
                n = rng.randint(2, 6)
                ops.append({"op": "tx_switch", "op_mode": 1, "data": _payload(rng, n).hex(), "switch_after": rng.randint(0, n - 1),
                            "delay": rng.randint(0, 9), "hold": rng.randint(90, 140)})
            else:
                ops.append({"op": "tx_nd", "op_mode": m, "data": _payload(rng, rng.randint(1, 6)).hex(), "n": rng.randint(2, 40)})
        else:
            ops.append({"op": "idle", "n": rng.randint(1, 30)})
    return {"engine": ENGINE, "config": cfg, "ops": ops}


# --------------------------------------------------------------------------------------------------
T_IO = 20e-9


def _bench(k, io_kind):
    def factory():
        from luna.gateware.interface.gateware_phy import GatewarePHY
        layout = [("d_p", [("i", 1, DIR_FANIN), ("o", 1, DIR_FANOUT), ("oe", 1, DIR_FANOUT)]),
                  ("d_n", [("i", 1, DIR_FANIN), ("o", 1, DIR_FANOUT), ("oe", 1, DIR_FANOUT)]),
                  ("pullup", [("o", 1, DIR_FANOUT)]),
                  ("vbus_valid", [("i", 1, DIR_FANIN)])]
        if io_kind == "full":
            layout.append(("pulldown", [("o", 1, DIR_FANOUT)]))
        io = Record(layout)
        dut = GatewarePHY(io=io)
        ins = {"dp_i": io.d_p.i, "dn_i": io.d_n.i, "vbus_i": io.vbus_valid.i, "tx_data": dut.tx_data, "tx_valid": dut.tx_valid,
               "op_mode": dut.op_mode, "term_select": dut.term_select, "xcvr_select": dut.xcvr_select,
               "dp_pulldown": dut.dp_pulldown, "dm_pulldown": dut.dm_pulldown}
        outs = {"dp_o": io.d_p.o, "dn_o": io.d_n.o, "dp_oe": io.d_p.oe, "dn_oe": io.d_n.oe, "pullup": io.pullup.o,
                "tx_ready": dut.tx_ready, "rx_data": dut.rx_data, "rx_valid": dut.rx_valid, "rx_active": dut.rx_active,
                "rx_error": dut.rx_error}
        if io_kind == "full":
            outs["pulldown"] = io.pulldown.o
        # usb edge number k of every four usb_io edges
        clocks = {"usb_io": (T_IO, T_IO / 2), "usb": (4 * T_IO, T_IO / 2 + k * T_IO)}
        return make_bench(dut, clocks=clocks, main="usb_io", ins=ins, outs=outs)
    return cached_bench(("c25", k, io_kind), factory)


class _Actor:
    def __init__(self, scn):
        cfg = scn["config"]
        self.k = cfg["k"]
        self.full = cfg["io"] == "full"
        self.ops = scn["ops"]
        self.line = deque()
        self.pins = {"tx_valid": 0, "tx_data": 0, "op_mode": 0, "term_select": cfg["term_select"], "xcvr_select": 1,
                     "dp_pulldown": 0, "dm_pulldown": 0}
        self.pending = None
        self.t = 0
        self.samples = []            # per usb_io cycle: dp_o | dn_o<<1 | oe_p<<2 | oe_n<<3
        self.rows = []               # per usb cycle: (t, tx_ready, rx_valid, rx_data, rx_active, rx_error, pullup, pulldown)
        self.err_cycles = []         # usb_io cycles with rx_error high
        self.req_log = [(0, dict(self.pins))]
        self.records = []            # per op: dict(kind, t0, t1, ...)
        self.done = False
        self.tail = 24
        self.gen = self._script()
        self.pending = next(self.gen)

    # ---- kernel interface ----
    def drive(self, t):
        self.t = t
        dp, dn = self.line.popleft() if self.line else J
        d = {"dp_i": dp, "dn_i": dn}
        if self.pending is not None and t % 4 == self.k:
            d.update(self.pending)
            self.pending = None
        return d

    def observe(self, t, s):
        self.samples.append(s["dp_o"] | (s["dn_o"] << 1) | (s["dp_oe"] << 2) | (s["dn_oe"] << 3))
        if s["rx_error"]:
            self.err_cycles.append(t)
        if t % 4 == (self.k + 3) % 4:
            self.rows.append((t, s["tx_ready"], s["rx_valid"], s["rx_data"], s["rx_active"], s["rx_error"], s["pullup"],
                              s.get("pulldown", 0)))
            if not self.done:
                try:
                    self.pending = self.gen.send(s)
                except StopIteration:
                    self.done = True
            else:
                self.tail -= 1
                return self.tail <= 0
        return False

    # ---- the script: one yield per usb cycle; yields the UTMI pins for the next usb cycle ----
    def _set(self, **kw):
        self.pins.update(kw)
        self.req_log.append((self.t + 1, dict(self.pins)))
        return dict(self.pins)

    def _script(self):
        s = yield dict(self.pins)
        for _ in range(6):
            s = yield None
        for op in self.ops:
            kind = op["op"]
            rec = {"kind": kind, "t0": self.t + 1, "op": op}
            if kind == "idle":
                for _ in range(op["n"]):
                    s = yield None
            elif kind == "ctrl":
                s = yield self._set(**op["set"])
                s = yield None
            elif kind == "tx":
                data = bytes.fromhex(op["data"])
                i = 0
                waited = 0
                acc = []
                pins = self._set(tx_valid=1, tx_data=data[0])
                stalled = False
                while True:
                    s = yield pins
                    pins = None
                    if s["tx_ready"] and self.pins["tx_valid"]:
                        acc.append(self.t)
                        i += 1
                        waited = 0
                        if i >= len(data):
                            break
                        pins = self._set(tx_data=data[i])
                    else:
                        waited += 1
                        if waited > 40:
                            stalled = True
                            break
                rec.update({"acc": acc, "stalled": stalled, "t_last": self.t})
                s = yield self._set(tx_valid=0, tx_data=0)
                # wait for the end of the packet on the wire (output enable released), then the gap
                extra = 0
                for _ in range(40):
                    s = yield None
                    if s["tx_ready"]:
                        extra += 1
                    if not (s["dp_oe"] or s["dn_oe"]) and self.t > rec["t_last"] + 12:
                        break
                rec["extra_ready"] = extra
                for _ in range(op.get("gap", 2)):
                    s = yield None
            elif kind == "tx_switch":
                data = bytes.fromhex(op["data"])
                i = waited = since = 0
                switched = False
                pins = self._set(tx_valid=1, tx_data=data[0])
                while True:
                    s = yield pins
                    pins = None
                    if not switched and i >= op["switch_after"]:
                        if since >= op["delay"]:
                            pins = self._set(op_mode=op["op_mode"])
                            switched = True
                            rec["t_mode"] = self.t + 12          # three usb cycles of slack, as for tx_nd
                        since += 1
                    if s["tx_ready"] and self.pins["tx_valid"]:
                        i += 1
                        waited = 0
                        if i >= len(data):
                            break
                        pins = dict(pins or {})
                        pins.update(self._set(tx_data=data[i]))
                    else:
                        waited += 1
                        if waited > 40:
                            break
                if not switched:
                    pins = self._set(op_mode=op["op_mode"])
                    rec["t_mode"] = self.t + 12
                    s = yield pins
                s = yield self._set(tx_valid=0, tx_data=0)
                for _ in range(op["hold"]):
                    s = yield None
                rec["t_mode_end"] = self.t
                s = yield self._set(op_mode=0)
                for _ in range(8):
                    s = yield None
            elif kind == "tx_nd":
                data = bytes.fromhex(op["data"])
                s = yield self._set(op_mode=op["op_mode"])
                s = yield None
                s = yield None
                rec["t_mode"] = self.t
                for j in range(op["n"]):
                    s = yield self._set(tx_valid=1, tx_data=data[j % len(data)])
                s = yield self._set(tx_valid=0, tx_data=0)
                for _ in range(4):
                    s = yield None
                rec["t_mode_end"] = self.t
                s = yield self._set(op_mode=0)
                for _ in range(4):
                    s = yield None
            elif kind == "rx":
                data = bytes.fromhex(op["data"])
                f = op.get("fault")
                states, nstuffed = fs_line.packet_states(data, count_sync_one=True,
                                                         break_stuff_at=f["at"] if f else None)
                wave = fs_line.sample_waveform(states, op.get("phase_u", 0), op.get("ppm", 0))
                lead = [J] * (4 * op.get("gap_bits", 2))
                rec["c_start"] = self.t + 1 + len(self.line) + len(lead)
                self.line.extend(lead + wave)
                rec["c_end"] = self.t + 1 + len(self.line)
                rec["nstuffed"] = nstuffed
                while self.line:
                    s = yield None
                for _ in range(14):
                    s = yield None
            rec["t1"] = self.t
            self.records.append(rec)
        for _ in range(4):
            s = yield None


def _oe_intervals(samples):
    out = []
    start = None
    for t, v in enumerate(samples):
        oe = v >> 2
        if oe and start is None:
            start = t
        elif not oe and start is not None:
            out.append((start, t))
            start = None
    if start is not None:
        out.append((start, len(samples)))
    return out


def _fmt(states):
    return "".join("J" if s == J else "K" if s == K else "0" if s == SE0 else "1" for s in states)


def run(scn):
    cfg = scn["config"]
    bench = _bench(cfg["k"], cfg["io"])
    actor = _Actor(scn)
    cap = 400
    for op in scn["ops"]:
        nbytes = len(op.get("data", "")) // 2
        cap += 4 * (nbytes * 10 + 200 + op.get("n", 0) + op.get("gap_bits", 0) + op.get("gap", 0))
    log = bench.run([actor], cap, init={"dp_i": 1, "dn_i": 0, "vbus_i": cfg.get("vbus", 1), "xcvr_select": 1,
                                        "term_select": cfg["term_select"]})
    if not actor.done:
        raise RuntimeError(f"script did not finish within {cap} usb_io cycles")
    viol = Violations()
    probes = {p: 0 for p in PROBES}
    samples = actor.samples
    rows = actor.rows
    recs = actor.records
    oe_iv = _oe_intervals(samples)
    used_iv = set()

    def req_at(t):
        cur = actor.req_log[0][1]
        for tc, p in actor.req_log:
            if tc <= t:
                cur = p
        return cur

    # ---- C25.never_drive_nondriving / tx_nd windows -------------------------------------------------------------
    for r in recs:
        if r["kind"] not in ("tx_nd", "tx_switch"):
            continue
        m = r["op"]["op_mode"]
        if r["kind"] == "tx_switch":
            probes["opmode1_selected_mid_packet"] += 1
            for i, (a, b) in enumerate(oe_iv):
                if a < r["t_mode_end"] and b > r["t0"]:
                    used_iv.add(i)           # the part of the packet sent before the switch is not judged
        else:
            probes["opmode1_with_tx_valid" if m == 1 else "opmode2_with_tx_valid"] += 1
        for i, (a, b) in enumerate(oe_iv):
            if a < r["t_mode_end"] and b > r["t_mode"]:
                used_iv.add(i)
                if m == 1:
                    viol.add("C25.never_drive_nondriving", max(a, r["t_mode"]), f"d_p.oe/d_n.oe high during usb_io cycles [{a},{b}) while "
                             f"op_mode == 1 (non-driving) has been selected since cycle {r['t_mode'] - 8} and tx_valid is asserted",
                             op_mode=1)
                    break

    # ---- C25.tx_waveform / C25.tx_accept_once ----------------------------------------------------------------------
    for r in recs:
        if r["kind"] != "tx":
            continue
        data = bytes.fromhex(r["op"]["data"])
        probes["tx_packets"] += 1
        if data[0] & 0x1F == 0x1F:
            probes["tx_first_byte_five_ones"] += 1
        fb = [(data[0] >> (j % 8)) & 1 for j in range(16)]
        cyc6 = any(all(fb[j:j + 6]) for j in range(8))          # the first byte, repeated, contains six 1s in a row
        if cyc6:
            probes["tx_first_byte_cyclic_six_ones"] += 1
        shape = {"first_byte_cyclic_six_ones": cyc6}
        if r["stalled"]:
            viol.add("C25.tx_accept_once", r["t_last"], f"tx_ready did not come for byte {len(r['acc'])} of {data.hex()} within 40 usb "
                     f"cycles", kind="stalled", **shape)
            continue
        if r["extra_ready"]:
            viol.add("C25.tx_accept_once", r["t_last"], f"{r['extra_ready']} tx_ready strobes after the last byte of {data.hex()} was taken",
                     kind="extra_strobe", **shape)
        mine = [(i, iv) for i, iv in enumerate(oe_iv) if iv[0] >= r["t0"] and iv[0] <= r["t1"] + 4 and i not in used_iv]
        if len(mine) != 1:
            viol.add("C25.tx_waveform", r["t0"], f"{len(mine)} driven intervals on D+/D- for one transmit request ({data.hex()}); expected 1",
                     kind="framing", **shape)
            for i, _ in mine:
                used_iv.add(i)
            continue
        i, (a, b) = mine[0]
        used_iv.add(i)
        seg = samples[a:b]
        if any((v >> 2) not in (0, 3) for v in seg):
            viol.add("C25.tx_waveform", a, "d_p.oe and d_n.oe differ while transmitting", kind="oe_mismatch", **shape)
            continue
        states, ok_timing = fs_line.decode_driven([(v & 1, (v >> 1) & 1) for v in seg])
        exp_a, ns_a = fs_line.packet_states(data, count_sync_one=False)
        exp_b, ns_b = fs_line.packet_states(data, count_sync_one=True)
        probes["tx_stuffed_bits"] += ns_a
        bits = fs_line.data_bits(data)
        if len(bits) >= 6 and all(bits[-6:]) and ns_a:
            probes["tx_stuff_at_packet_end"] += 1
        if states != exp_a and states != exp_b:
            got = fs_line.states_to_bytes(states)
            k = next((j for j, (x, y) in enumerate(zip(states, exp_a)) if x != y), min(len(states), len(exp_a)))
            viol.add("C25.tx_waveform", a + 4 * k, f"transmit {data.hex()}: line states {_fmt(states)} differ from the expected "
                     f"{_fmt(exp_a)} at bit {k} (decodes to {got.hex()})", kind="content",
                     where="eop" if k >= len(exp_a) - 3 else "sync" if k < 8 else "data", **shape)
        elif not ok_timing:
            viol.add("C25.tx_waveform", a, f"transmit {data.hex()}: a line state lasted a non-multiple of 4 usb_io cycles", kind="bit_timing", **shape)
    for i, (a, b) in enumerate(oe_iv):
        if i not in used_iv and not viol:
            viol.add("C25.tx_waveform", a, f"D+/D- driven during usb_io cycles [{a},{b}) without a transmit request", kind="unsolicited",
                     first_byte_cyclic_six_ones=False)

    # ---- C25.rx_bytes / C25.rx_error -------------------------------------------------------------------------------------
    # rx_active frames as seen at usb edges
    frames = []
    cur = None
    for (t, trdy, rv, rd, ra, re, pu, pd) in rows:
        if ra and cur is None:
            cur = {"t0": t, "bytes": [], "err": False}
        if cur is not None:
            if rv:
                cur["bytes"].append(rd)
            if re:
                cur["err"] = True
            if not ra:
                cur["t1"] = t
                frames.append(cur)
                cur = None
        elif rv:
            frames.append({"t0": t, "t1": t, "bytes": [rd], "err": False, "no_active": True})
    if cur is not None:
        cur["t1"] = rows[-1][0]
        frames.append(cur)
    used_frames = set()
    prev_err = False
    for r in recs:
        if r["kind"] != "rx":
            continue
        op = r["op"]
        data = bytes.fromhex(op["data"])
        probes["rx_packets"] += 1
        probes["rx_stuffed_bits"] += r["nstuffed"]
        if op.get("ppm", 0) > 0:
            probes["rx_slow_line"] += 1
        if op.get("ppm", 0) < 0:
            probes["rx_fast_line"] += 1
        if op.get("gap_bits", 2) == 2:
            probes["rx_min_gap"] += 1
        if prev_err:
            probes["rx_after_error_packet"] += 1
        lo, hi = r["c_start"] - 4, r["t1"] + 8
        mine = [(i, f) for i, f in enumerate(frames) if lo <= f["t0"] <= hi]
        for i, _ in mine:
            used_frames.add(i)
        shape = {"ppm_sign": (op.get("ppm", 0) > 0) - (op.get("ppm", 0) < 0),
                 "after_error_packet": prev_err, "stuffed": r["nstuffed"] > 0}
        if op.get("fault"):
            probes["bitstuff_error_injected"] += 1
            prev_err = True
            seen_io = [c for c in actor.err_cycles if lo <= c <= hi]
            seen_usb = any(row[5] for row in rows if lo <= row[0] <= hi)
            if not seen_usb:
                viol.add("C25.rx_error", r["c_end"], f"packet {data.hex()} with a bit-stuffing violation (7 ones) played during usb_io cycles "
                         f"[{r['c_start']},{r['c_end']}): rx_error was never high at a usb clock edge; in the usb_io domain it pulsed "
                         f"at cycles {seen_io[:4]}", seen_in_usb_io_domain=bool(seen_io))
            continue
        prev_err = False
        got = [bytes(f["bytes"]) for _, f in mine]
        if len(mine) != 1 or mine[0][1].get("no_active"):
            viol.add("C25.rx_bytes", r["c_end"], f"packet {data.hex()} (phase {op.get('phase_u', 0)}e-6 tick, {op.get('ppm', 0)} ppm) played during "
                     f"[{r['c_start']},{r['c_end']}): {len(mine)} rx_active frames {[g.hex() for g in got]} (expected exactly one)",
                     kind="framing", frames=len(mine), **shape)
        elif got[0] != data:
            viol.add("C25.rx_bytes", mine[0][1]["t0"], f"packet {data.hex()} (phase {op.get('phase_u', 0)}e-6 tick, {op.get('ppm', 0)} ppm) "
                     f"delivered as {got[0].hex()}", kind="content", frames=1, **shape)
        elif mine[0][1]["err"]:
            # rx_error during a correctly encoded packet: not asserted (the statement only says violations are reported)
            pass
    for i, f in enumerate(frames):
        if i not in used_frames and not viol:
            viol.add("C25.rx_bytes", f["t0"], f"rx_active/rx_valid at cycle {f['t0']} (bytes {bytes(f['bytes']).hex()}) although no packet was "
                     f"on the line", kind="spurious", frames=1, ppm_sign=0, after_error_packet=False, stuffed=False)

    # ---- pull-up / pull-down -----------------------------------------------------------------------------------------------
    last_term = None
    for (t, trdy, rv, rd, ra, re, pu, pd) in rows:
        if t < 12:
            continue
        want_now, want_before = req_at(t), req_at(t - 8)
        ok_pu = pu in (want_now["term_select"], want_before["term_select"])
        if not ok_pu and not any(v["rule"] == "C25.pullup_follows_term_select" for v in viol.items):
            viol.add("C25.pullup_follows_term_select", t, f"pullup.o={pu} while term_select={want_now['term_select']} "
                     f"(dp_pulldown={want_now['dp_pulldown']}, dm_pulldown={want_now['dm_pulldown']}, io record: {cfg['io']})",
                     io=cfg["io"], pullup=pu)
        if actor.full:
            w1 = want_now["dp_pulldown"] | want_now["dm_pulldown"]
            w0 = want_before["dp_pulldown"] | want_before["dm_pulldown"]
            if pd not in (w1, w0) and not any(v["rule"] == "C25.pulldown_follows_request" for v in viol.items):
                viol.add("C25.pulldown_follows_request", t, f"pulldown.o={pd} while dp_pulldown|dm_pulldown={w1}", pulldown=pd)
        if last_term is not None and want_now["term_select"] != last_term:
            probes["term_select_toggles"] += 1
        last_term = want_now["term_select"]
    probes["pulldown_requested"] = sum(1 for t, p in actor.req_log if p["dp_pulldown"] | p["dm_pulldown"])

    faults = {}
    for k_, name in (("bitstuff_error_injected", "bitstuff_error"), ("opmode1_with_tx_valid", "op_mode_nondriving_with_tx_valid"),
                     ("opmode2_with_tx_valid", "op_mode_2_with_tx_valid"), ("rx_fast_line", "clock_drift_fast"),
                     ("rx_slow_line", "clock_drift_slow"), ("rx_min_gap", "min_interpacket_gap"), ("pulldown_requested", "pulldown_request")):
        if probes[k_]:
            faults[name] = probes[k_]
    nz_phase = sum(1 for op in scn["ops"] if op["op"] == "rx" and op.get("phase_u"))
    if nz_phase:
        faults["sample_phase"] = nz_phase
    kinds = sorted(set(op["op"] for op in scn["ops"]))
    sig = hashlib.blake2b(repr((cfg["k"], cfg["io"], kinds, sorted(log.fsm_vectors), sorted(faults))).encode(), digest_size=8).hexdigest()
    return {"violations": viol.items, "cycles": log.cycles, "faults": faults, "probes": probes, "sig": sig,
            "nontrivial": bool(probes["tx_packets"] or probes["rx_packets"]), "digest": log.digest, "fsm": len(log.fsm_vectors)}
