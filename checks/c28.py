"""
C28 -- OUT boundary detection marks first/last bytes and delays completion.

DUT: luna.gateware.usb.stream.USBOutStreamBoundaryDetector (real, standalone).
Stimulus: a literal unprocessed-stream waveform (valid ~ rx_active, next ~ rx_valid, payload) of packets with 1..40 bytes,
byte gaps, back-to-back packets, plus complete_in / invalid_in strobes placed literally: at a byte, between bytes, in the
cycle `valid` falls (where the real receiver raises packet_complete / crc_mismatch), or outside packets.
Oracle (history): bytes conserved in order; first/last flags; every strobe seen during a packet is reported exactly once
after that packet's last output byte and before the next packet's first output byte.
"""

import hashlib

from dsim.kernel import make_bench, cached_bench, Violations
from models.usb2_wire import render_rx, WaveActor, rand_timing, gen_idle_data

PROPERTY = "C28"
ENGINE = "usb2_wire"
CLOCK_HZ = 60e6
RULES = {
    "C28.same_bytes": "the bytes transferred on processed_stream (valid & next) are the bytes transferred on unprocessed_stream, in "
                      "order, all of them by the end of the run",
    "C28.first_last": "`first` accompanies exactly the first byte and `last` exactly the final byte of every packet",
    "C28.strobes_after_last_byte": "a complete/invalid strobe seen during a packet (after its first byte, up to and including the cycle "
                                   "valid falls) is reported exactly once, after that packet's last output byte and before the next packet's "
                                   "first output byte; nothing is reported that was not seen",
}
PROBES = ["one_byte_packet", "long_packet", "strobe_in_valid_fall_cycle", "strobe_mid_packet", "strobe_at_last_byte", "both_strobes_same_packet",
          "repeated_strobe_same_packet", "strobe_outside_packet", "strobe_in_first_byte_cycle", "gap_1_cycle_between_packets",
          "packet_with_byte_gaps", "packet_without_strobe", "empty_valid_window"]
META = {
    "components_real": ["luna.gateware.usb.stream.USBOutStreamBoundaryDetector"],
    "components_stubbed": ["USBDataPacketReceiver side: literal unprocessed stream + strobes"],
    "assumptions": ["unprocessed stream is UTMI-like (USBOutStreamInterface docstring): next only while valid; valid rises >= 1 cycle before "
                    "the first byte and is low >= 1 cycle between packets",
                    "'during a packet' = after the cycle of its first byte, up to and including the first cycle with valid low (where the "
                    "real receiver raises packet_complete / crc_mismatch); strobes elsewhere (before/at the first byte, between packets) may "
                    "be reported with the neighbouring packet or dropped, but never more than once",
                    "packets have at least one byte (the statement quantifies over lengths 1..N)"],
    "rule": "4-20 packets per run: 1-40 bytes (1/2/3 over-represented), byte period/gap patterns, pre/post, idle 1-9; 0-3 strobes per "
            "packet at literal positions",
}
TIERS = {"quick": {"runs": 32000, "wall": 70}, "thorough": {"runs": 250000, "wall": 900}}


def gen(rng, tier, index):
    ops = []
    slow = rng.random() < 0.08
    no_strobes = rng.random() < 0.1
    outside = rng.random() < 0.35          # this run also places strobes outside the 'during a packet' window
    for _ in range(rng.randint(4, 14 if tier == "quick" else 20)):
        q = rng.random()
        n = rng.choice([1, 1, 2, 3]) if q < 0.4 else rng.randint(4, 16) if q < 0.9 else rng.randint(17, 40)
        op = {"op": "pkt", "bytes": bytes(rng.getrandbits(8) for _ in range(n)).hex(), "idle": rng.choice([1, 1, 2, 3, 4, 9])}
        op.update(rand_timing(rng, slow))
        if rng.random() < 0.04:
            op["abort_at"] = 0                # valid window without any byte
        strobes = []
        if not no_strobes:
            r = rng.random()
            if r < 0.55:
                # what the real receiver does: one strobe in the cycle valid falls
                strobes.append(["end", 0, rng.choice(["complete", "complete", "invalid"])])
            elif r < 0.85:
                for _ in range(rng.choice([1, 1, 2, 3])):
                    where = rng.choice(["byte", "byte", "after_byte", "end"])
                    if where == "end":
                        strobes.append(["end", 0, rng.choice(["complete", "invalid", "both"])])
                    else:
                        strobes.append([where, rng.randrange(n), rng.choice(["complete", "invalid", "both"])])
            if outside and rng.random() < 0.4:
                strobes.append([rng.choice(["end", "end", "pre"]), rng.choice([1, 2, 3]), rng.choice(["complete", "invalid"])])
        op["strobes"] = strobes
        ops.append(op)
    # the payload lines carry junk whenever `next` is low (they are only defined in a cycle that transfers a byte)
    return {"engine": ENGINE, "config": {"idle_data": gen_idle_data(rng)}, "ops": ops}


def _bench():
    def factory():
        from luna.gateware.usb.stream import USBOutStreamBoundaryDetector
        dut = USBOutStreamBoundaryDetector()
        i, o = dut.unprocessed_stream, dut.processed_stream
        ins = {"in_valid": i.valid, "in_next": i.next, "in_payload": i.payload, "complete_in": dut.complete_in, "invalid_in": dut.invalid_in}
        outs = {"out_valid": o.valid, "out_next": o.next, "out_payload": o.payload, "first": dut.first, "last": dut.last,
                "complete_out": dut.complete_out, "invalid_out": dut.invalid_out}
        return make_bench(dut, clocks={"usb": 1 / 60e6}, main="usb", ins=ins, outs=outs)
    return cached_bench(("c28",), factory)


def run(scn):
    ops = scn["ops"]
    bench = _bench()
    wave, packets = render_rx(ops, side={"complete_in": 0, "invalid_in": 0}, names=("in_valid", "in_next", "in_payload"), tail=14,
                              idle_data=scn["config"].get("idle_data"))
    probes = {p: 0 for p in PROBES}
    # ---- overlay the literal strobes ----
    for p in packets:
        op = ops[p["op"]]
        bc = p["byte_cycles"]
        for where, arg, kind in op.get("strobes", []):
            if where == "end":
                t = p["t_end"] + arg
            elif where == "pre":
                t = p["t_start"] - arg
            elif not bc:
                continue
            elif where == "byte":
                t = bc[min(arg, len(bc) - 1)]
            else:   # the cycle after a byte (a byte gap if there is one, else the next byte / the post / end cycle)
                t = bc[min(arg, len(bc) - 1)] + 1
            if 0 <= t < len(wave):
                if kind in ("complete", "both"):
                    wave[t]["complete_in"] = 1
                if kind in ("invalid", "both"):
                    wave[t]["invalid_in"] = 1
    actor = WaveActor(wave)
    log = bench.run([actor], max_cycles=len(wave) + 4)
    S = actor.samples
    if len(S) < len(wave):
        raise RuntimeError("waveform was not played completely")
    viol = Violations()
    classes = set()

    real = [p for p in packets if p["byte_cycles"]]
    probes["empty_valid_window"] += len(packets) - len(real)
    # ---- input side ----
    in_bytes = [(t, wave[t]["in_payload"]) for t in range(len(wave)) if wave[t]["in_valid"] and wave[t]["in_next"]]
    exp = []
    for k, p in enumerate(real):
        n = len(p["byte_cycles"])
        for j, t in enumerate(p["byte_cycles"]):
            exp.append((p["sent"][j], int(j == 0), int(j == n - 1), k))
    assert [b for _, b in in_bytes] == [e[0] for e in exp]
    # ---- output side ----
    out = [(t, o["out_payload"], o["first"], o["last"]) for t, o in enumerate(S) if o["out_valid"] and o["out_next"]]
    first_cycle = {}
    last_cycle = {}
    for i, (t, b, f, l) in enumerate(out):
        if i >= len(exp):
            viol.add("C28.same_bytes", t, f"extra byte {b:#04x} on the processed stream after all {len(exp)} input bytes", problem="extra")
            break
        eb, ef, el, k = exp[i]
        plen = len(real[k]["byte_cycles"])
        if b != eb:
            viol.add("C28.same_bytes", t, f"output byte {i} is {b:#04x}, input byte {i} was {eb:#04x} (packet {k}, {plen} bytes)",
                     problem="wrong", packet_len=min(plen, 3))
            break
        if (f, l) != (ef, el):
            viol.add("C28.first_last", t, f"byte {i} ({b:#04x}; packet {k} of {plen} bytes, position {i - sum(len(real[q]['byte_cycles']) for q in range(k))}): "
                     f"first={f} last={l}, expected first={ef} last={el}", problem=("first" if f != ef else "last"), packet_len=min(plen, 3))
            break
        if ef:
            first_cycle[k] = t
        if el:
            last_cycle[k] = t
    if not viol and len(out) < len(exp):
        k = exp[len(out)][3]
        viol.add("C28.same_bytes", len(S) - 1, f"only {len(out)} of {len(exp)} bytes came out by the end of the run (first missing: "
                 f"{exp[len(out)][0]:#04x}, packet {k} of {len(real[k]['byte_cycles'])} bytes)", problem="missing",
                 packet_len=min(len(real[k]["byte_cycles"]), 3))

    # ---- strobes ----
    if not viol:
        for kind in ("complete", "invalid"):
            ins_t = [t for t in range(len(wave)) if wave[t][kind + "_in"]]
            outs_t = [t for t, o in enumerate(S) if o[kind + "_out"]]
            oi = 0
            # reports before anything was output can only stem from strobes outside packets (tolerated, but they need a cause)
            F0 = first_cycle.get(0, len(S))
            while oi < len(outs_t) and outs_t[oi] < F0:
                if not any(t < outs_t[oi] for t in ins_t):
                    viol.add("C28.strobes_after_last_byte", outs_t[oi], f"{kind}_out in cycle {outs_t[oi]} before any {kind}_in was seen",
                             problem="spurious", kind=kind)
                oi += 1
            for k, p in enumerate(real):
                f_k, e_k = p["byte_cycles"][0], p["t_end"]
                e_prev = real[k - 1]["t_end"] if k else -1
                L = last_cycle[k]
                F_next = first_cycle.get(k + 1, len(S))
                # anything reported before this packet's last byte (and after the previous window) is misplaced
                while oi < len(outs_t) and outs_t[oi] <= L:
                    viol.add("C28.strobes_after_last_byte", outs_t[oi], f"{kind}_out in cycle {outs_t[oi]}, while packet {k} (last byte output in cycle {L}) "
                             "has not been output completely", problem="early", kind=kind)
                    oi += 1
                got = []
                while oi < len(outs_t) and outs_t[oi] < F_next:
                    got.append(outs_t[oi])
                    oi += 1
                must = [t for t in ins_t if f_k < t <= e_k]
                if len(got) > 1:
                    viol.add("C28.strobes_after_last_byte", got[1], f"{kind}_out raised {len(got)} times ({got}) after packet {k}", problem="repeated", kind=kind)
                elif must and not got:
                    pos = "valid_fall_cycle" if must[0] == e_k else "mid_packet"
                    viol.add("C28.strobes_after_last_byte", L, f"{kind}_in seen in cycle(s) {must} during packet {k} (first byte cycle {f_k}, valid fell in "
                             f"cycle {e_k}, last byte output in cycle {L}) was never reported before the next packet's first output byte",
                             problem="lost", kind=kind, where=pos)
                elif got and not must:
                    may = [t for t in ins_t if e_prev < t < got[0]]
                    if not may:
                        viol.add("C28.strobes_after_last_byte", got[0], f"{kind}_out in cycle {got[0]} after packet {k} although no {kind}_in was seen "
                                 f"since the previous packet ended", problem="spurious", kind=kind)
                # probes
                if must:
                    if e_k in must:
                        probes["strobe_in_valid_fall_cycle"] += 1
                        classes.add("fall")
                    if any(t < p["byte_cycles"][-1] for t in must):
                        probes["strobe_mid_packet"] += 1
                        classes.add("mid")
                    if p["byte_cycles"][-1] in must:
                        probes["strobe_at_last_byte"] += 1
                        classes.add("lastbyte")
                    if len(must) > 1:
                        probes["repeated_strobe_same_packet"] += 1
                        classes.add("repeat")
                if f_k in ins_t:
                    probes["strobe_in_first_byte_cycle"] += 1
                if viol:
                    break
            if viol:
                break
            probes["strobe_outside_packet"] += sum(1 for t in ins_t if not any(p["byte_cycles"][0] < t <= p["t_end"] for p in real))
    for k, p in enumerate(real):
        n = len(p["byte_cycles"])
        if n == 1:
            probes["one_byte_packet"] += 1
        if n >= 17:
            probes["long_packet"] += 1
        bc = p["byte_cycles"]
        if any(b - a > 1 for a, b in zip(bc, bc[1:])):
            probes["packet_with_byte_gaps"] += 1
        both = [any(wave[t][kd + "_in"] for t in range(bc[0] + 1, p["t_end"] + 1)) for kd in ("complete", "invalid")]
        if all(both):
            probes["both_strobes_same_packet"] += 1
            classes.add("both")
        if not any(both):
            probes["packet_without_strobe"] += 1
        if k + 1 < len(real) and real[k + 1]["t_start"] == p["t_end"] + 1:
            probes["gap_1_cycle_between_packets"] += 1
        classes.add((min(n, 3), tuple(both), any(b - a > 1 for a, b in zip(bc, bc[1:])), op_idle_1(k, real)))
    faults = {"rxvalid_gap": probes["packet_with_byte_gaps"], "strobe_mid_packet": probes["strobe_mid_packet"],
              "strobe_outside_packet": probes["strobe_outside_packet"], "back_to_back": probes["gap_1_cycle_between_packets"]}
    sig = hashlib.blake2b(repr((sorted(log.fsm_vectors), sorted(map(repr, classes)))).encode(), digest_size=8).hexdigest()
    return {"violations": viol.items, "cycles": log.cycles, "faults": faults, "probes": probes, "sig": sig,
            "nontrivial": probes["strobe_in_valid_fall_cycle"] + probes["strobe_mid_packet"] > 0, "digest": log.digest,
            "fsm": len(log.fsm_vectors)}


def op_idle_1(k, real):
    return k + 1 < len(real) and real[k + 1]["t_start"] == real[k]["t_end"] + 1


def shrink_candidates(scn):
    import copy
    for i, op in enumerate(scn["ops"]):
        if op.get("period", 1) != 1 or op.get("gaps") or op.get("pre", 1) != 1 or op.get("post", 0):
            cand = copy.deepcopy(scn)
            cand["ops"][i].update({"period": 1, "gaps": None, "pre": 1, "post": 0})
            yield cand
        for j in range(len(op.get("strobes", []))):
            cand = copy.deepcopy(scn)
            del cand["ops"][i]["strobes"][j]
            yield cand
        if len(op["bytes"]) > 4:
            cand = copy.deepcopy(scn)
            cand["ops"][i]["bytes"] = op["bytes"][:4]
            yield cand
