"""
C22 -- ULPI receive translation yields exactly the PHY's packet bytes.

DUT: the real UTMITranslator (register window, control translator, RxEvent decoder, transmit translator) on a ULPI
record, with and without the `rst` member.  The PHY side is models.ulpi_phy.ULPIPhy playing receive operations:
DIR up with / without NXT, turnaround byte, RxCmds (after a DIR+NXT start also none: first data byte in the cycle right
after the turnaround, or after 1..3 RxCmds), data throttled by RxCmds (line-state changes, RxError), end by
RxCmd and/or DIR, chained packets without DIR falling, RxCmd-only updates -- interleaved with control-input changes
whose register writes are interrupted by DIR at chosen phases.

Oracle (from the PHY's own frame log = what was on the pins; never from DUT internals):
  receive start = DIR rising together with NXT, or an RxCmd whose RxActive bit rises; end = RxCmd with RxActive low or
  DIR low.  Expected data = bytes presented with DIR & NXT (not the turnaround cycle) while the receive is active.
"""

import hashlib
from collections import deque

from dsim.kernel import Violations
from engines.ulpi import run_history, IDX, CTRL_RESET
from models.ulpi_phy import decode_rxcmd, func_ctrl_value, otg_ctrl_value, FUNC_CTRL, OTG_CTRL, DEFAULT_REGS

PROPERTY = "C22"
ENGINE = "ulpi"
CLOCK_HZ = 60e6
RULES = {
    "C22.data_bytes": "rx_valid bytes == bytes the PHY presented with NXT while DIR high after a receive start; in order, once",
    "C22.no_rxcmd_as_data": "no RxCmd / turnaround / register-read byte is ever reported with rx_valid",
    "C22.rx_active_follows": "rx_active is high between receive start and end events and low when DIR is low (3 cycles slack)",
    "C22.status_equals_last_rxcmd": "line_state, vbus_valid, session_end, rx_error, host_disconnect, id_digital equal the decode of the most recent RxCmd (1 cycle slack)",
}
PROBES = ["rx_start_nxt", "rx_start_rxcmd", "rxcmd_start_data_next_cycle", "rxcmd_start_after_dir_ended_packet",
          "rxcmd_while_write_pending", "dir_interrupts_regwrite", "chained_packet", "rx_error_midpacket",
          "host_disconnect", "rxcmd_midpacket", "rst_variant",
          "nxt_start_data_right_after_turnaround", "nxt_start_data_after_one_rxcmd", "nxt_start_one_byte_packet_no_rxcmd"]
META = {
    "components_real": ["UTMITranslator", "ULPIRxEventDecoder", "ULPIRegisterWindow", "ULPIControlTranslator",
                        "ULPITransmitTranslator"],
    "components_stubbed": ["ULPI PHY (models.ulpi_phy.ULPIPhy)", "UTMI control inputs (literal changes from the scenario)"],
    "assumptions": ["PHY obeys ULPI 1.1: turnaround cycle on every DIR change; after the turnaround of a DIR+NXT start the PHY "
                    "sends 0..3 RxCmds (RxActive=1) before the first data byte (0 = data in the cycle right after the turnaround; "
                    "DIR rising with NXT is itself the receive start); NXT with DIR high only for receive data, commands "
                    "accepted only with DIR low",
                    "register reads cannot be requested through UTMITranslator (read_request is tied low), so the "
                    "'register-read responses never appear as data' clause is vacuous for this DUT",
                    "no UTMI transmission in this check (C23/C24 cover it)",
                    "session_valid is not checked (the statement names line state / VBUS flags; its RxCmd mapping is ambiguous)"],
    "rule": "4-14 PHY receive operations (packets 1-24 bytes, RxCmd-only updates, chained packets) with per-run enabled "
            "fault kinds (rxcmd_midpacket, rx_error, dir-ended packets, data right after the start RxCmd, control changes whose "
            "register writes are interrupted by DIR at a triggered phase); NXT delays per run; independently of the fault kinds, "
            "in 60 % of the runs half of the DIR+NXT starts have no start RxCmd (then 60 % of those present the first byte in "
            "the cycle right after the turnaround, also for one-byte and DIR-ended packets)",
}
TIERS = {"quick": {"runs": 4800, "wall": 70}, "thorough": {"runs": 20000, "wall": 900}}


def _status(rng):
    # line state, vbus state, id
    return (rng.randrange(4)) | (rng.choice([0, 1, 2, 3, 3, 3]) << 2) | (rng.getrandbits(1) << 6)


def _rx_op(rng, kn, wait):
    status = _status(rng)
    r = rng.random()
    if r < 0.2:
        op = {"op": "rx", "wait": wait, "start": "none", "ta": rng.getrandbits(8), "status": status,
              "pre": [(_status(rng) | (0x20 if kn["hostdisc"] and rng.random() < 0.2 else 0)) for _ in range(rng.randint(1, 3))]}
        return op
    start = rng.choice(["nxt", "nxt", "rxcmd"])
    n = rng.choice([1, 1, 2, 3, 3, 4, 8, 11, 12, 16, 24])
    data = bytes(rng.getrandbits(8) for _ in range(n))
    if rng.random() < 0.3:      # bytes that look like RxCmds / idle
        data = bytes(rng.choice([0x00, 0x10, 0x1d, 0x0d, 0xff, 0x5d]) for _ in range(n))
    op = {"op": "rx", "wait": wait, "start": start, "ta": rng.getrandbits(8), "status": status, "data": data.hex()}
    if start == "rxcmd":
        op["pre"] = [_status(rng) for _ in range(rng.choice([0, 0, 1, 2]))]
        if not kn["stale"] and not op["pre"]:
            op["pre"] = [status]
    op["start_cmds"] = rng.choice([1, 1, 2, 3])
    nxt0 = start == "nxt" and kn["nxt0"] and rng.random() < 0.5
    if kn["mid"]:
        op["gaps"] = [rng.choice([0, 0, 0, 1, 1, 2, 4]) for _ in range(rng.randint(1, 6))]
        op["mid"] = [_status(rng) for _ in range(rng.randint(1, 3))]
    else:
        op["gaps"] = [rng.choice([0, 0, 1])]
        op["mid"] = [status]
    if start == "rxcmd" and not kn["gap0"] and op["start_cmds"] == 1 and op["gaps"][0] == 0:
        op["start_cmds"] = 2
    if start == "rxcmd" and kn["gap0"] and rng.random() < 0.5:
        op["start_cmds"] = 1
        op["gaps"][0] = 0
    if kn["rxerror"] and rng.random() < 0.25:
        op["error_at"] = rng.randrange(n)
    if nxt0:
        # DIR+NXT start without any start RxCmd (ULPI 1.1 3.8.2.4): the first byte follows the turnaround directly, or
        # after throttling RxCmds / an RxError RxCmd only
        op["start_cmds"] = 0
        if rng.random() < 0.6:
            op["gaps"][0] = 0
            if op.get("error_at") == 0 and rng.random() < 0.7:
                op["error_at"] = rng.randrange(1, n) if n > 1 else None
                if op["error_at"] is None:
                    del op["error_at"]
    op["end"] = rng.choice(["rxcmd", "rxcmd", "dir"]) if kn["dir_end"] else "rxcmd"
    if op["end"] == "rxcmd":
        op["post"] = [_status(rng) for _ in range(rng.randint(1, 2))]
    if kn["chain"] and rng.random() < 0.3 and op["end"] == "rxcmd":
        op["keep_dir"] = True
    return op


def gen(rng, tier, index):
    fault_free = rng.random() < 0.15
    kn = {"mid": rng.random() < 0.7, "rxerror": rng.random() < 0.4, "dir_end": rng.random() < 0.7,
          "gap0": rng.random() < 0.35, "stale": rng.random() < 0.35, "chain": rng.random() < 0.4,
          "ctrl": rng.random() < 0.55, "hostdisc": rng.random() < 0.3}
    if fault_free:
        kn = {k: False for k in kn}
    kn["nxt0"] = rng.random() < 0.6          # a PHY timing choice, not a fault: also in fault-free runs
    rst = rng.random() < 0.02
    phy = {"nxt_delays": [rng.choice([0, 0, 1, 1, 2, 3, 6]) for _ in range(rng.randint(1, 4))],
           "tx_throttle": [1], "nxt_in_stp": rng.getrandbits(1), "stp_dir_commits": bool(rng.getrandbits(1)), "patience": 80}
    ctrl = dict(CTRL_RESET)
    if rng.random() < 0.5:
        ctrl.update({"xcvr_select": rng.randrange(4), "term_select": rng.getrandbits(1), "op_mode": rng.randrange(3)})
    cfg = {"rst": rst, "start_at": 59985 if rst else 2, "tail": 14, "phy": phy, "ctrl": ctrl, "tx_gap": 2}
    ops = []
    nops = rng.randint(4, 10 if tier == "quick" else 14)
    prev_ctrl = False
    for _ in range(nops):
        wait = rng.choice([0, 0, 1, 2, 3, 5, 8, 13, 30])
        if kn["ctrl"] and rng.random() < 0.3:
            name = rng.choice(["xcvr_select", "term_select", "op_mode", "suspend", "dp_pulldown", "dm_pulldown", "chrg_vbus",
                               "id_pullup"])
            val = rng.randrange(4) if name == "xcvr_select" else rng.randrange(3) if name == "op_mode" else rng.getrandbits(1)
            ops.append({"op": "ctrl", "wait": wait, "set": {name: val}})
            prev_ctrl = True
            continue
        op = _rx_op(rng, kn, wait)
        if prev_ctrl and rng.random() < 0.7:
            op["trigger"] = [rng.choice(["regcmd", "regcmd", "regdata", "regstp"]), rng.choice([0, 0, 1, 2])]
            op["wait"] = rng.choice([0, 1, 2])
        prev_ctrl = False
        ops.append(op)
    return {"engine": ENGINE, "config": cfg, "ops": ops}


# --------------------------------------------------------------------------------------------------
FLAGS = ["line_state", "vbus_valid", "session_end", "rx_error", "host_disconnect", "id_digital"]


def _pending_fn(director, phy, n):
    """ per-cycle: does the PHY register file differ from the requested control encoding (a write is outstanding) """
    regs = {FUNC_CTRL: DEFAULT_REGS[FUNC_CTRL], OTG_CTRL: DEFAULT_REGS[OTG_CTRL]}
    writes = sorted((w["t_stp"], w["addr"], w["data"]) for w in phy.reg_writes)
    wi = ci = 0
    clog = director.ctrl_log
    req = None
    out = []
    for t in range(n):
        while ci < len(clog) and clog[ci][0] <= t:
            c = clog[ci][1]
            req = {FUNC_CTRL: func_ctrl_value(c), OTG_CTRL: otg_ctrl_value(c)}
            ci += 1
        while wi < len(writes) and writes[wi][0] <= t:
            regs[writes[wi][1]] = writes[wi][2]
            wi += 1
        out.append(int(any(regs.get(a) != v for a, v in req.items())))
    return out


def run(scn):
    log, director, phy, utmi, trace = run_history(scn)
    if not director.finished:
        raise RuntimeError(f"scenario did not finish in {log.cycles} cycles (phy state {phy.state}, queue {len(phy.queue)})")
    viol = Violations()
    probes = {p: 0 for p in PROBES}
    rows = trace.rows
    n = len(rows)
    frames = {f[0]: f for f in phy.frames_log}
    pending = _pending_fn(director, phy, n)
    if scn["config"].get("rst"):
        probes["rst_variant"] += 1

    i_rv, i_rd, i_ra = IDX["rx_valid"], IDX["rx_data"], IDX["rx_active"]
    i_flags = [IDX[f] for f in FLAGS]

    # ---- model over the PHY's frames --------------------------------------------------------------------
    active = 0
    last_cmd = None
    m_active = []
    m_cmd = []
    dir_low_since_cmd = []                 # DIR was low in some cycle after the most recent RxCmd
    dls = True
    dir_col = IDX["dir"]
    exp = deque()
    pkt = {"start": None, "gap0": False, "stale": False, "pos": 0}
    ended_by_dir_while_active = False      # the previous packet ended by DIR falling with RxActive still reported high
    last_rxcmd_active = 0
    n_packets = 0
    n_bytes = 0
    pkts = []
    for t in range(n):
        fr = frames.get(t)
        if fr is not None:
            _, d, nx, dat, tag = fr
            if tag == "ta":
                if nx:
                    active = 1
                    pkt = {"start": "nxt", "gap0": False, "stale": False, "pos": 0, "t0": t, "act_cmds": 0}
                    pkts.append(pkt)
                    probes["rx_start_nxt"] += 1
                    n_packets += 1
            elif tag == "rxcmd":
                last_cmd = dat
                dls = False
                new = (dat >> 4) & 1
                if pending[t]:
                    probes["rxcmd_while_write_pending"] += 1
                if ((dat >> 4) & 3) == 2:
                    probes["host_disconnect"] += 1
                if ((dat >> 4) & 3) == 3:
                    probes["rx_error_midpacket"] += 1
                if new and not active:
                    stale = bool(last_rxcmd_active)       # the link last heard RxActive=1 (packet ended by DIR only)
                    pkt = {"start": "rxcmd", "gap0": False, "stale": stale, "pos": 0, "t0": t, "act_cmds": 0}
                    pkts.append(pkt)
                    probes["rx_start_rxcmd"] += 1
                    if stale:
                        probes["rxcmd_start_after_dir_ended_packet"] += 1
                    n_packets += 1
                elif new and active and pkt.get("pos", 0) > 0:
                    probes["rxcmd_midpacket"] += 1
                if new:
                    pkt["act_cmds"] = pkt.get("act_cmds", 0) + 1      # RxCmds with RxActive=1 seen by this packet
                active = new
                last_rxcmd_active = new
            elif tag == "data":
                if active:
                    prev = frames.get(t - 1)
                    first = pkt["pos"] == 0
                    if first and pkt["start"] == "rxcmd" and prev is not None and prev[4] == "rxcmd" and prev[0] == pkt["t0"]:
                        pkt["gap0"] = True
                        probes["rxcmd_start_data_next_cycle"] += 1
                    if first and pkt["start"] == "nxt":
                        if t == pkt["t0"] + 1:
                            probes["nxt_start_data_right_after_turnaround"] += 1
                            nxt_f = frames.get(t + 1)
                            if nxt_f is None or nxt_f[4] == "ta_out" or (nxt_f[4] == "rxcmd" and not (nxt_f[3] >> 4) & 1):
                                probes["nxt_start_one_byte_packet_no_rxcmd"] += 1
                        elif t == pkt["t0"] + 2:
                            probes["nxt_start_data_after_one_rxcmd"] += 1
                    exp.append((t, dat, dict(pkt), pending[t]))
                    pkt["pos"] += 1
                    n_bytes += 1
            elif tag == "ta_out":
                active = 0
        if not rows[t][dir_col]:
            dls = True
        m_active.append(active)
        m_cmd.append(last_cmd)
        dir_low_since_cmd.append(dls)
    # chained packets: operations started while DIR was already high
    dir_idx = IDX["dir"]
    probes["chained_packet"] = sum(1 for (t0, op) in phy.ops_started
                                   if op.get("start") in ("rxcmd", "nxt") and 0 < t0 <= n and rows[t0 - 1][dir_idx] == 1)
    probes["dir_interrupts_regwrite"] = sum(v for k, v in phy.fired.items() if k.startswith("dir_interrupt_reg")
                                            or k == "dir_interrupt_cmd")

    # ---- compare with what the translator showed --------------------------------------------------------
    exp_q = deque(exp)
    outcome = set()
    for t in range(n):
        row = rows[t]
        if viol:
            break
        if row[i_rv]:
            if exp_q and exp_q[0][0] <= t - 1:
                et, eb, p, pend = exp_q[0]
                later = [e for e in list(exp_q)[1:4] if e[0] == t - 1 and e[1] == row[i_rd]]
                if row[i_rd] != eb and et < t - 1 and later:
                    # the translator delivered a later PHY byte: an earlier byte of the expected stream was skipped
                    _lost(viol, t, exp, rows, i_rv, exp_q[0])
                    break
                exp_q.popleft()
                if row[i_rd] != eb:
                    viol.add("C22.data_bytes", t, f"rx_data={row[i_rd]:#04x} at cycle {t}, expected {eb:#04x} (PHY byte of cycle {et}, "
                             f"byte {p['pos']} of a packet started by {p['start']})", kind="wrong_value", start=p["start"],
                             gap0=p["gap0"], stale_rxactive=p["stale"], write_pending=bool(pend))
                outcome.add("byte")
            else:
                src = frames.get(t - 1)
                tag = src[4] if src else "link_owned"
                rule = "C22.no_rxcmd_as_data" if tag in ("rxcmd", "ta", "regread") else "C22.data_bytes"
                viol.add(rule, t, f"rx_valid with rx_data={row[i_rd]:#04x} at cycle {t} but the PHY presented no receive data "
                         f"(bus cycle {t - 1} was '{tag}')", kind="spurious", source=tag, write_pending=bool(pending[t - 1]))
        if exp_q and exp_q[0][0] < t - 4:
            _lost(viol, t, exp, rows, i_rv, exp_q[0])
            break
        if t >= 3:
            a = m_active[t - 1]
            if m_active[t - 2] == a and m_active[t - 3] == a and row[i_ra] != a:
                viol.add("C22.rx_active_follows", t, f"rx_active={row[i_ra]} at cycle {t}; the PHY's receive state has been "
                         f"{a} since at least cycle {t - 3} (packet start kind {pkt.get('start')})", expected=a,
                         write_pending=bool(pending[t - 1]), stale_rxactive=bool(a and _pkt_at(pkts, t, "stale")),
                         start=_pkt_at(pkts, t, "start") if a else "none",
                         # classification of 'rx_active stuck high': how the most recent packet started, whether the PHY
                         # sent any RxCmd with RxActive=1 during it, and whether DIR is still high
                         after_start=_pkt_at(pkts, t, "start") if not a else "n/a",
                         packet_had_rxactive_rxcmd=bool(_pkt_at(pkts, t, "act_cmds")) if not a else True,
                         dir_high=bool(row[dir_idx]))
                break
            if m_cmd[t - 2] is not None:
                adm = [decode_rxcmd(m_cmd[k]) for k in (t - 2, t - 1, t)]
                for f, idx in zip(FLAGS, i_flags):
                    ok = [x[f] for x in adm]
                    if f == "rx_error" and (not (rows[t - 1][dir_idx] and row[dir_idx]) or any(dir_low_since_cmd[t - 2:t + 1])):
                        # DIR low means RxActive low: an error flag tied to RxActive may drop, and stays down until the
                        # next RxCmd (after a DIR+NXT start data may follow the turnaround without any RxCmd)
                        ok.append(0)
                    if row[idx] not in ok:
                        viol.add("C22.status_equals_last_rxcmd", t, f"{f}={row[idx]} at cycle {t}; the most recent RxCmd "
                                 f"{m_cmd[t - 1]:#04x} (cycle <= {t - 1}) decodes to {adm[1][f]}", flag=f,
                                 write_pending=bool(pending[t - 1]))
                        break
    if not viol and exp_q:
        _lost(viol, n, exp, rows, i_rv, exp_q[0])

    faults = dict(phy.fired)
    faults["rxcmd_midpacket"] = probes["rxcmd_midpacket"]
    faults["rx_error"] = probes["rx_error_midpacket"]
    faults["control_change"] = len(director.ctrl_log) - 1
    faults["rxcmd_while_write_pending"] = probes["rxcmd_while_write_pending"]
    faults = {k: v for k, v in faults.items() if v}
    cls = (scn["config"]["rst"], n_packets > 0, sorted(k for k, v in probes.items() if v))
    sig = hashlib.blake2b(repr((cls, sorted(log.fsm_vectors), sorted(faults), sorted(outcome))).encode(), digest_size=8).hexdigest()
    return {"violations": viol.items, "cycles": log.cycles, "faults": faults, "probes": probes, "sig": sig,
            "nontrivial": n_bytes > 0, "digest": log.digest, "fsm": len(log.fsm_vectors)}


def _lost(viol, t, exp_all, rows, i_rv, head):
    """ Reports a lost byte.  The violation is established by the caller (order/once broken); which byte of a run of
        equal bytes is named is only a matter of presentation: prefer the first expected byte that was not reported in
        the cycle after it was on the bus. """
    culprit = head
    for e in exp_all:
        if e[0] > head[0]:
            break
        if e[0] + 1 < len(rows) and not rows[e[0] + 1][i_rv] and e[2]["t0"] == head[2]["t0"]:
            culprit = e
            break
    et, eb, p, pend = culprit
    viol.add("C22.data_bytes", t, f"PHY data byte {eb:#04x} of cycle {et} (byte {p['pos']} of a packet started by {p['start']} "
             f"at cycle {p['t0']}) was never reported with rx_valid (detected at cycle {t})", kind="lost", start=p["start"],
             gap0=bool(p["gap0"] and p["pos"] == 0), stale_rxactive=p["stale"], write_pending=bool(pend),
             first_byte=p["pos"] == 0)


def _pkt_at(pkts, t, key):
    """ attribute of the most recent packet started at or before cycle t (used for violation shapes only) """
    best = None
    for p in pkts:
        if p["t0"] <= t:
            best = p
    if best is None:
        return False if key == "stale" else 0 if key == "act_cmds" else "unknown"
    return best.get(key, 0)
