"""
C06 -- SETUP requests are decoded exactly and survive earlier corrupted packets.

DUT (a) the complete USBDevice (V1 12 MHz / V2 60 MHz timing) with the standard control endpoint; the decoded
setup packet is observed through a passive request handler added with the public add_request_handler();
(b) USBSetupDecoder(standalone=True) with the speed pin at FULL or HIGH.
The host actor plays a history of packets: valid SETUP transactions mixed with corrupted / truncated /
over-long / aborted / foreign / unrelated packets.  The oracle predicts from the *sent* bytes which SETUP
transactions must be reported.
"""

import hashlib

from dsim.kernel import make_bench, cached_bench, Violations
from models.usb2_wire import gen_idle_data
from models import usb2
from models.usb2 import UTMIHost, token_packet, data_packet, sof_packet, handshake_packet, apply_fault, parse_token, parse_data
from engines.usb2_device import device_bench, IDLE_INIT

PROPERTY = "C06"
ENGINE = "usb2_device"
CLOCK_HZ = 60e6
RULES = {
    "C06.reported_iff": "a setup request is reported iff SETUP@device/ep0 is immediately followed by a CRC-valid 8-byte data packet",
    "C06.fields": "reported request type/request/value/index/length equal the 8 bytes, little-endian",
    "C06.ack_once": "a valid SETUP is ACKed exactly once, no earlier than the inter-packet gap; a rejected one is not answered",
    "C06.not_missed_after_fault": "a valid SETUP after a corrupted/aborted/unrelated prefix is still reported and ACKed",
}
PROBES = ["valid_setup_after_corrupt_data", "valid_setup_after_truncated_data", "valid_setup_after_abort",
          "setup_short_payload", "setup_long_payload", "setup_bad_crc", "setup_foreign_address", "setup_token_then_token",
          "high_speed_runs", "setup_noncontrol_ep", "setup_token_only_then_foreign_setup"]
META = {
    "components_real": ["USBDevice", "USBControlEndpoint", "USBSetupDecoder", "USBDataPacketDeserializer", "USBTokenDetector",
                        "USBDataPacketCRC", "USBInterpacketTimer", "USBHandshakeGenerator", "StandardRequestHandler",
                        "USBStreamInEndpoint", "USBStreamOutEndpoint"],
    "components_stubbed": ["UTMI PHY + host (models.usb2.UTMIHost)", "passive spy request handler / spy endpoint (observation only)"],
    "assumptions": ["legal UTMI receive side: rx_valid only while rx_active; rx_active rises >= 1 cycle before the first byte and "
                    "falls between packets", "the host does not transmit while the device transmits",
                    "'followed by' is read as 'immediately followed by' (no other packet between the SETUP token and its data packet)"],
    "rule": "history of 6-30 host packets: valid SETUP transactions interleaved with faulty ones (corrupt_bit, truncate, extend, "
            "abort_rx, foreign_address, bad_pid) and unrelated tokens/handshakes/SOFs/data; byte period, gaps, tx_ready pattern "
            "and timing variant per run",
}
TIERS = {"quick": {"runs": 2800, "wall": 75}, "thorough": {"runs": 24000, "wall": 1200}}

DEV_CFG = {
    "V1": {"variant": "V1", "endpoints": [{"kind": "stream_in", "ep": 1, "mps": 16}, {"kind": "stream_out", "ep": 1, "mps": 16}]},
    "V2": {"variant": "V2", "endpoints": [{"kind": "stream_in", "ep": 1, "mps": 16}, {"kind": "stream_out", "ep": 1, "mps": 16}]},
}


# ------------------------------------------------------------------------------------------------
def _rand_fault(rng, nbytes, kinds):
    k = rng.choice(kinds)
    if k == "corrupt_bit":
        return {"kind": "corrupt_bit", "bits": [rng.randrange(nbytes * 8) for _ in range(rng.choice([1, 1, 2]))]}
    if k == "truncate":
        return {"kind": "truncate", "to": rng.randint(1, max(1, nbytes - 1))}
    if k == "extend":
        return {"kind": "extend", "extra": bytes(rng.getrandbits(8) for _ in range(rng.randint(1, 4))).hex()}
    if k == "bad_pid_nibble":
        return {"kind": "bad_pid_nibble", "bit": rng.randrange(8)}
    raise ValueError(k)


def _setup_bytes(rng):
    b = bytearray(rng.getrandbits(8) for _ in range(8))
    # keep the device address at 0 in this check: no standard SET_ADDRESS (that path belongs to C08)
    if (b[0] >> 5) & 3 == 0 and b[1] == 5:
        b[1] = 6
    if rng.random() < 0.3:
        b[6], b[7] = rng.choice([0, 1, 8, 64]), 0
    return bytes(b)


def _unrelated(rng):
    """ a packet that is not part of a SETUP transaction """
    k = rng.choice(["token_other_ep", "token_other_addr", "handshake", "sof", "data", "data_bad", "garbage", "out8"])
    if k == "token_other_ep":
        return {"op": "pkt", "bytes": token_packet(rng.choice(["IN", "OUT", "PING"]), 0, rng.randint(1, 15)).hex(), "what": k}
    if k == "token_other_addr":
        return {"op": "pkt", "bytes": token_packet(rng.choice(["IN", "OUT", "SETUP", "PING"]), rng.randint(1, 127), rng.randint(0, 15)).hex(), "what": k}
    if k == "handshake":
        return {"op": "pkt", "bytes": handshake_packet(rng.choice(["ACK", "NAK", "STALL", "NYET"])).hex(), "what": k}
    if k == "sof":
        return {"op": "pkt", "bytes": sof_packet(rng.getrandbits(11)).hex(), "what": k}
    if k == "data":
        n = rng.choice([0, 1, 2, 3, 7, 8, 8, 9, 12])
        return {"op": "pkt", "bytes": data_packet(rng.choice(usb2.DATA_PIDS), bytes(rng.getrandbits(8) for _ in range(n))).hex(), "what": k}
    if k == "data_bad":
        n = rng.choice([0, 1, 2, 3, 5, 8, 8, 9, 12])
        raw = data_packet(rng.choice(["DATA0", "DATA1"]), bytes(rng.getrandbits(8) for _ in range(n)))
        f = _rand_fault(rng, len(raw), ["corrupt_bit", "truncate", "truncate", "extend"])
        d = {"op": "pkt", "bytes": apply_fault(raw, f).hex(), "what": "data_" + f["kind"]}
        if rng.random() < 0.25:
            d["abort_at"] = rng.randint(1, max(1, len(raw) - 1))
            d["what"] = "data_abort"
        return d
    if k == "garbage":
        return {"op": "pkt", "bytes": bytes(rng.getrandbits(8) for _ in range(rng.randint(1, 14))).hex(), "what": k}
    # OUT token to the bulk endpoint followed by a valid 8-byte data packet: looks like a setup payload, is not
    return {"op": "out8", "ep": 1, "data": bytes(rng.getrandbits(8) for _ in range(8)).hex(),
            "pid": rng.choice(["DATA0", "DATA1"]), "what": k}


def gen(rng, tier, index):
    dut = rng.choice(["V1", "V2", "V2", "decoder_fs", "decoder_hs"])
    cfg = {
        "dut": dut,
        "byte_period": rng.choice([1, 1, 2, 3, 5]),
        "pre": rng.choice([1, 1, 2, 3]),
        "post": rng.choice([0, 0, 1, 2]),
        "gaps": [rng.choice([0, 0, 0, 1, 3]) for _ in range(rng.randint(1, 5))] if rng.random() < 0.4 else None,
        "txready": rng.choice(["always", "always", ["every", 2], ["every", 3],
                               ["list", [rng.getrandbits(1) | (i == 0) for i in range(7)]]]),
        "interpacket": rng.choice([1, 2, 4, 12]),
    }
    nops = rng.randint(6, 18 if tier == "quick" else 30)
    fault_free = rng.random() < 0.15
    ops = []
    for _ in range(nops):
        r = rng.random()
        if r < 0.45 or fault_free:
            op = {"op": "setup", "addr": 0, "ep": 0, "data": _setup_bytes(rng).hex(), "pid": "DATA0", "gap": rng.choice([1, 2, 3, 8])}
            if not fault_free:
                q = rng.random()
                if q < 0.12:
                    op["data_fault"] = _rand_fault(rng, 11, ["corrupt_bit"])
                elif q < 0.22:
                    op["data_fault"] = _rand_fault(rng, 11, ["truncate"])
                elif q < 0.30:
                    op["data_fault"] = _rand_fault(rng, 11, ["extend"])
                elif q < 0.36:
                    op["token_fault"] = _rand_fault(rng, 3, ["corrupt_bit", "truncate", "extend", "bad_pid_nibble"])
                elif q < 0.42:
                    op["addr"] = rng.randint(1, 127)
                elif q < 0.46:
                    op["skip_data"] = True
                elif q < 0.50:
                    op["pid"] = rng.choice(["DATA1", "DATA2", "MDATA"])
                elif q < 0.54:
                    op["data_abort_at"] = rng.randint(1, 10)
                elif q < 0.57:
                    op["ep"] = rng.randint(1, 15)
                elif q < 0.62:
                    # the SETUP token for EP0 arrives but its data packet is never seen; the very next thing on the bus is a
                    # complete, valid SETUP transaction for another endpoint or another device: its data must not be taken as ours
                    op["skip_data"] = True
                    ops.append(op)
                    op = {"op": "setup", "addr": 0, "ep": rng.randint(1, 15), "data": _setup_bytes(rng).hex(), "pid": "DATA0",
                          "gap": rng.choice([1, 2, 3, 8])}
                    if rng.random() < 0.3:
                        op["addr"], op["ep"] = rng.randint(1, 127), rng.choice([0, 0, rng.randint(1, 15)])
            ops.append(op)
        elif r < 0.9:
            ops.append(_unrelated(rng))
        else:
            ops.append({"op": "idle", "n": rng.randint(1, 60)})
    # always finish with a clean valid SETUP: "never causes a later valid SETUP to be missed"
    ops.append({"op": "setup", "addr": 0, "ep": 0, "data": _setup_bytes(rng).hex(), "pid": "DATA0", "gap": 2})
    cfg["idle_data"] = gen_idle_data(rng)
    return {"engine": ENGINE, "config": cfg, "ops": ops}


# ------------------------------------------------------------------------------------------------
def _decoder_bench(speed):
    def factory():
        from luna.gateware.interface.utmi import UTMIInterface
        from luna.gateware.usb.usb2.request import USBSetupDecoder
        utmi = UTMIInterface()
        dut = USBSetupDecoder(utmi=utmi, standalone=True)
        ins = {"rx_data": utmi.rx_data, "rx_active": utmi.rx_active, "rx_valid": utmi.rx_valid, "speed": dut.speed,
               "tx_ready": utmi.tx_ready, "line_state": utmi.line_state}
        p = dut.packet
        outs = {"setup_received": p.received, "setup_is_in": p.is_in_request, "setup_type": p.type,
                "setup_recipient": p.recipient, "setup_request": p.request, "setup_value": p.value,
                "setup_index": p.index, "setup_length": p.length, "ack": dut.ack,
                "tx_valid": utmi.tx_valid, "tx_data": utmi.tx_data}
        return make_bench(dut, clocks={"usb": 1 / 60e6}, main="usb", ins=ins, outs=outs)
    return cached_bench(("c06-decoder",), factory)


class _Monitor:
    def __init__(self):
        self.reports = []
        self.acks = []       # cycles with the standalone decoder's ack strobe

    def observe(self, t, o):
        if o["setup_received"]:
            self.reports.append((t, {"is_in": o["setup_is_in"], "type": o["setup_type"], "recipient": o["setup_recipient"],
                                     "request": o["setup_request"], "value": o["setup_value"], "index": o["setup_index"],
                                     "length": o["setup_length"]}))
        if o.get("ack"):
            self.acks.append(t)


def _expected_fields(b):
    return {"recipient": b[0] & 0x1F, "type": (b[0] >> 5) & 3, "is_in": b[0] >> 7, "request": b[1],
            "value": b[2] | (b[3] << 8), "index": b[4] | (b[5] << 8), "length": b[6] | (b[7] << 8)}


def run(scn):
    cfg = scn["config"]
    dut = cfg["dut"]
    is_dev = dut in ("V1", "V2")
    if is_dev:
        bench = device_bench(DEV_CFG[dut])
        init = dict(IDLE_INIT)
        bit = 5 if dut == "V2" else 1              # cycles per full-speed bit time
        min_gap, timeout = 2 * bit, 18 * bit + 4
    else:
        bench = _decoder_bench(dut)
        hs = dut == "decoder_hs"
        init = {"speed": 0 if hs else 1, "tx_ready": 1}
        min_gap, timeout = (1, 40) if hs else (10, 94)
    viol = Violations()
    probes = {p: 0 for p in PROBES}
    faults = {}
    records = []          # per setup op: dict(expect, t_token_end, t_data_end, window_end, data, resp)
    mon = _Monitor()
    ops = scn["ops"]

    def fault(kind):
        faults[kind] = faults.get(kind, 0) + 1

    def script(h):
        yield from h.idle(4)
        last_bad = None
        for op in ops:
            kind = op["op"]
            if kind == "idle":
                yield from h.idle(op["n"])
                continue
            if kind == "pkt":
                raw = bytes.fromhex(op["bytes"])
                if op.get("abort_at") is not None:
                    fault("abort_rx")
                what = op.get("what", "")
                if what.startswith("data_") or what == "garbage":
                    fault(what)
                    last_bad = what
                yield from h.send(raw, abort_at=op.get("abort_at"), info=what)
                r = yield from h.recv(timeout)
                yield from h.idle(cfg["interpacket"])
                continue
            if kind == "out8":
                yield from h.send(token_packet("OUT", 0, op["ep"]))
                yield from h.idle(2)
                yield from h.send(data_packet(op["pid"], bytes.fromhex(op["data"])))
                r = yield from h.recv(timeout)
                yield from h.idle(cfg["interpacket"])
                continue
            # ---- a SETUP transaction ----
            tok = apply_fault(token_packet("SETUP", op["addr"], op["ep"]), op.get("token_fault"))
            raw_data = apply_fault(data_packet(op["pid"], bytes.fromhex(op["data"])), op.get("data_fault"))
            for k in ("token_fault", "data_fault"):
                if op.get(k):
                    fault(op[k]["kind"])
            if op["addr"] != 0:
                fault("foreign_address")
                probes["setup_foreign_address"] += 1
            p = parse_token(tok)
            token_ok = p is not None and p[0] == "SETUP" and p[1] == 0
            to_ep0 = token_ok and p[2] == 0
            rec = {"op": op, "token_ok": token_ok, "to_ep0": to_ep0, "after_bad": last_bad}
            _, t_tok_end = yield from h.send(tok, info="setup_token")
            rec["t_token_end"] = t_tok_end
            if op.get("skip_data"):
                probes["setup_token_then_token"] += 1
                rec["expect"] = False
                rec["t_data_end"] = t_tok_end
                r = yield from h.recv(timeout)
                rec["resp"] = r
                rec["window_end"] = h.t
                records.append(rec)
                yield from h.idle(cfg["interpacket"])
                continue
            yield from h.idle(op["gap"])
            abort_at = op.get("data_abort_at")
            if abort_at is not None:
                fault("abort_rx")
            sent = raw_data if abort_at is None else raw_data[:abort_at]
            d = parse_data(sent)
            data_ok = d is not None and len(d[1]) == 8
            if d is None:
                if len(sent) < 11:
                    probes["setup_short_payload"] += 1
                probes["setup_bad_crc"] += 1
            elif len(d[1]) != 8:
                probes["setup_long_payload" if len(d[1]) > 8 else "setup_short_payload"] += 1
            _, t_end = yield from h.send(raw_data, abort_at=abort_at, info="setup_data")
            rec["t_data_end"] = t_end
            rec["expect"] = bool(token_ok and to_ep0 and data_ok)
            rec["noncontrol"] = bool(token_ok and not to_ep0 and data_ok)
            rec["payload"] = d[1] if data_ok else None
            if rec["noncontrol"]:
                probes["setup_noncontrol_ep"] += 1
            if records and records[-1]["op"].get("skip_data") and records[-1]["to_ep0"] and data_ok and not rec["expect"]:
                probes["setup_token_only_then_foreign_setup"] += 1
            if rec["expect"] and last_bad:
                key = {"data_corrupt_bit": "valid_setup_after_corrupt_data", "data_truncate": "valid_setup_after_truncated_data",
                       "data_abort": "valid_setup_after_abort"}.get(last_bad)
                if key:
                    probes[key] += 1
            r = yield from h.recv(timeout)
            rec["resp"] = r
            if r is not None:
                yield from h.idle(1)
            rec["window_end"] = h.t
            records.append(rec)
            if not rec["expect"]:
                last_bad = "data_" + (op.get("data_fault") or {}).get("kind", "other") if token_ok else last_bad
            else:
                last_bad = None
            yield from h.idle(cfg["interpacket"])
        yield from h.idle(10)

    host = UTMIHost(script, idle_data=cfg.get("idle_data"), byte_period=cfg["byte_period"], pre=cfg["pre"], post=cfg["post"], gap_pattern=cfg["gaps"],
                    txready=(cfg["txready"] if cfg["txready"] == "always" else tuple(cfg["txready"])))
    if not is_dev and dut == "decoder_hs":
        probes["high_speed_runs"] += 1
    max_cycles = 400 + sum(40 * (cfg["byte_period"] + 3) + 2 * timeout + op.get("n", 0) for op in ops)
    log = bench.run([host, mon], max_cycles, init=init)
    if not host._done:
        raise RuntimeError("host script did not finish within the cycle cap")

    # ---- oracle over the recorded history (wire-level: decided from the bytes actually sent) ----
    rx = [e for e in host.events if e[0] == "rx"]
    tx = [e for e in host.events if e[0] == "tx"]
    latched = None            # last well-formed non-SOF token: (pid, ep) if addressed to the device, else None
    used = set()
    n_expected = 0
    last_bad = None
    for i, (_, t0, t1, raw, info) in enumerate(rx):
        w_end = rx[i + 1][1] - 1 if i + 1 < len(rx) else log.cycles
        prev = rx[i - 1][3] if i > 0 else b""
        ptok = parse_token(prev)
        d = parse_data(raw)
        # the standalone decoder has no endpoint number of its own: it decodes SETUPs for any endpoint of the device
        is_setup_data = ptok is not None and ptok[0] == "SETUP" and ptok[1] == 0 and (ptok[2] == 0 or not is_dev)
        valid = bool(is_setup_data and d is not None and len(d[1]) == 8)
        noncontrol = bool(is_dev and ptok is not None and ptok[0] == "SETUP" and ptok[1] == 0 and ptok[2] != 0 and d is not None and len(d[1]) == 8)
        hits = [(k, r) for k, r in enumerate(mon.reports) if t1 <= r[0] <= w_end]
        resp = [e for e in tx if t1 <= e[1] <= w_end]
        shape = {"dut": dut, "after": last_bad or "clean", "noncontrol_ep": noncontrol}
        if valid:
            n_expected += 1
            rule = "C06.not_missed_after_fault" if last_bad else "C06.reported_iff"
            if len(hits) != 1:
                viol.add(rule, t1, f"valid SETUP (data {d[1].hex()}) ending at cycle {t1}: {len(hits)} reports (expected exactly 1) "
                         f"in the following {w_end - t1} cycles; preceded by {last_bad}", **shape)
            else:
                used.add(hits[0][0])
                exp = _expected_fields(d[1])
                if hits[0][1][1] != exp:
                    viol.add("C06.fields", hits[0][1][0], f"reported {hits[0][1][1]} expected {exp}", **shape)
            if is_dev:
                kinds = [usb2.classify_tx(e[3])[0] for e in resp]
                if kinds != ["ACK"]:
                    viol.add(rule if last_bad else "C06.ack_once", t1, f"valid SETUP ending at {t1}: device sent {kinds} "
                             f"(expected exactly one ACK within {timeout} cycles); preceded by {last_bad}", **shape)
                elif resp[0][1] - t1 < min_gap:
                    viol.add("C06.ack_once", resp[0][1], f"ACK starts {resp[0][1] - t1} cycles after the data packet "
                             f"(inter-packet gap is {min_gap})", **shape)
                elif resp[0][1] - t1 > timeout:
                    viol.add("C06.ack_once", resp[0][1], f"ACK starts {resp[0][1] - t1} cycles after the data packet "
                             f"(bus timeout is {timeout})", **shape)
            else:
                acks = [a for a in mon.acks if t1 <= a <= w_end]
                if len(acks) != 1:
                    viol.add("C06.ack_once", t1, f"{len(acks)} ack strobes for a valid SETUP (expected 1)", **shape)
                elif acks[0] - t1 < min_gap - 1:
                    viol.add("C06.ack_once", acks[0], f"ack strobe {acks[0] - t1} cycles after the data packet "
                             f"(inter-packet gap is {min_gap})", **shape)
            last_bad = None
        else:
            for k, r in hits:
                used.add(k)
            if hits:
                viol.add("C06.reported_iff", hits[0][1][0], f"setup reported after packet {raw.hex()} (preceded by {prev.hex()}), "
                         f"which is not a CRC-valid 8-byte data packet immediately following SETUP@device/ep0", **shape)
            # a rejected SETUP transaction is not answered.  Only asserted when no OUT/PING token for a real
            # endpoint is latched (then a response would be that endpoint's business, not the setup decoder's).
            setup_like = (len(prev) >= 1 and usb2.pid_name(prev[0]) == "SETUP") or (ptok is not None and ptok[0] == "SETUP")
            data_like = len(raw) >= 1 and usb2.pid_name(raw[0]) in usb2.DATA_PIDS
            if setup_like and data_like and not (latched and latched[0] in ("OUT", "PING")):
                if is_dev and resp:
                    viol.add("C06.ack_once", resp[0][1], f"device answered {resp[0][3].hex()} to a rejected SETUP transaction "
                             f"(token {prev.hex()}, data {raw.hex()})", **shape)
                if not is_dev and [a for a in mon.acks if t1 <= a <= w_end]:
                    viol.add("C06.ack_once", t1, f"ack strobe for a rejected SETUP transaction (token {prev.hex()}, data {raw.hex()})", **shape)
            if data_like and d is None:
                last_bad = info if (info or "").startswith("data_") else "data_bad"
            elif info in ("garbage",) or (info == "setup_token" and parse_token(raw) is None):
                last_bad = last_bad or info
        tok = parse_token(raw)
        if tok is not None and tok[0] != "SOF":
            latched = (tok[0], tok[2]) if tok[1] == 0 else None
    for k, r in enumerate(mon.reports):
        if k not in used:
            viol.add("C06.reported_iff", r[0], f"setup reported at cycle {r[0]} outside any packet window: {r[1]}",
                     dut=dut, after="spurious", noncontrol_ep=False)
    records = [{"expect": True}] * n_expected + [{"expect": False}] * (len(rx) - n_expected)

    outcome = sorted(set(("ok" if r["expect"] else "rej") for r in records))
    sig = hashlib.blake2b(repr((dut, sorted(log.fsm_vectors), sorted(faults), outcome)).encode(), digest_size=8).hexdigest()
    return {"violations": viol.items, "cycles": log.cycles, "faults": faults, "probes": probes, "sig": sig,
            "nontrivial": bool(faults) and any(r["expect"] for r in records), "digest": log.digest,
            "fsm": len(log.fsm_vectors)}
